"""C04 - every builder returns a valid, stationary and (where promised) reversible model.

All three builders x {ndarray, csr, csc, coo, lil, dok, dia, bsr `*_matrix`} x prior
{None, scalar, ndarray} x calculate_eq_probs {True, False} on random non-negative, strongly
connected count matrices.  Real outputs are (i) compared with the Lean model (normalize /
transpose: exact over Rat, stationary vector by certified exact elimination; mle: the Float
instance of the Prinz model), (ii) checked directly against the property's words.
"""
import ast
import os
import warnings
from fractions import Fraction

import numpy as np

from . import c12 as _c12

RULE = ('LARGE sparse family straddling the size switch of eigenspectrum (999/1000/1001, 1024, 1500, 2048 states; '
        'periodic chains of period 2/3/4/6, near-periodic, metastable blocks, aperiodic; csr/csc/coo/lil/dok/bsr; '
        'normalize called repeatedly on the same matrix because ARPACK starts from a random vector; transpose once; '
        'oracle = direct sparse solve); sparse inputs with un-summed repeated entries (coo from transition lists incl. the real '
        'assigns_to_counts output, non-canonical csr/csc), structured matrices with pendant states / self-plus-one states / nearly closed pairs (see C12) and '
        'random non-negative integer (and a few dyadic real) count matrices with 1..8 states, positive '
        'row sums and a strongly connected graph (random Hamiltonian cycle laid over the draw); each is '
        'passed to normalize, transpose and mle as ndarray and as the 7 scipy sparse *matrix* formats, '
        'with prior None / scalar / random ndarray and calculate_eq_probs True/False; plus zero-row '
        'matrices for the guard in _row_normalize (normalize, no populations); a case = one call; '
        'non-trivial when the matrix is not already row-stochastic; distinct by (matrix, builder, '
        'container, prior, flag)')
ASSUMPTIONS = [
    'the >= 1000-state sparse family is correspondence-only: the Lean model has no ARPACK/LAPACK (the solver is the '
    'parameter of C04_solver_contract); its populations are checked against a direct sparse solve that certifies '
    'its own residual, stationarity within 1e-8; builders.mle is not run on it (pure-Python O(n^2) sweeps)',
    'LAPACK eig returns a left eigenvector for eigenvalue 1 (C04_solver_contract; normalize_stationary_partial / normalize_stationary_of_solver_contract); '
    'the run compares its normalised output with the exact stationary vector (Gauss-Jordan over Rat, '
    'accepted only with an exact residual certificate) within 1e-9',
    'scipy result containers of A + A.T, A + scalar, A + ndarray, A / 2 are a measured table '
    '(Model.Builders.symContainer / priorContainer), re-measured on every run',
    'scipy.sparse *_array containers are outside the quantifier and not exercised',
    'mle values come from the Float instance of Model.Mle (see C12); tolerance 1e-8',
]
TRUSTED_EXTRA = ['translator harness/props/c04.py:translate (AST of _apply_prior_counts) and c12.translate']
LEAN_MODULES = ['Props.C04']

FORMATS = ['csr', 'csc', 'coo', 'lil', 'dok', 'dia', 'bsr']
CONTAINERS = ['ndarray'] + [f + '_matrix' for f in FORMATS]
BUILDERS = ['normalize', 'transpose', 'mle']
TOL = 1e-9
TOL_MLE = 1e-8
# Fixed upstream (fix: commits in /repo); regressions of these four paths are plain violations:
#  mle(sparse, prior=ndarray) -> numpy.matrix; transpose counts truncated for int lil/dok;
#  transpose on blocky bsr (C_sym.sum()).


# ----------------------------------------------------------------------------- translator

def builders_site_facts(repo_dir):
    with open(os.path.join(repo_dir, 'enspara', 'msm', 'builders.py')) as f:
        tree = ast.parse(f.read())
    for node in ast.walk(tree):
        if isinstance(node, ast.FunctionDef) and node.name == '_apply_prior_counts':
            src = ast.unparse(node)
            # a conversion of numpy.matrix results back to ndarray anywhere in the function
            to_arr = False
            for sub in ast.walk(node):
                if isinstance(sub, ast.Call) and isinstance(sub.func, ast.Name) and sub.func.id == 'isinstance' \
                        and len(sub.args) == 2 and ast.unparse(sub.args[1]) in ('np.matrix', 'numpy.matrix'):
                    to_arr = True
            facts = {'priorMatrixToArray': to_arr}
            break
    else:
        raise RuntimeError('_apply_prior_counts not found')
    for node in ast.walk(tree):
        if isinstance(node, ast.FunctionDef) and node.name == 'transpose':
            ret = [x for x in ast.walk(node) if isinstance(x, ast.Return)]
            if len(ret) != 1 or not isinstance(ret[0].value, ast.Tuple):
                raise RuntimeError('cannot read the return statement of transpose')
            first = ret[0].value.elts[0]
            # `C_sym / 2`  -> integer literal divisor; anything else (2.0, * 0.5, ...) -> not
            facts['transposeHalfIntLiteral'] = bool(
                isinstance(first, ast.BinOp) and isinstance(first.op, ast.Div)
                and isinstance(first.right, ast.Constant) and type(first.right.value) is int)
            facts['transpose_return'] = ast.unparse(first)
            # `C_sym.sum()` without arguments anywhere in transpose
            facts['transposeTotalSum'] = any(
                isinstance(x, ast.Call) and isinstance(x.func, ast.Attribute) and x.func.attr == 'sum'
                and isinstance(x.func.value, ast.Name) and x.func.value.id == 'C_sym'
                and not x.args and not x.keywords for x in ast.walk(node))
            return facts
    raise RuntimeError('transpose not found')


def translate(repo_dir, gen_dir):
    """never raises; the facts come from c12.site_info (behavioural probe, static cross-check)"""
    info12 = _c12.translate(repo_dir, gen_dir)
    facts = dict(_c12.SITE_DEFAULTS)
    facts.update(info12.get('all_facts') or {})
    text = '''/-! GENERATED by harness/props/c04.py:translate from enspara/msm/builders.py (behavioural probe
of the builders, static read as cross-check) — do not edit.
`priorMatrixToArray`: does `_apply_prior_counts` convert a `numpy.matrix` result (what scipy
returns for `sparse matrix + ndarray`) back to an `ndarray`?
`transposeHalfIntLiteral`: does `transpose` return `C_sym / 2` with the *integer* literal 2
(scipy lil/dok matrices of integer dtype then truncate)?
`transposeTotalSum`: does `transpose` call `C_sym.sum()` without an axis (scipy's bsr_matrix
with blocks larger than 1x1 raises ValueError there)? -/
namespace Ens.Generated.BuildersSite
def priorMatrixToArray : Bool := %s
def transposeHalfIntLiteral : Bool := %s
def transposeTotalSum : Bool := %s
end Ens.Generated.BuildersSite
''' % ('true' if facts['priorMatrixToArray'] else 'false',
       'true' if facts['transposeHalfIntLiteral'] else 'false',
       'true' if facts['transposeTotalSum'] else 'false')
    try:
        changed = _c12._write_if_changed(os.path.join(gen_dir, 'BuildersSite.lean'), text)
    except Exception:  # noqa
        changed = False
    return {'summary': 'BuildersSite: priorMatrixToArray=%s transposeHalfIntLiteral=%s transposeTotalSum=%s%s; %s' % (
        facts['priorMatrixToArray'], facts['transposeHalfIntLiteral'], facts['transposeTotalSum'],
        ' (rewritten)' if changed else '', info12['summary']),
        'facts': facts, 'static_agrees': info12.get('static_agrees'), 'source': info12.get('source')}


# ----------------------------------------------------------------------------- helpers

def frac(x):
    f = Fraction(x)
    return [f.numerator, f.denominator]


def rat_rows(M):
    return [[frac(x) for x in row] for row in np.asarray(M).tolist()]


def unrat(rows):
    return np.array([[n / d for n, d in row] for row in rows], dtype=float).reshape(len(rows), -1)


def container_name(obj):
    import scipy.sparse as sp
    if sp.issparse(obj):
        return type(obj).__name__          # csr_matrix, ... (csr_array would show up as such)
    if isinstance(obj, np.matrix):
        return 'matrix'
    if isinstance(obj, np.ndarray):
        return 'ndarray'
    return type(obj).__name__


def to_dense(obj):
    import scipy.sparse as sp
    if sp.issparse(obj):
        return np.asarray(obj.toarray())
    return np.asarray(obj)


_PREBUILT = {}        # dense bytes -> the coo_matrix the real assigns_to_counts returned for it


def base_cont(cont):
    """scipy/numpy type name of a container variant ('coo_matrix+dups' -> 'coo_matrix')"""
    return cont.split('+')[0]


def make_container(C, cont):
    """variants: '<fmt>_matrix+dups' holds un-summed repeated (row, col) entries,
    'coo_matrix+assigns' is a copy of what assigns_to_counts returned for this count matrix"""
    import scipy.sparse as sp
    if cont == 'ndarray':
        return C.copy()
    if cont.endswith('+assigns'):
        pre = _PREBUILT.get(np.asarray(C, dtype=float).tobytes())
        if pre is not None:
            return pre.copy()
        return _c12.sparse_with_duplicates(C, 'coo')
    if cont.endswith('+dups'):
        return _c12.sparse_with_duplicates(C, base_cont(cont)[:3])
    return getattr(sp, cont)(C)


def snapshot(obj):
    import scipy.sparse as sp
    if sp.issparse(obj):
        d = obj.copy().toarray()
        return (type(obj).__name__, str(obj.dtype), obj.shape, d.tobytes(), obj.nnz)
    a = np.asarray(obj)
    return (type(obj).__name__, str(a.dtype), a.shape, a.tobytes())


def gen_counts(rng, n, kind):
    """non-negative counts with positive row sums, strongly connected"""
    if n == 1:
        return np.array([[float(rng.integers(1, 9))]])
    if kind == 'real':
        C = _c12.gen_matrix(rng, n, 'int-sparse') + rng.integers(0, 4, size=(n, n)) * 0.25
        C = C * (C >= 1)
        if not _c12.strongly_connected(C):
            C = _c12.gen_matrix(rng, n, 'int-sparse')
        return C
    return _c12.gen_matrix(rng, n, kind)


def bsr_blocky(C, cont):
    """scipy's bsr `sum()` without axis views the 3-D block data as numpy.matrix, which fails
    exactly when more than two of its dimensions exceed 1: several blocks of a size other than
    1xk / kx1 in the symmetrised matrix"""
    if cont != 'bsr_matrix':
        return False
    A = make_container(C.astype(np.int64) if np.all(C == np.round(C)) else C, cont)
    S = A + A.T
    return hasattr(S, 'data') and sum(1 for d in np.shape(S.data) if d > 1) > 2


def containers_request(builder, C, cont, prior, calc):
    return {'op': 'C04.containers', 'n': len(C), 'builder': builder, 'container': base_cont(cont),
            'prior': prior_kind(prior), 'calc': bool(calc), 'bsr_blocky': bsr_blocky(C, cont)}


def int_dtype_after_prior(C, prior):
    """dtype of `C + prior_counts` is integer (the harness passes integer-valued C as int64)"""
    return bool(np.all(C == np.round(C))) and (prior is None or isinstance(prior, (int, np.integer)))


def model_request(builder, C, prior, calc, cont='ndarray'):
    n = len(C)
    if builder == 'mle':
        p = None if prior is None else (
            _c12.mat_bits(prior) if isinstance(prior, np.ndarray) else _c12.bits(prior))
        return {'op': 'C04.mle', 'n': n, 'C': _c12.mat_bits(C), 'prior': p, 'calc': bool(calc),
                'prior_kind': prior_kind(prior),
                'tol': _c12.bits(1e-10), 'max_iter': 10 ** 5}
    p = None if prior is None else (rat_rows(prior) if isinstance(prior, np.ndarray) else frac(prior))
    return {'op': 'C04.' + builder, 'n': n, 'C': rat_rows(C), 'prior': p, 'calc': bool(calc),
            'prior_kind': prior_kind(prior), 'container': base_cont(cont),
            'int_dtype': int_dtype_after_prior(C, prior), 'bsr_blocky': bsr_blocky(C, cont)}


def model_values(builder, resp):
    if 'error' in resp:
        return {'error': resp['error']}
    o = resp['ok']
    if builder == 'mle':
        C = _c12.mat_unbits(o['C'])
        T = _c12.mat_unbits(o['T'])
        pi = None if o['pi'] is None else np.array([_c12.unbits(b) for b in o['pi']])
    else:
        C = unrat(o['C'])
        T = unrat(o['T'])
        pi = None if o['pi'] is None else np.array([a / b for a, b in o['pi']])
    return {'C': C, 'T': T, 'pi': pi}


def prior_kind(prior):
    return 'none' if prior is None else ('dense' if isinstance(prior, np.ndarray) else 'scalar')


def check_call(ctx, C, builder, cont, prior, calc, mvals, mcont, dense_ref, zero_row=False):
    """one real call with every check.  Returns the dense (T, pi) of the real call or None."""
    from enspara.msm import builders
    import scipy.sparse as sp
    n = len(C)
    arg = make_container(C.astype(np.int64) if np.all(C == np.round(C)) else C, cont)
    pk = prior_kind(prior)
    parg = prior.copy() if isinstance(prior, np.ndarray) else prior
    rep = {'C': np.asarray(C).tolist(), 'builder': builder, 'container': cont,
           'prior': (prior.tolist() if isinstance(prior, np.ndarray) else prior), 'calc': bool(calc),
           'zero_row': bool(zero_row)}
    trivial = bool(np.allclose(C.sum(axis=1), 1))
    ctx.case(rep, nontrivial=not trivial,
             tags=['builder=' + builder, 'container=' + cont, 'prior=' + pk,
                   'eq_probs' if calc else 'no_eq_probs', 'n=%d' % n] + (['zero-row'] if zero_row else []))
    snap_c, snap_p = snapshot(arg), (snapshot(parg) if isinstance(parg, np.ndarray) else None)
    f = getattr(builders, builder)
    try:
        with warnings.catch_warnings():
            warnings.simplefilter('ignore')
            Co, To, pio = f(arg, prior_counts=parg, calculate_eq_probs=calc)
    except Exception as e:  # noqa
        site = _c12._assert_site(e) if isinstance(e, AssertionError) else ''
        ctx.violation('builders.%s(%s, prior=%s, calculate_eq_probs=%s) raised %s: %s'
                      % (builder, cont, pk, calc, type(e).__name__, site or str(e)[:120]), rep)
        if 'error' not in mcont and not (isinstance(e, AssertionError) and mvals.get('error') == 'assertion'):
            ctx.disagreement('container model says the call returns %s but it raised %s'
                             % (mcont.get('ok'), type(e).__name__), rep)
        return None
    # ---- caller's objects unchanged
    if snapshot(arg) != snap_c:
        ctx.violation('builders.%s modified the caller\'s count matrix (%s)' % (builder, cont), rep)
    if snap_p is not None and snapshot(parg) != snap_p:
        ctx.violation('builders.%s modified the caller\'s prior matrix' % builder, rep)
    # ---- containers
    cC, cT = container_name(Co), container_name(To)
    sparse_in = cont != 'ndarray'
    cont_name = base_cont(cont)
    dense_names = ('ndarray', 'matrix')
    ok_cont = (cC == cont_name and cT == cont_name) or \
              (sparse_in and pk != 'none' and cC in dense_names and cT in dense_names)
    if not ok_cont:
        ctx.violation('builders.%s: input container %s, prior %s -> returned containers (%s, %s)'
                      % (builder, cont, pk, cC, cT), rep)
    if 'error' in mcont:
        ctx.disagreement('container model predicts an error but builders.%s returned (%s, %s)'
                         % (builder, cC, cT), rep)
    elif mcont['ok'] != [cC, cT]:
        ctx.disagreement('container model %s vs real (%s, %s)' % (mcont['ok'], cC, cT), rep)
    # ---- shape / flag handling
    Cd, Td = to_dense(Co).astype(float), to_dense(To).astype(float)
    if Cd.shape != (n, n) or Td.shape != (n, n):
        ctx.violation('builders.%s: output shapes %s %s' % (builder, Cd.shape, Td.shape), rep)
        return None
    if calc:
        if pio is None or isinstance(pio, np.matrix) or np.asarray(pio).shape != (n,):
            ctx.violation('builders.%s: populations are not a vector of length n: %s %r'
                          % (builder, type(pio).__name__, None if pio is None else np.asarray(pio).shape),
                          rep)
            return None
        pi = np.asarray(pio, dtype=float)
        if np.iscomplexobj(pio):
            ctx.violation('builders.%s: complex populations' % builder, rep)
            return None
    else:
        if pio is not None:
            ctx.violation('builders.%s: calculate_eq_probs=False returned populations' % builder, rep)
        pi = None
    # ---- the property's words, directly on the real output
    Cp = C + (0 if prior is None else prior)          # prior counts are added first
    base = Cp + Cp.T if builder == 'transpose' else Cp
    rs = base.sum(axis=1)
    if not np.all(np.isfinite(Td)) or np.any(Td < 0):
        ctx.violation('builders.%s: T has negative or non-finite entries' % builder, rep)
        return None
    for i in range(n):
        if rs[i] > 0 and abs(Td[i].sum() - 1) > TOL:
            ctx.violation('builders.%s: row %d of T sums to %.17g' % (builder, i, Td[i].sum()), rep)
            return None
        if rs[i] == 0 and np.any(Td[i] != 0):
            ctx.violation('builders.%s: zero row %d of the counts is not zero in T' % (builder, i), rep)
            return None
    if builder in ('normalize', 'transpose'):
        with np.errstate(divide='ignore', invalid='ignore'):
            expect = np.where(rs[:, None] > 0, base / rs[:, None], 0.0)
        if np.max(np.abs(Td - expect)) > TOL:
            ctx.violation('builders.%s: T differs from counts / row totals (prior added first)' % builder, rep)
            return None
        expC = base / 2 if builder == 'transpose' else Cp
        if np.max(np.abs(Cd - expC)) > TOL * (1 + np.max(np.abs(expC))):
            trunc = builder == 'transpose' and cC in ('lil_matrix', 'dok_matrix') and \
                np.issubdtype(Co.dtype, np.integer) and np.array_equal(Cd, np.floor(expC))
            ctx.violation('builders.%s: returned counts differ from %s%s' % (
                builder, '(C+prior + its transpose)/2' if builder == 'transpose' else 'C + prior',
                ' (integer-truncated by scipy %s true division)' % cC if trunc else ''), rep)
    else:
        if np.max(np.abs(Cd - Cp)) > TOL * (1 + np.max(np.abs(Cp))):
            ctx.violation('builders.mle: returned counts differ from C + prior', rep)
    if pi is not None:
        if not np.all(np.isfinite(pi)) or np.any(pi < -1e-12) or abs(pi.sum() - 1) > TOL:
            ctx.violation('builders.%s: populations are not a probability vector (sum %.17g, min %.3g)'
                          % (builder, pi.sum(), pi.min()), rep)
            return None
        if not zero_row and np.max(np.abs(pi @ Td - pi)) > TOL:
            ctx.violation('builders.%s: populations are not stationary under T (residual %.3g)'
                          % (builder, np.max(np.abs(pi @ Td - pi))), rep)
        if builder in ('transpose', 'mle'):
            F = pi[:, None] * Td
            if np.max(np.abs(F - F.T)) > TOL:
                ctx.violation('builders.%s: detailed balance violated (%.3g)'
                              % (builder, np.max(np.abs(F - F.T))), rep)
    # ---- against the Lean model
    tol = TOL_MLE if builder == 'mle' else TOL
    if 'error' in mvals:
        if not (builder == 'normalize' and mvals['error'] == 'no-stationary' and zero_row):
            ctx.disagreement('model %s returned %s but the implementation returned' % (builder, mvals['error']), rep)
    else:
        dT = np.max(np.abs(Td - mvals['T']))
        dC = np.max(np.abs(Cd - mvals['C'])) / (1 + np.max(np.abs(mvals['C'])))
        if dT > tol or dC > tol:
            ctx.disagreement('model %s: T differs by %.3g, counts by %.3g' % (builder, dT, dC), rep)
        if (pi is None) != (mvals['pi'] is None):
            ctx.disagreement('model %s: populations present/absent mismatch' % builder, rep)
        elif pi is not None:
            dp = np.max(np.abs(pi - mvals['pi']))
            if dp > tol:
                if builder == 'normalize' and dp < 1e-6 and np.max(np.abs(pi @ Td - pi)) <= TOL:
                    ctx.skip('eigen-solver accuracy: populations within 1e-6 of the exact vector and stationary to 1e-9')
                else:
                    ctx.disagreement('model %s: populations differ by %.3g' % (builder, dp), rep)
    # ---- same numbers for dense input and every sparse format
    if dense_ref is not None:
        Tr, pr = dense_ref
        if np.max(np.abs(Tr - Td)) > (TOL_MLE if builder == 'mle' else TOL) or \
                (pi is not None and pr is not None and np.max(np.abs(pr - pi)) > (TOL_MLE if builder == 'mle' else TOL)):
            ctx.violation('builders.%s: %s input gives different numbers than ndarray input' % (builder, cont), rep)
    return (Td, pi)


# ----------------------------------------------------------------------------- large sparse family
# `eigenspectrum` switches code path on the size: sparse input with < 1000 states is densified and
# goes through LAPACK, >= 1000 states go through ARPACK (`eigs(..., which="LR")`, random start
# vector).  The family straddles that threshold and uses periodic chains, whose spectrum has
# other eigenvalues of modulus 1 (roots of unity) next to the Perron root.
LARGE_SIZES = [999, 1000, 1001, 1024, 1500, 2048]
LARGE_KINDS = ['periodic-2', 'periodic-3', 'periodic-4', 'periodic-6', 'near-periodic-3',
               'near-periodic-2', 'metastable-blocks', 'aperiodic-random']
TOL_LARGE_STAT = 1e-8       # max |pi T - pi|, |sum pi - 1|; ARPACK runs with tol=1e-30 (machine precision)
TOL_LARGE_PI = 1e-6         # against the direct sparse solve


def gen_large_counts(gseed, n, kind):
    """strongly connected integer counts (csr) with ~4 non-zeros per row.
    periodic-k: states in k groups visited in fixed order (period k), every state has an incoming
    count from the previous group, random extra targets give a healthy spectral gap;
    near-periodic-k: the same plus a few rare self/backward counts (aperiodic, eigenvalues close to
    the roots of unity); metastable-blocks: 4 blocks, heavy counts inside, rare counts between;
    aperiodic-random: random sparse plus a ring plus self counts."""
    import scipy.sparse as sp
    rng = np.random.default_rng(gseed)
    for attempt in range(50):
        rows, cols, dat = [], [], []

        def add(i, j, c):
            rows.append(int(i)); cols.append(int(j)); dat.append(int(c))
        if kind.startswith('periodic') or kind.startswith('near-periodic'):
            k = int(kind.split('-')[-1])
            g = np.arange(n) % k
            members = [np.flatnonzero(g == a) for a in range(k)]
            for a in range(k):
                src, dst = members[a], members[(a + 1) % k]
                for j in dst:                              # every state is entered from the previous group
                    add(rng.choice(src), j, rng.integers(1, 10))
                for i in src:                              # and leaves to 3 random states of the next one
                    for j in rng.choice(dst, size=3, replace=False):
                        add(i, j, rng.integers(1, 10))
            if kind.startswith('near'):
                for i in rng.choice(n, size=max(3, n // 100), replace=False):
                    add(i, i if rng.random() < 0.5 else rng.integers(0, n), 1)
        elif kind == 'metastable-blocks':
            b = np.arange(n) * 4 // n
            members = [np.flatnonzero(b == a) for a in range(4)]
            for a in range(4):
                for i in members[a]:
                    add(i, i, rng.integers(5, 30))
                    for j in rng.choice(members[a], size=3, replace=False):
                        add(i, j, rng.integers(5, 30))
                for _ in range(6):                         # rare exchanges between neighbouring blocks
                    add(rng.choice(members[a]), rng.choice(members[(a + 1) % 4]), 1)
                    add(rng.choice(members[(a + 1) % 4]), rng.choice(members[a]), 1)
                pm = rng.permutation(members[a])           # a ring inside the block keeps it strongly connected
                for t in range(len(pm)):
                    add(pm[t], pm[(t + 1) % len(pm)], rng.integers(5, 30))
        elif kind == 'aperiodic-random':
            for i in range(n):
                add(i, (i + 1) % n, rng.integers(1, 10))
                add(i, i, rng.integers(1, 10))
                for j in rng.integers(0, n, size=2):
                    add(i, j, rng.integers(1, 20))
        else:
            raise ValueError(kind)
        C = sp.coo_matrix((np.array(dat, dtype=np.int64), (rows, cols)), shape=(n, n)).tocsr()
        C.sum_duplicates()
        from scipy.sparse.csgraph import connected_components
        ncomp, _ = connected_components(C, directed=True, connection='strong')
        if ncomp == 1 and np.all(np.asarray(C.sum(axis=1)).ravel() > 0):
            return C
    raise RuntimeError('no strongly connected %s matrix with %d states' % (kind, n))


def stationary_direct(Tcsr):
    """oracle: solve pi (T - I) = 0, sum pi = 1 by sparse LU; returns (pi, own residual)"""
    import scipy.sparse as sp
    import scipy.sparse.linalg as spl
    n = Tcsr.shape[0]
    A = (Tcsr.T - sp.identity(n, format='csr')).tolil()
    A[n - 1, :] = 1.0
    b = np.zeros(n)
    b[n - 1] = 1.0
    with warnings.catch_warnings():
        warnings.simplefilter('ignore')
        pi = spl.spsolve(A.tocsc(), b)
    res = max(float(np.max(np.abs(Tcsr.T @ pi - pi))), abs(float(pi.sum()) - 1))
    return pi, res


def check_large(ctx, gseed, n, kind, cont, calls, with_dense=False):
    """normalize (repeated calls: ARPACK starts from a random vector) and transpose on one large matrix"""
    from enspara.msm import builders
    import scipy.sparse as sp
    C = gen_large_counts(gseed, n, kind)
    rep = {'family': 'large-sparse', 'gseed': int(gseed), 'n': int(n), 'kind': kind, 'container': cont,
           'calls': int(calls)}
    rs = np.asarray(C.sum(axis=1)).ravel().astype(float)
    Texp = sp.diags(1.0 / rs) @ C.astype(float)
    Texp = Texp.tocsr()
    pi0, ores = stationary_direct(Texp)
    if not (ores <= 1e-11 and np.all(pi0 > 0)):
        ctx.skip('large-sparse: the direct-solve oracle does not certify itself (residual %.1e)' % ores)
        return
    arg0 = getattr(sp, cont)(C) if cont != 'ndarray' else C.toarray()
    path = 'dense-eig(<1000 or ndarray)' if (n < 1000 or cont == 'ndarray') else 'arpack(>=1000 sparse)'

    def snap(a):
        d = a.copy().toarray() if sp.issparse(a) else np.asarray(a)
        return (type(a).__name__, str(a.dtype), a.shape, d.tobytes())

    for call in range(calls):
        arg = arg0.copy()
        before = snap(arg)
        ctx.case(dict(rep, call=call, builder='normalize'), nontrivial=True,
                 tags=['large-sparse', 'large:kind=' + kind, 'large:n=%d' % n, 'large:container=' + cont,
                       'large:path=' + path])
        try:
            with warnings.catch_warnings():
                warnings.simplefilter('ignore')
                Co, T, pi = builders.normalize(arg, calculate_eq_probs=True)
        except Exception as e:  # noqa
            ctx.violation('builders.normalize(%s, n=%d, %s chain, calculate_eq_probs=True) raised %s: %s'
                          % (cont, n, kind, type(e).__name__, str(e)[:120]), rep)
            return
        if snap(arg) != before:
            ctx.violation('builders.normalize modified the caller\'s matrix (%s, n=%d)' % (cont, n), rep)
        if container_name(T) != cont or container_name(Co) != cont:
            ctx.violation('builders.normalize: input container %s (n=%d) -> returned (%s, %s)'
                          % (cont, n, container_name(Co), container_name(T)), rep)
        Tc = sp.csr_matrix(T) if sp.issparse(T) else sp.csr_matrix(np.asarray(T))
        if abs(Tc - Texp).max() > 1e-12:
            ctx.violation('builders.normalize: T differs from counts / row totals (n=%d, %s)' % (n, cont), rep)
            return
        if np.max(np.abs(np.asarray(Tc.sum(axis=1)).ravel() - 1)) > 1e-9:
            ctx.violation('builders.normalize: rows of T do not sum to 1 (n=%d)' % n, rep)
            return
        if pi is None or isinstance(pi, np.matrix) or np.asarray(pi).shape != (n,) or np.iscomplexobj(pi):
            ctx.violation('builders.normalize: populations are not a real vector of length n (n=%d, %s)'
                          % (n, cont), rep)
            return
        pi = np.asarray(pi, dtype=float)
        resid = float(np.max(np.abs(Tc.T @ pi - pi))) if np.all(np.isfinite(pi)) else float('inf')
        if not np.all(np.isfinite(pi)) or abs(pi.sum() - 1) > TOL_LARGE_STAT or pi.min() < -1e-10 \
                or resid > TOL_LARGE_STAT:
            ctx.violation('builders.normalize(%s, n=%d, %s chain), call %d of %d on the same matrix: populations are '
                          'not a stationary probability vector of the returned T (max|pi T - pi| = %.3g, sum = %.6g, '
                          'min = %.3g); code path %s'
                          % (cont, n, kind, call + 1, calls, resid, pi.sum(), pi.min(), path), rep)
            return
        if np.max(np.abs(pi - pi0)) > TOL_LARGE_PI:
            ctx.violation('builders.normalize(%s, n=%d, %s chain): populations differ from the direct solve by %.3g'
                          % (cont, n, kind, np.max(np.abs(pi - pi0))), rep)
            return
    if with_dense and cont != 'ndarray':
        # the numbers are the same for dense input (LAPACK path) and the sparse container
        try:
            with warnings.catch_warnings():
                warnings.simplefilter('ignore')
                _, Td, pid = builders.normalize(C.toarray(), calculate_eq_probs=True)
            ctx.tag('large:dense-vs-sparse')
            if np.max(np.abs(np.asarray(pid) - pi0)) > TOL_LARGE_PI or abs(sp.csr_matrix(Td) - Texp).max() > 1e-12:
                ctx.violation('builders.normalize: ndarray input (n=%d, %s) gives different numbers than the sparse '
                              'input / the direct solve' % (n, kind), dict(rep, container='ndarray'))
        except Exception as e:  # noqa
            ctx.violation('builders.normalize(ndarray, n=%d) raised %s' % (n, type(e).__name__),
                          dict(rep, container='ndarray'))
    # transpose once: populations from the symmetrised row sums
    if cont != 'ndarray':
        arg = arg0.copy()
        before = snap(arg)
        ctx.case(dict(rep, builder='transpose'), nontrivial=True, tags=['large-sparse', 'large:transpose'])
        try:
            with warnings.catch_warnings():
                warnings.simplefilter('ignore')
                Co, T, pi = builders.transpose(arg, calculate_eq_probs=True)
        except Exception as e:  # noqa
            ctx.violation('builders.transpose(%s, n=%d) raised %s: %s' % (cont, n, type(e).__name__, str(e)[:100]), rep)
            return
        if snap(arg) != before:
            ctx.violation('builders.transpose modified the caller\'s matrix (%s, n=%d)' % (cont, n), rep)
        if container_name(T) != cont or container_name(Co) != cont:
            ctx.violation('builders.transpose: input container %s (n=%d) -> returned (%s, %s)'
                          % (cont, n, container_name(Co), container_name(T)), rep)
        S = (C + C.T).astype(float).tocsr()
        srs = np.asarray(S.sum(axis=1)).ravel()
        Ts = (sp.diags(1.0 / srs) @ S).tocsr()
        Tc = sp.csr_matrix(T)
        pi = np.asarray(pi, dtype=float)
        F = sp.diags(pi) @ Tc
        if abs(Tc - Ts).max() > 1e-12 or abs(sp.csr_matrix(Co) - S / 2.0).max() > 1e-9 or pi.shape != (n,) \
                or abs(pi.sum() - 1) > 1e-9 or pi.min() < 0 or np.max(np.abs(Tc.T @ pi - pi)) > 1e-9 \
                or abs(F - F.T).max() > 1e-12:
            ctx.violation('builders.transpose(%s, n=%d): T / counts / populations / detailed balance wrong' % (cont, n), rep)


def large_sparse_family(ctx):
    conts = ['csr_matrix', 'csc_matrix', 'coo_matrix', 'lil_matrix', 'dok_matrix', 'bsr_matrix']
    plan = []
    # threshold straddle with the same periodic structure
    for k, n in enumerate([999, 1000, 1001]):
        plan.append((n, 'periodic-%d' % [3, 2, 4][k], conts[k], 1 if n < 1000 else 5, n == 1000))
    sizes = [1024, 1500, 2048, 1000, 1001]
    kinds = ['periodic-2', 'periodic-3', 'periodic-4', 'periodic-6', 'near-periodic-3', 'near-periodic-2',
             'metastable-blocks', 'aperiodic-random']
    reps = ctx.n(1, 4)
    i = 0
    for r in range(reps):
        for kind in kinds:
            n = sizes[i % len(sizes)]
            cont = conts[(i + r) % len(conts)]
            calls = 5 if kind.startswith('periodic') else 2
            plan.append((n, kind, cont, calls, False))
            i += 1
    # LAPACK's dense `eig` (the < 1000-state path) is several times slower with a multi-threaded BLAS on a
    # busy machine than with one thread
    from threadpoolctl import threadpool_limits
    with threadpool_limits(limits=1):
        for n, kind, cont, calls, with_dense in plan:
            gseed = int(ctx.rng.integers(0, 2 ** 31))
            check_large(ctx, gseed, n, kind, cont, calls, with_dense=with_dense)
            if sum(1 for v in ctx.violations if v.get('key') is None) >= 12:
                break


def scipy_table(ctx):
    """re-measure the scipy container facts the decision table assumes"""
    import scipy.sparse as sp
    C = np.array([[3, 1, 0], [2, 0, 4], [1, 2, 5]])
    reqs = [{'op': 'C04.scipy_table', 'container': c} for c in CONTAINERS]
    resp = ctx.driver(reqs)
    bad = 0
    for c, r in zip(CONTAINERS, resp):
        A = make_container(C, c)
        try:
            ps = container_name(A + 1)
        except NotImplementedError:
            ps = 'ndarray'      # the handler's `np.array(C.todense()) + prior`
        real = {'sym': container_name(A + A.T), 'plus_scalar': ps,
                'plus_dense': container_name(A + np.ones((3, 3)))}
        half = container_name((A + A.T) / 2)
        ctx.tag('scipy-table')
        if r['ok'] != real or half != real['sym']:
            bad += 1
            ctx.disagreement('scipy container table differs from the model', {'container': c, 'model': r['ok'],
                                                                             'real': real, 'half': half})
        if sp.issparse(A) and not sp.isspmatrix(A):
            ctx.disagreement('isspmatrix false for a sparse matrix', {'container': c})
    ctx.note('scipy_table_mismatches', bad)


def run_matrix(ctx, C, priors, conts, zero_row=False, builders_=BUILDERS, calcs=(True, False)):
    n = len(C)
    combos = []
    for b in builders_:
        for prior in priors:
            for calc in calcs:
                combos.append((b, prior, calc))
    reqs, creqs = [], []
    for b, prior, calc in combos:
        for cont in conts:
            # values depend on the container only through scipy's `C_sym / 2` (transpose)
            reqs.append(model_request(b, C, prior, calc, cont if b == 'transpose' else 'ndarray'))
            creqs.append(containers_request(b, C, cont, prior, calc))
    resp = ctx.driver(reqs + creqs)
    mresp, cresp = resp[:len(reqs)], resp[len(reqs):]
    k = 0
    for (b, prior, calc) in combos:
        dense_ref = None
        for cont in conts:
            mvals = model_values(b, mresp[k])
            mcont = cresp[k]
            k += 1
            if sum(1 for v in ctx.violations if v.get('key') is None) >= 60:
                ctx.note('stopped_early', True)      # enough failing inputs on record
                return
            out = check_call(ctx, C, b, cont, prior, calc, mvals, mcont, dense_ref, zero_row=zero_row)
            if cont == 'ndarray' and out is not None:
                dense_ref = out
    # prior counts are added before estimation: builder(C, prior) == builder(C + prior, None)
    from enspara.msm import builders
    for b in builders_:
        for prior in priors:
            if prior is None:
                continue
            try:
                with warnings.catch_warnings():
                    warnings.simplefilter('ignore')
                    a = getattr(builders, b)(C.copy(), prior_counts=prior, calculate_eq_probs=True)
                    bb = getattr(builders, b)(C + prior, calculate_eq_probs=True)
            except Exception:  # noqa  (reported by check_call)
                continue
            ctx.tag('prior-first')
            for x, y, nm in zip(a, bb, ('counts', 'T', 'populations')):
                if x is None or y is None:
                    continue
                if np.max(np.abs(to_dense(x) - to_dense(y))) > 1e-12 * (1 + np.max(np.abs(to_dense(y)))):
                    ctx.violation('builders.%s(C, prior) differs from builders.%s(C + prior) in %s' % (b, b, nm),
                                  {'C': C.tolist(), 'builder': b, 'container': 'ndarray',
                                   'prior': (prior.tolist() if isinstance(prior, np.ndarray) else prior),
                                   'calc': True, 'zero_row': False})


def run(ctx):
    scipy_table(ctx)
    large_sparse_family(ctx)
    from enspara.msm import builders as _b
    gen_site = ctx.driver([{'op': 'C04.site'}])[0]['ok']
    ctx.note('builders_site', _c12.check_site_facts(
        ctx, _b, gen_site, ('priorMatrixToArray', 'transposeHalfIntLiteral', 'transposeTotalSum')))
    nmat = ctx.n(36, 300)
    kinds = ['int-dense', 'int-sparse', 'zero-diag', 'asym', 'metastable', 'symmetric', 'real']
    for t in range(nmat):
        n = [2, 3, 4, 5, 6, 7, 8, 1][t % 8] if t >= 2 else (1 if t == 0 else 2)
        kind = kinds[t % len(kinds)]
        C = gen_counts(ctx.rng, n, kind)
        if n == 1 and t == 0:
            # a single state: mle's Prinz loop is trivial; strongly connected by its self count
            pass
        priors = [None, 1 if t % 3 else 0.5, ctx.rng.integers(0, 4, size=(n, n)).astype(float)]
        if n == 1:
            # `_prinz_mle_py` asserts C_rs > 0 only; a 1x1 matrix is fine for all builders
            pass
        if ctx.thorough or t < 6:
            conts = CONTAINERS
        else:
            # rotate formats so that every (builder, format, prior, flag) appears in the quick tier
            conts = ['ndarray'] + [FORMATS[(t + s) % 7] + '_matrix' for s in range(3)]
        run_matrix(ctx, C, priors, conts)
    # structured matrices (see C12): >= 2 pendant states on a hub / chain / heavy core, states with only
    # self counts plus one partner, nearly closed pairs - the places where the Prinz updates degenerate
    k = 0
    for shape in _c12.STRUCT_SHAPES:
        for t in range(ctx.n(1, 10)):
            n = 3 + (k % 6)
            k += 1
            C = _c12.gen_structured(ctx.rng, n, shape, real=False)
            ctx.tag('structured=' + shape)
            run_matrix(ctx, C, [None, 1], ['ndarray', FORMATS[k % 7] + '_matrix'])
    for Cs in ([[0, 2, 0], [1, 3, 4], [0, 1, 0]], [[0, 3, 0, 0], [2, 0, 5, 0], [0, 1, 4, 2], [0, 0, 6, 0]]):
        ctx.tag('structured=hand')
        run_matrix(ctx, np.array(Cs, dtype=float), [None], ['ndarray', 'csr_matrix', 'lil_matrix'])
    # sparse inputs with UN-SUMMED repeated (row, col) entries (coo from a transition list, csr/csc with
    # has_canonical_format False) and the coo_matrix the real assigns_to_counts returns; all builders
    dup_conts = ['ndarray', 'coo_matrix+dups', 'csr_matrix+dups', 'csc_matrix+dups']
    for t in range(ctx.n(4, 40)):
        n = 2 + (t % 6)
        C = gen_counts(ctx.rng, n, ['int-sparse', 'int-dense', 'zero-diag', 'real'][t % 4])
        ctx.tag('duplicate-entries')
        run_matrix(ctx, C, [None, 1, ctx.rng.integers(0, 3, size=(n, n)).astype(float)], dup_conts)
    for t in range(ctx.n(3, 30)):
        A, C = _c12.counts_from_assignments(ctx.rng, 2 + (t % 5))
        C = C.astype(float)
        _PREBUILT[C.tobytes()] = A
        ctx.tag('assigns_to_counts-output')
        run_matrix(ctx, C, [None, 1], ['ndarray', 'coo_matrix+assigns'])
    # zero rows: the guard in _row_normalize (normalize only, no populations)
    for t in range(ctx.n(4, 30)):
        n = int(ctx.rng.integers(2, 7))
        C = ctx.rng.integers(0, 9, size=(n, n)).astype(float)
        z = int(ctx.rng.integers(0, n))
        C[z, :] = 0
        if t % 2:
            C[:, z] = 0
        run_matrix(ctx, C, [None], ['ndarray', 'csr_matrix', FORMATS[t % 7] + '_matrix'], zero_row=True,
                   builders_=['normalize'] + (['transpose'] if t % 2 else []), calcs=(False,))


def replay(ctx, data):
    if data.get('family') == 'large-sparse':
        check_large(ctx, data['gseed'], data['n'], data['kind'], data['container'], data.get('calls', 5))
        return
    if 'builder' not in data:
        scipy_table(ctx)
        return
    C = np.array(data['C'], dtype=float)
    prior = data['prior']
    if isinstance(prior, list):
        prior = np.array(prior, dtype=float)
    b, cont, calc = data['builder'], data['container'], data['calc']
    resp = ctx.driver([model_request(b, C, prior, calc, cont if b == 'transpose' else 'ndarray'),
                       containers_request(b, C, cont, prior, calc)])
    check_call(ctx, C, b, cont, prior, calc, model_values(b, resp[0]), resp[1], None,
               zero_row=data.get('zero_row', False))
