"""C19 - results depend on arguments only, not on history, threads or heap contents.

Three parts:
  translate()  source -> lean/Model/Generated/UfuncSites.lean (masked-ufunc sites, np.empty
               allocation sites of every module, accumulating buffers of every .pyx kernel);
               Props/C19.lean `decide`s the obligations over the regenerated tables.
  run()        (1) Lean model vs real code for the masked ufunc / libdist / libinfo mechanisms,
               (2) the main detector: every routine of the API table x argument sets x
               perturbations (repeat, OpenMP team size, heap history, MALLOC_PERTURB_ subprocess,
               worker counts) must return bit-identical results, and argument snapshots must be
               unchanged unless the routine is documented to work in place.
  replay()     one recorded (routine, argument set) through all perturbations again.
"""
import ast
import hashlib
import json
import math
import os
import re
import subprocess
import sys
import warnings
from fractions import Fraction

import numpy as np

RULE = ('API table of numerical routines (info_theory, msm, tpt, cluster, libdist, libinfo, RaggedArray) x '
        'seeded argument sets (always including the masks\' edge cases: zeros in p, empty joint-count blocks, '
        'zero rows, empty/length-1 inputs, every container kind) x perturbations {repeat, OpenMP threads '
        '1/2/7/16, freed NaN/inf/1.0 buffers of every small-cache size and 128..1024 doubles, poisoning '
        'allocator (numpy data-memory handler whose malloc fills each block with NaN/inf/1.0/0xAA), '
        'MALLOC_PERTURB_ 1/85/170 subprocess (thorough), worker counts, caller-supplied out buffers '
        'pre-filled with NaN/inf/7}; results compared bit for bit '
        '(dtype, shape, bytes); argument bytes snapshotted before/after; a case is non-trivial when the call '
        'returns a value (not an exception); distinct by (routine, canonical arguments)')
ASSUMPTIONS = [
    'numpy/scipy/LAPACK kernels are themselves deterministic for equal inputs and equal alignment class '
    '(measured: no difference over all perturbations on the unchanged tree)',
    'the heap histories tried (numpy small-block cache + glibc bins refilled with freed NaN/inf/1.0 blocks; '
    'MALLOC_PERTURB_) are a sample of all heap states, not all of them',
    'threadpoolctl limits the libgomp team the compiled kernels use (checked each run through threadpool_info)',
    'the generated site tables are extracted with Python ast (py) / line patterns (pyx); a masked ufunc reached '
    'through an alias other than the numpy module name or a from-import is not seen',
]
TRUSTED_EXTRA = [
    'C19 poisoning allocator: 60 lines of C (NEP 49 PyDataMem_Handler) compiled with gcc at first use; a defect '
    'there can only cause false alarms or missed perturbations, not a false proof',
    'C19 translator: ast walk for np.<ufunc>(..., where=...) calls and np.empty/empty_like/ndarray allocations; '
    'regular expressions for compound assignments in .pyx kernels',
]

ANCHOR_FILES = [
    'enspara/info_theory/entropy.py', 'enspara/info_theory/mutual_info.py', 'enspara/msm/builders.py',
    'enspara/msm/transition_matrices.py', 'enspara/tpt/core.py', 'enspara/tpt/tpt.py', 'enspara/tpt/path.py',
    'enspara/cluster/util.py', 'enspara/geometry/libdist.pyx', 'enspara/info_theory/libinfo.pyx',
    'enspara/ra/ra.py',
]
# kernels that have a Lean model in Model/Masked.lean: (file, function, buffer)
MODELLED_KERNELS = [
    ('enspara/geometry/libdist.pyx', '_hamming', 'out'),
    ('enspara/geometry/libdist.pyx', '_manhattan', 'out'),
    ('enspara/geometry/libdist.pyx', '_euclidean', 'out'),
    ('enspara/info_theory/libinfo.pyx', 'matrix_bincount2d', 'jc'),
]

_LAST_TRANSLATION = {}


# --------------------------------------------------------------------------------------
# translator
# --------------------------------------------------------------------------------------

def _lean_str(s):
    return '"' + s.replace('\\', '\\\\').replace('"', '\\"') + '"'


# callees that take a `where=` keyword and are provably NOT element-wise numpy/scipy ufuncs
# (PyTables node addressing).  numpy attributes that resolve to a non-ufunc callable (np.sum, np.mean, ...:
# reductions with an identity / initial value, no uninitialised output) are recognised by lookup.
NON_UFUNC_WHERE_CALLEES = {'get_node', 'create_carray', 'create_earray', 'create_array', 'create_vlarray',
                           'create_table', 'create_group', 'remove_node', 'list_nodes', 'walk_nodes',
                           'iter_nodes', 'copy_node', 'move_node', 'rename_node', 'get_node_attr',
                           'set_node_attr', 'walk_groups'}
# expressions that yield a buffer with defined content
_INIT_ALLOCS = {'zeros', 'ones', 'full', 'zeros_like', 'ones_like', 'full_like', 'array', 'copy', 'identity',
                'eye', 'arange', 'ascontiguousarray'}
_EMPTY_ALLOCS = ('empty', 'empty_like', 'ndarray')


def _all_numpy_ufunc_names():
    return {n for n in dir(np) if isinstance(getattr(np, n, None), np.ufunc)}


class _SiteVisitor(ast.NodeVisitor):
    """Collects masked ufunc calls and empty allocations of one module.  CONSERVATIVE: a call carrying
    `where=` (or a `**` splat on a callee that may be a ufunc) is a site unless the callee is provably not an
    element-wise ufunc; `out=` counts only when the expression is recognisably an initialised buffer."""

    def __init__(self, rel):
        self.rel = rel
        self.np_alias = set()       # names bound to the numpy module
        self.mod_alias = set()      # names bound to numpy/scipy (sub)modules whose attributes may be ufuncs
        self.ufunc_names = {}       # local name -> description, names bound to (possible) ufuncs
        self.stack = []
        self.nodes = []
        self.ufunc_sites = []
        self.other_where = []       # where= calls that are provably not ufuncs (information only)
        self.alloc_calls = []       # (node, func name, attr)

    # ---- bindings ----
    def visit_Import(self, node):
        for a in node.names:
            root = a.name.split('.')[0]
            if a.name == 'numpy':
                self.np_alias.add(a.asname or 'numpy')
            if root in ('numpy', 'scipy'):
                self.mod_alias.add(a.asname or root)

    def visit_ImportFrom(self, node):
        mod = node.module or ''
        root = mod.split('.')[0]
        if root not in ('numpy', 'scipy'):
            return
        for a in node.names:
            if a.name == '*':
                if mod == 'numpy':
                    for n in _all_numpy_ufunc_names():
                        self.ufunc_names.setdefault(n, 'numpy.' + n)
                else:
                    self.star_unknown = True
                continue
            local = a.asname or a.name
            if mod == 'numpy':
                obj = getattr(np, a.name, None)
                if isinstance(obj, np.ufunc):
                    self.ufunc_names[local] = a.name
                elif obj is None or not callable(obj) or isinstance(obj, type(np)):
                    self.mod_alias.add(local)           # a submodule (numpy.ma, ...)
                else:
                    self.ufunc_names.pop(local, None)
                    self.non_ufunc = getattr(self, 'non_ufunc', set()) | {local}
            else:
                # scipy: a submodule (special, ...) or a function that may be a ufunc (xlogy, ...)
                self.mod_alias.add(local)
                self.ufunc_names[local] = mod + '.' + a.name

    def _ufunc_valued(self, v):
        """description when the expression may evaluate to a ufunc: np.log, special.xlogy, getattr(np, ..)"""
        if isinstance(v, ast.Attribute) and isinstance(v.value, ast.Name) and v.value.id in self.np_alias:
            return v.attr if isinstance(getattr(np, v.attr, None), np.ufunc) else None
        if isinstance(v, ast.Attribute):
            base = v
            while isinstance(base, ast.Attribute):
                base = base.value
            if isinstance(base, ast.Name) and base.id in self.mod_alias and base.id not in self.np_alias:
                return ast.unparse(v)
            if (isinstance(base, ast.Name) and base.id in self.np_alias and isinstance(v.value, ast.Attribute)):
                return ast.unparse(v)                    # np.ma.log, np.add.reduce, ...
        if (isinstance(v, ast.Call) and isinstance(v.func, ast.Name) and v.func.id == 'getattr' and v.args
                and isinstance(v.args[0], ast.Name) and v.args[0].id in (self.np_alias | self.mod_alias)):
            return 'getattr(%s, ...)' % v.args[0].id
        if isinstance(v, ast.Name) and v.id in self.ufunc_names:
            return self.ufunc_names[v.id]
        return None

    def visit_Assign(self, node):
        d = self._ufunc_valued(node.value)
        for t in node.targets:
            if isinstance(t, ast.Name):
                if d:
                    self.ufunc_names[t.id] = d
        self.generic_visit(node)

    def _scoped(self, node):
        self.stack.append(node.name)
        self.nodes.append(node)
        self.generic_visit(node)
        self.nodes.pop()
        self.stack.pop()

    visit_FunctionDef = _scoped
    visit_AsyncFunctionDef = _scoped
    visit_ClassDef = _scoped

    # ---- helpers ----
    def _np_attr(self, f):
        """numpy attribute name the callee refers to, or None"""
        if isinstance(f, ast.Attribute) and isinstance(f.value, ast.Name) and f.value.id in self.np_alias:
            return f.attr
        if isinstance(f, ast.Name) and f.id in self.ufunc_names and '.' not in self.ufunc_names[f.id] \
                and not self.ufunc_names[f.id].startswith('getattr'):
            return self.ufunc_names[f.id]
        return None

    def _alloc_kind(self, v):
        """'init' / 'empty' / None for an expression"""
        if isinstance(v, ast.Call):
            attr = None
            if isinstance(v.func, ast.Attribute) and isinstance(v.func.value, ast.Name) \
                    and v.func.value.id in self.np_alias:
                attr = v.func.attr
            if attr in _EMPTY_ALLOCS:
                return 'empty'
            if attr in _INIT_ALLOCS:
                return 'init'
            if isinstance(v.func, ast.Attribute) and v.func.attr in ('copy', 'astype') and attr is None:
                return 'init'                              # x.copy(), x.astype(..): a new, defined array
        return None

    def _bindings(self, name):
        """kinds of EVERY binding of `name` in the enclosing function (None when there is no function)"""
        if not self.nodes or not isinstance(self.nodes[-1], (ast.FunctionDef, ast.AsyncFunctionDef)):
            return None
        fn = self.nodes[-1]
        kinds = []
        a = fn.args
        for arg in a.posonlyargs + a.args + a.kwonlyargs + [x for x in (a.vararg, a.kwarg) if x]:
            if arg.arg == name:
                kinds.append('parameter')
        for n in ast.walk(fn):
            if isinstance(n, ast.Assign):
                for t in n.targets:
                    if isinstance(t, ast.Name) and t.id == name:
                        kinds.append(self._alloc_kind(n.value) or 'other')
                    elif any(isinstance(x, ast.Name) and x.id == name for x in ast.walk(t)) \
                            and not isinstance(t, (ast.Subscript, ast.Attribute)):
                        kinds.append('unpacked')
            elif isinstance(n, ast.AnnAssign) and isinstance(n.target, ast.Name) and n.target.id == name:
                kinds.append((self._alloc_kind(n.value) if n.value is not None else None) or 'other')
            elif isinstance(n, (ast.AugAssign,)) and isinstance(n.target, ast.Name) and n.target.id == name:
                pass                                       # in-place update of an existing binding
            elif isinstance(n, (ast.For, ast.AsyncFor, ast.comprehension)):
                if any(isinstance(x, ast.Name) and x.id == name for x in ast.walk(n.target)):
                    kinds.append('loop-target')
            elif isinstance(n, (ast.With, ast.AsyncWith)):
                for it in n.items:
                    if it.optional_vars is not None and any(
                            isinstance(x, ast.Name) and x.id == name for x in ast.walk(it.optional_vars)):
                        kinds.append('with-target')
            elif isinstance(n, ast.NamedExpr) and n.target.id == name:
                kinds.append(self._alloc_kind(n.value) or 'other')
            elif isinstance(n, (ast.Global, ast.Nonlocal)) and name in n.names:
                kinds.append('global')
        return kinds

    def _out_initialised(self, out):
        """True only when `out` is recognisably a buffer with defined content: an initialising allocation
        written in place, or a name whose EVERY binding in the enclosing function is one."""
        if out is None or (isinstance(out, ast.Constant) and out.value is None):
            return False
        if self._alloc_kind(out) == 'init':
            return True
        if isinstance(out, ast.Name):
            kinds = self._bindings(out.id)
            return bool(kinds) and all(k == 'init' for k in kinds)
        return False                                       # attribute, subscript, call result, parameter ...

    def _callee_class(self, f):
        """('ufunc', name, nin) / ('maybe', text, None) / ('non-ufunc', text, None) / ('unknown', text, None)"""
        text = ast.unparse(f)
        attr = self._np_attr(f)
        if attr is not None:
            obj = getattr(np, attr, None)
            if isinstance(obj, np.ufunc):
                return 'ufunc', attr, obj.nin
            if callable(obj):
                return 'non-ufunc', text, None            # np.sum, np.mean, np.where, ...
            return 'maybe', text, None
        if isinstance(f, ast.Attribute) and f.attr in NON_UFUNC_WHERE_CALLEES:
            return 'non-ufunc', text, None
        if isinstance(f, ast.Name) and f.id in getattr(self, 'non_ufunc', set()):
            return 'non-ufunc', text, None
        if self._ufunc_valued(f) is not None:
            return 'maybe', text, None
        return 'unknown', text, None

    def visit_Call(self, node):
        fn = '.'.join(self.stack) or '<module>'
        kws = {k.arg: k.value for k in node.keywords}
        splat = None in kws
        cls, name, nin = self._callee_class(node.func)
        site = False
        if 'where' in kws:
            site = cls != 'non-ufunc'
            if not site:
                self.other_where.append({'file': self.rel, 'line': node.lineno, 'callee': name})
        elif splat and cls in ('ufunc', 'maybe'):
            site = True                                    # `where` (and `out`) may travel in the dict
        if site:
            out = kws.get('out')
            if out is None and nin is not None and len(node.args) > nin:
                out = node.args[nin]                       # positional out
            has_out = self._out_initialised(out)
            self.ufunc_sites.append({'file': self.rel, 'line': node.lineno, 'func': fn,
                                     'ufunc': name if cls == 'ufunc' else '?' + name, 'hasOut': bool(has_out)})
        attr = self._np_attr(node.func)
        if attr is None and isinstance(node.func, ast.Attribute) and isinstance(node.func.value, ast.Name) \
                and node.func.value.id in self.np_alias:
            attr = node.func.attr
        if attr in _EMPTY_ALLOCS:
            self.alloc_calls.append((node, fn, attr))
        self.generic_visit(node)


def _same(a, b):
    return a is not None and b is not None and ast.dump(a) == ast.dump(b)


def _classify_alloc(tree, call):
    """How is the freshly allocated (uninitialised) array given defined content?
    fillNext   : `t = np.empty(..)` immediately followed by `t.fill(v)` or `t[:] = v` / `t[...] = v`
    loopAssign : immediately followed by `for i, x in enumerate(S): t[i] = ..` (or `for i in range(len(S))`)
                 where the allocation's size is `len(S)`, with an unconditional `t[i] = ..` in the loop body
    objectNone : dtype=object / 'O' - numpy fills object arrays with None, there is no garbage to read
    uninitialised : anything else
    """
    t, kind = _classify_alloc_pattern(tree, call)
    if kind == 'uninitialised':
        kind = _collective_fill(tree, call) or kind
    if kind == 'uninitialised':
        dt = next((k.value for k in call.keywords if k.arg == 'dtype'), call.args[1] if len(call.args) > 1 else None)
        if dt is not None and (
                (isinstance(dt, ast.Constant) and dt.value in ('O', 'object'))
                or (isinstance(dt, ast.Name) and dt.id == 'object')
                or (isinstance(dt, ast.Attribute) and dt.attr in ('object_', 'object'))):
            kind = 'objectNone'
    return t, kind


_COLLECTIVES = {'Bcast', 'Recv', 'Scatter', 'Scatterv', 'Allgather', 'Allgatherv', 'Gather', 'Gatherv',
                'Allreduce', 'Reduce', 'Sendrecv'}


def _collective_fill(tree, call):
    """'collectiveFill' when the FIRST statement after the allocation (searching the enclosing statement
    lists outwards) that mentions the buffer hands it whole to an MPI receive-type collective
    (`comm.Bcast(t, ...)`): every cell is written before any read."""
    # chain of (statement list, index) from the outermost body down to the assignment
    def find(bodyowner, chain):
        for fieldname in ('body', 'orelse', 'finalbody', 'handlers'):
            body = getattr(bodyowner, fieldname, None)
            if not isinstance(body, list):
                continue
            for k, st in enumerate(body):
                if isinstance(st, ast.Assign) and st.value is call:
                    return chain + [(body, k)]
                if isinstance(st, ast.AST):
                    r = find(st, chain + [(body, k)])
                    if r:
                        return r
        return None
    chain = find(tree, [])
    if not chain:
        return None
    st = chain[-1][0][chain[-1][1]]
    if not (len(st.targets) == 1 and isinstance(st.targets[0], ast.Name)):
        return None
    t = st.targets[0].id
    for body, k in reversed(chain):
        if isinstance(body[k], (ast.FunctionDef, ast.AsyncFunctionDef, ast.ClassDef)):
            break
        for nx in body[k + 1:]:
            if any(isinstance(x, ast.Name) and x.id == t for x in ast.walk(nx)):
                ok = (isinstance(nx, ast.Expr) and isinstance(nx.value, ast.Call)
                      and isinstance(nx.value.func, ast.Attribute) and nx.value.func.attr in _COLLECTIVES
                      and nx.value.args and isinstance(nx.value.args[0], ast.Name) and nx.value.args[0].id == t)
                return 'collectiveFill' if ok else None
    return None


def _classify_alloc_pattern(tree, call):
    for parent in ast.walk(tree):
        for fieldname in ('body', 'orelse', 'finalbody'):
            body = getattr(parent, fieldname, None)
            if not isinstance(body, list):
                continue
            for k, st in enumerate(body):
                if not (isinstance(st, ast.Assign) and st.value is call and len(st.targets) == 1
                        and isinstance(st.targets[0], ast.Name)):
                    continue
                t = st.targets[0].id
                if k + 1 >= len(body):
                    return t, 'uninitialised'
                nx = body[k + 1]
                # t.fill(v)
                if (isinstance(nx, ast.Expr) and isinstance(nx.value, ast.Call)
                        and isinstance(nx.value.func, ast.Attribute) and nx.value.func.attr == 'fill'
                        and isinstance(nx.value.func.value, ast.Name) and nx.value.func.value.id == t):
                    return t, 'fillNext'
                # t[:] = v / t[...] = v
                if (isinstance(nx, ast.Assign) and len(nx.targets) == 1
                        and isinstance(nx.targets[0], ast.Subscript)
                        and isinstance(nx.targets[0].value, ast.Name) and nx.targets[0].value.id == t):
                    sl = nx.targets[0].slice
                    full = (isinstance(sl, ast.Slice) and sl.lower is None and sl.upper is None and sl.step is None) \
                        or (isinstance(sl, ast.Constant) and sl.value is Ellipsis)
                    if full:
                        return t, 'fillNext'
                # for i, x in enumerate(S): t[i] = ...   with size len(S)
                if isinstance(nx, ast.For) and call.args:
                    size = call.args[0]
                    seq, idx = None, None
                    it = nx.iter
                    if (isinstance(it, ast.Call) and isinstance(it.func, ast.Name) and it.func.id == 'enumerate'
                            and it.args and isinstance(nx.target, ast.Tuple) and len(nx.target.elts) == 2
                            and isinstance(nx.target.elts[0], ast.Name)):
                        seq, idx = it.args[0], nx.target.elts[0].id
                        want = ast.Call(func=ast.Name(id='len', ctx=ast.Load()), args=[seq], keywords=[])
                    elif (isinstance(it, ast.Call) and isinstance(it.func, ast.Name) and it.func.id == 'range'
                          and len(it.args) == 1 and isinstance(nx.target, ast.Name)):
                        want, idx = it.args[0], nx.target.id
                    else:
                        want = None
                    if want is not None and _same(size, want):
                        for b in nx.body:
                            if (isinstance(b, ast.Assign) and len(b.targets) == 1
                                    and isinstance(b.targets[0], ast.Subscript)
                                    and isinstance(b.targets[0].value, ast.Name) and b.targets[0].value.id == t
                                    and isinstance(b.targets[0].slice, ast.Name) and b.targets[0].slice.id == idx):
                                return t, 'loopAssign'
                return t, 'uninitialised'
    return '?', 'uninitialised'


_PYX_DEF = re.compile(r'^(?:def|cpdef|cdef)\s+(?:[\w\.\[\], ]+\s+)?(\w+)\s*\(')
_ID = r'[A-Za-z_]\w*'


def _pyx_logical_lines(text):
    """[(first line number, indent, statement)]: comments stripped, continuation lines (open brackets or a
    trailing backslash) joined, blank lines dropped"""
    out, buf, start, depth = [], '', None, 0
    for no, raw in enumerate(text.split('\n'), 1):
        l = re.sub(r'#.*$', '', raw).rstrip()
        if not l.strip() and not buf:
            continue
        if not buf:
            start, indent = no, len(l) - len(l.lstrip())
            buf = l.strip()
        else:
            buf += ' ' + l.strip()
        depth = buf.count('(') + buf.count('[') + buf.count('{') - buf.count(')') - buf.count(']') - buf.count('}')
        if depth > 0 or buf.endswith('\\'):
            buf = buf.rstrip('\\').rstrip()
            continue
        out.append((start, indent, re.sub(r'\s+', ' ', buf)))
        buf = ''
    if buf:
        out.append((start, indent, re.sub(r'\s+', ' ', buf)))
    return out


def _split_args(arg):
    parts, depth, cur = [], 0, ''
    for ch in arg:
        if ch in '([{':
            depth += 1
        elif ch in ')]}':
            depth -= 1
        if ch == ',' and depth == 0:
            parts.append(cur.strip())
            cur = ''
        else:
            cur += ch
    if cur.strip():
        parts.append(cur.strip())
    return parts


def _canon_bound(expr, alias):
    """iteration bound up to spelling: spaces, `X.shape[0]` = `len(X)`, single-assignment scalar aliases"""
    e = re.sub(r'\s+', '', expr)
    for _ in range(3):
        e2 = re.sub(r'\b(%s)\.shape\[0\]' % _ID, r'len(\1)', e)
        e2 = re.sub(r'\b(%s)\b' % _ID, lambda m: alias.get(m.group(1), m.group(1)), e2)
        if e2 == e:
            break
        e = e2
    return e


def _cell_stmt(st):
    """(buffer, index text, operator, right-hand side) of `b[<index, brackets may nest>] op ...`, else None"""
    m = re.match(r'^(%s)\s*\[' % _ID, st)
    if not m:
        return None
    depth, k = 0, m.end() - 1
    for k in range(m.end() - 1, len(st)):
        if st[k] == '[':
            depth += 1
        elif st[k] == ']':
            depth -= 1
            if depth == 0:
                break
    else:
        return None
    m2 = re.match(r'^\s*(\+=|-=|\*=|/=|//=|%=|\|=|&=|\^=|=)(?!=)\s*(.*)$', st[k + 1:])
    if not m2:
        return None
    return m.group(1), st[m.end():k], m2.group(1), m2.group(2)


def _scan_pyx_function(rel, fname, stmts):
    """accumulating buffers of one function.  STRUCTURAL: what counts is the block structure, not spelling -
    `for v in range(n)` / `prange(n, ...)` / `v = 0; while v < n: ...; v = v + 1` are all a full loop over n,
    `with nogil:` / `with gil:` are transparent, declaration order and local names do not matter.
      zerosAlloc      : `b = np.zeros(..)`                      (not under a condition)
      computedBinding : `b = <expression>` other than np.empty / np.ndarray
      zeroLoop        : `b[i,..] = 0` (or `b[:] = 0`, `b[...] = 0`, `b.fill(0)`), not under a condition, over
                        full loops with the SAME bounds as the loops that drive the accumulation's indices
      uninitialised   : anything else (a parameter accumulated into without zeroing, zeroing under an `if`,
                        over a partial range, after the accumulation, np.empty, ...)"""
    # scalar aliases: names assigned exactly once by a plain expression
    counts, alias = {}, {}
    for _, _, st in stmts:
        m = re.match(r'^(?:cdef\s+[\w\s\.\*\[\],=]*?\s)?(%s)\s*(?:[-+*/]?=)(?!=)\s*(.+)$' % _ID, st)
        if m and not re.match(r'^(for|while|if|elif|assert|return|with)\b', st):
            counts[m.group(1)] = counts.get(m.group(1), 0) + 1
            if re.match(r'^(?:cdef\s.*\s)?%s\s*=(?!=)' % re.escape(m.group(1)), st) and '[' not in m.group(2).replace('.shape[0]', ''):
                alias[m.group(1)] = re.sub(r'\s+', '', m.group(2))
    alias = {k: v for k, v in alias.items() if counts.get(k) == 1 and not re.fullmatch(r'[\d.]+', v)}
    alias = {k: _canon_bound(v, {}) for k, v in alias.items()}

    accums, state, seen = [], {}, set()
    view_of = {}        # local name -> the buffer it is an alias / view of (`acc = out`, `&out[0]`, out.reshape(..))
    by_buf = {}

    def root(nm):
        for _ in range(8):
            if nm not in view_of:
                break
            nm = view_of[nm]
        return nm
    _RANK = {'serial': 0, 'ownedAt0': 1, 'ownedElsewhere': 2, 'racy': 3}
    stack = []          # blocks: {'indent', 'kind': loop|cond|transparent, 'var', 'bound', 'parallel'}
    n = len(stmts)
    for k, (no, indent, st) in enumerate(stmts):
        while stack and stack[-1]['indent'] >= indent:
            stack.pop()
        # ---- block headers ----
        if st.endswith(':') and re.match(r'^(for|while|if|elif|else|try|except|finally|with)\b', st):
            blk = {'indent': indent, 'kind': 'cond', 'var': None, 'bound': None}
            m = re.match(r'^for (%s) in p?range\s*\((.*)\)\s*:$' % _ID, st)
            if m:
                pos = [x for x in _split_args(m.group(2)) if not re.match(r'^\w+\s*=', x)]
                blk.update(kind='loop', var=m.group(1), parallel=bool(re.match(r'^for %s in prange\b' % _ID, st)),
                           bound=_canon_bound(pos[0], alias) if len(pos) == 1 else None)
            elif re.match(r'^with\s+(nogil|gil)\s*:$', st):
                blk['kind'] = 'transparent'
            else:
                m = re.match(r'^while (%s)\s*<\s*(.+?)\s*:$' % _ID, st)
                if m:
                    v = m.group(1)
                    body = []
                    for k2 in range(k + 1, n):
                        if stmts[k2][1] <= indent:
                            break
                        body.append(stmts[k2])
                    body_indent = body[0][1] if body else None
                    top = [b for b in body if b[1] == body_indent]
                    prev = stmts[k - 1] if k > 0 else None
                    starts_at_zero = prev is not None and prev[1] == indent and re.match(
                        r'^(?:cdef\s+[\w\s]+\s)?%s\s*=\s*0$' % re.escape(v), prev[2])
                    incs = [b for b in body if re.match(r'^%s\s*(=\s*%s\s*\+\s*1|\+=\s*1)$' % (re.escape(v), re.escape(v)), b[2])]
                    other_writes = [b for b in body if re.match(r'^%s\s*[-+*/]?=(?!=)' % re.escape(v), b[2]) and b not in incs]
                    if starts_at_zero and top and len(incs) == 1 and incs[0] is top[-1] and not other_writes \
                            and not any(re.match(r'^(break|continue)\b', b[2]) for b in body):
                        blk.update(kind='loop', var=v, bound=_canon_bound(m.group(2), alias))
            stack.append(blk)
            continue
        conditional = any(b['kind'] == 'cond' for b in stack)
        loops = {b['var']: b['bound'] for b in stack if b['kind'] == 'loop'}

        def extent(idx):
            """bounds of the loops driving the index variables (None when an index is not a full-loop variable)"""
            ext = []
            for part in _split_args(idx):
                part = part.strip()
                if part not in loops or loops[part] is None:
                    return None
                ext.append(loops[part])
            return tuple(ext)
        # ---- whole-buffer binding ----
        m = re.match(r'^(?:cdef\s+.*?[\]\w\*]\s+)?(%s)\s*=(?!=)\s*(.+)$' % _ID, st)
        if m and not re.match(r'^(assert|return)\b', st):
            b, rhs = m.group(1), m.group(2)
            am = re.match(r'^(?:<[^>]+>\s*)?&?\s*(?:np\.(?:asarray|ascontiguousarray|asanyarray|ravel|reshape)\s*\(\s*)?'
                          r'(%s)\s*(?:\[[^\]]*\])?\s*(?:\.(?:reshape|ravel|view|squeeze|base|T)\b[^;]*)?\)?\s*(?:,.*\))?$' % _ID,
                          rhs)
            if am and am.group(1) != b and not re.match(r'^(len|int|float|long|abs|max|min|sizeof)$', am.group(1)) \
                    and not re.match(r'^[\d.]+$', rhs):
                # an alias or view: it has the state of what it views (a caller-supplied buffer is NOT
                # initialised by the routine unless the routine zero-fills it)
                view_of[b] = am.group(1)
                state.pop(b, None)
                continue
            if not conditional:
                if re.search(r'\bnp\.(empty_like|empty|ndarray)\s*\(', rhs):
                    state[b] = ('uninitialised', None)
                elif re.search(r'\bnp\.zeros(_like)?\s*\(', rhs):
                    state[b] = ('zerosAlloc', None)
                else:
                    state[b] = ('computedBinding', None)
            elif re.search(r'\bnp\.(empty_like|empty|ndarray)\s*\(', rhs):
                state[b] = ('uninitialised', None)
            continue
        # ---- whole-buffer zero fill ----
        m = re.match(r'^(%s)\s*(?:\[\s*(?::|\.\.\.)\s*\]\s*=\s*0(?:\.0*)?|\.fill\s*\(\s*0(?:\.0*)?\s*\))$' % _ID, st)
        if m:
            if not conditional:
                state[root(m.group(1))] = ('zeroLoop', 'whole')
            continue
        # ---- cell statements ----
        cell = _cell_stmt(st)
        if cell is None:
            continue
        b0, idx, op, rhs = cell
        b = root(b0)
        is_acc = op != '=' or re.search(r'(?<![\w.])%s\s*\[\s*%s\s*\]' % (re.escape(b0), re.escape(idx.strip())), rhs)
        if not is_acc:
            if re.fullmatch(r'0(?:\.0*)?', rhs.strip()) and not conditional:
                ext = extent(idx)
                if ext is not None and b not in seen:
                    state[b] = ('zeroLoop', ext)
            continue
        # ownership: inside a parallel region every prange variable must be a component of the accumulated
        # index (one writer per cell) - at position 0 for the kernels that have a model
        pvars = [blk['var'] for blk in stack if blk['kind'] == 'loop' and blk.get('parallel')]
        comps = [c.strip() for c in _split_args(idx)]
        if not pvars:
            owner = 'serial'
        elif all(v in comps for v in pvars):
            owner = 'ownedAt0' if comps and comps[0] in pvars else 'ownedElsewhere'
        else:
            owner = 'racy'
        if b in seen:
            if _RANK[owner] > _RANK[by_buf[b]['owner']]:
                by_buf[b]['owner'] = owner
            continue
        seen.add(b)
        kind, ext0 = state.get(b, ('uninitialised', None))
        if kind == 'zeroLoop' and ext0 != 'whole':
            # conditions around the accumulation do not matter; its index space must be the zeroed one
            if extent(idx) != ext0:
                kind = 'uninitialised'
        by_buf[b] = {'file': rel, 'line': no, 'func': fname, 'buffer': b, 'init': kind, 'owner': owner}
        accums.append(by_buf[b])
    return accums


def _scan_pyx(rel, text):
    """(alloc sites, accumulating sites, where= lines) of a Cython file.  Never raises: what cannot be
    analysed becomes an `unrecognised:` entry that fails the obligation."""
    allocs, accums, wheres = [], [], []
    try:
        stmts = _pyx_logical_lines(text)
    except Exception as e:  # noqa
        return [], [{'file': rel, 'line': 0, 'func': 'unrecognised: %s' % type(e).__name__, 'buffer': '?',
                     'init': 'uninitialised', 'owner': 'racy'}], []
    funcs, cur = [], None
    for no, indent, st in stmts:
        m = _PYX_DEF.match(st) if indent == 0 else None
        if m and not st.startswith(('cdef extern', 'ctypedef')):
            cur = {'name': m.group(1), 'stmts': []}
            funcs.append(cur)
            continue
        if indent == 0:
            cur = None
        if cur is not None:
            cur['stmts'].append((no, indent, st))
    fname_of = {}
    for f in funcs:
        for no, _, _ in f['stmts']:
            fname_of[no] = f['name']
    for no, indent, st in stmts:
        m = re.search(r'\bnp\.(empty_like|empty|ndarray)\s*\(', st)
        if m:
            allocs.append({'file': rel, 'line': no, 'func': fname_of.get(no, '<module>'), 'call': m.group(1),
                           'target': '?', 'init': 'uninitialised'})
        if re.search(r'\bwhere\s*=', st):
            wheres.append({'file': rel, 'line': no, 'func': fname_of.get(no, '<module>'),
                           'ufunc': '?pyx:' + st[:40],
                           'hasOut': bool(re.search(r'\bout\s*=\s*np\.(zeros|ones|full)', st))})
    for f in funcs:
        try:
            accums += _scan_pyx_function(rel, f['name'], f['stmts'])
        except Exception as e:  # noqa
            accums.append({'file': rel, 'line': f['stmts'][0][0] if f['stmts'] else 0,
                           'func': 'unrecognised: %s in %s' % (type(e).__name__, f['name']), 'buffer': '?',
                           'init': 'uninitialised', 'owner': 'racy'})
    return allocs, accums, wheres


def scan_sources(repo_dir):
    """All three tables from the source tree."""
    ufunc_sites, other_where, allocs, accums = [], [], [], []
    root = os.path.join(repo_dir, 'enspara')
    for dirpath, dirs, files in os.walk(root):
        dirs[:] = sorted(d for d in dirs if d not in ('__pycache__',) and not d.startswith('test'))
        for fn in sorted(files):
            p = os.path.join(dirpath, fn)
            rel = os.path.relpath(p, repo_dir)
            if fn.endswith('.py') and not fn.startswith('test_'):
                with open(p, encoding='utf-8', errors='replace') as f:
                    src = f.read()
                try:
                    tree = ast.parse(src)
                    v = _SiteVisitor(rel)
                    v.visit(tree)
                except Exception as e:  # noqa  (unparsable module: nothing can be said about it)
                    ufunc_sites.append({'file': rel, 'line': 0, 'func': '<module>',
                                        'ufunc': 'unrecognised: %s' % type(e).__name__, 'hasOut': False})
                    continue
                ufunc_sites += v.ufunc_sites
                other_where += v.other_where
                for call, fn_name, attr in v.alloc_calls:          # every module, not only the anchors
                    try:
                        t, kind = _classify_alloc(tree, call)
                    except Exception as e:  # noqa
                        t, kind = 'unrecognised: %s' % type(e).__name__, 'uninitialised'
                    allocs.append({'file': rel, 'line': call.lineno, 'func': fn_name, 'call': attr,
                                   'target': t, 'init': kind})
            elif fn.endswith('.pyx'):
                with open(p, encoding='utf-8', errors='replace') as f:
                    a, c, w = _scan_pyx(rel, f.read())        # never raises
                allocs += a
                accums += c
                ufunc_sites += w
    key = lambda s: (s['file'], s['line'])
    return (sorted(ufunc_sites, key=key), sorted(other_where, key=key), sorted(allocs, key=key),
            sorted(accums, key=key))


def _quiet_openmp():
    """libgomp's default active waiting makes 7- and 16-thread teams on tiny loops ~300x slower in this
    sandbox (measured 12 s vs 0.04 s); the policy is read once when libgomp is loaded, so set it before
    enspara's extensions are imported.  It changes how idle threads wait, not what they compute."""
    os.environ.setdefault('OMP_WAIT_POLICY', 'PASSIVE')


def translate(repo_dir, gen_dir):
    _quiet_openmp()
    try:
        ufunc_sites, other_where, allocs, accums = scan_sources(repo_dir)
    except Exception as e:  # noqa   never raise: an unanalysable tree fails the obligation instead
        ufunc_sites = [{'file': 'enspara', 'line': 0, 'func': '<tree>',
                        'ufunc': 'unrecognised: %s: %s' % (type(e).__name__, str(e)[:80]), 'hasOut': False}]
        other_where, allocs, accums = [], [], []
    out = []
    out.append('/-! GENERATED by harness/props/c19.py `translate` from the source tree on every run - do not edit.')
    out.append('`sites`: every call of a numpy ufunc carrying `where=` in enspara/**/*.py (tests excluded).')
    out.append('`allocSites`: np.empty / np.empty_like / np.ndarray( allocations in enspara/**/*.py and *.pyx (tests excluded).')
    out.append('`accumSites`: first compound assignment into each indexed buffer of every function of the')
    out.append('.pyx files, and how that buffer got defined content before it (see `_scan_pyx`). -/')
    out.append('namespace Ens.Generated.UfuncSites')
    out.append('')
    out.append('structure UfuncSite where')
    out.append('  file : String\n  line : Nat\n  func : String\n  ufunc : String\n  hasOut : Bool')
    out.append('  deriving Repr')
    out.append('')
    out.append('inductive InitKind | fillNext | loopAssign | objectNone | collectiveFill | uninitialised')
    out.append('  deriving Repr, DecidableEq')
    out.append('')
    out.append('structure AllocSite where')
    out.append('  file : String\n  line : Nat\n  func : String\n  call : String\n  target : String\n  init : InitKind')
    out.append('  deriving Repr')
    out.append('')
    out.append('inductive AccumInit | zeroLoop | zerosAlloc | computedBinding | uninitialised')
    out.append('  deriving Repr, DecidableEq')
    out.append('')
    out.append('inductive Owner | serial | ownedAt0 | ownedElsewhere | racy')
    out.append('  deriving Repr, DecidableEq')
    out.append('')
    out.append('structure AccumSite where')
    out.append('  file : String\n  line : Nat\n  func : String\n  buffer : String\n  init : AccumInit\n  owner : Owner')
    out.append('  deriving Repr')
    out.append('')

    def lst(name, ty, items):
        if not items:
            out.append('def %s : List %s := []' % (name, ty))
        else:
            out.append('def %s : List %s := [' % (name, ty))
            out.append(',\n'.join('  ' + i for i in items))
            out.append(']')
        out.append('')

    lst('sites', 'UfuncSite',
        ['{ file := %s, line := %d, func := %s, ufunc := %s, hasOut := %s }' % (
            _lean_str(s['file']), s['line'], _lean_str(s['func']), _lean_str(s['ufunc']),
            'true' if s['hasOut'] else 'false') for s in ufunc_sites])
    lst('allocSites', 'AllocSite',
        ['{ file := %s, line := %d, func := %s, call := %s, target := %s, init := .%s }' % (
            _lean_str(s['file']), s['line'], _lean_str(s['func']), _lean_str(s['call']),
            _lean_str(s['target']), s['init']) for s in allocs])
    lst('accumSites', 'AccumSite',
        ['{ file := %s, line := %d, func := %s, buffer := %s, init := .%s, owner := .%s }' % (
            _lean_str(s['file']), s['line'], _lean_str(s['func']), _lean_str(s['buffer']), s['init'],
            s.get('owner', 'racy')) for s in accums])
    out.append('end Ens.Generated.UfuncSites')
    text = '\n'.join(out) + '\n'
    os.makedirs(gen_dir, exist_ok=True)
    path = os.path.join(gen_dir, 'UfuncSites.lean')
    old = None
    if os.path.exists(path):
        with open(path) as f:
            old = f.read()
    if old != text:              # keep the mtime (and lake's cache) when nothing changed
        tmp = path + '.tmp%d' % os.getpid()
        with open(tmp, 'w') as f:
            f.write(text)
        os.replace(tmp, path)
    info = {
        'summary': '%d masked ufunc sites (%d without out=), %d empty-allocation sites (%d not recognisably '
                   'initialised), %d accumulating kernel buffers (%d not initialised first), %d non-ufunc where= calls '
                   'filtered' % (
                       len(ufunc_sites), sum(not s['hasOut'] for s in ufunc_sites),
                       len(allocs), sum(s['init'] == 'uninitialised' and (s['file'], s['func'], s['target']) not in REVIEWED_ALLOCS
                                        for s in allocs),
                       len(accums), sum(s['init'] == 'uninitialised' for s in accums), len(other_where)),
        'ufunc_sites': ufunc_sites, 'alloc_sites': allocs, 'accum_sites': accums,
        'filtered_where_calls': len(other_where),
        'sha256': hashlib.sha256(text.encode()).hexdigest(),
    }
    _LAST_TRANSLATION.clear()
    _LAST_TRANSLATION.update(info)
    return info


# --------------------------------------------------------------------------------------
# argument codec (JSON-able <-> real objects), result canonicalisation, snapshots
# --------------------------------------------------------------------------------------

def N(a, dt=None):
    a = np.asarray(a) if dt is None else np.asarray(a, dtype=dt)
    return {'t': 'nd', 'dt': a.dtype.name, 'shape': list(a.shape), 'v': a.ravel().tolist()}


def SP(a, fmt):
    e = N(a)
    e['t'], e['fmt'] = 'sp', fmt
    return e


def RA(rows, dt='int64'):
    return {'t': 'ra', 'dt': dt, 'rows': [np.asarray(r, dtype=dt).tolist() for r in rows]}


def FN(path):
    return {'t': 'fn', 'v': path}


def RINT(seed, shape, lo, hi, dt='float64'):
    """integer-valued array drawn from its own seeded generator (keeps replay files small)"""
    return {'t': 'rint', 'seed': int(seed), 'shape': [int(x) for x in shape], 'lo': int(lo), 'hi': int(hi), 'dt': dt}


def TUP(*xs):
    return {'t': 'tuple', 'v': list(xs)}


def SL(a, b, c=None):
    return {'t': 'slice', 'v': [a, b, c]}


def decode(e):
    if isinstance(e, list):
        return [decode(x) for x in e]
    if not isinstance(e, dict):
        return e
    t = e.get('t')
    if t == 'nd':
        a = np.array(e['v'], dtype=e['dt']).reshape(e['shape'])
        how = e.get('as')
        if how is None:
            return a
        if how == 'F':
            return np.asfortranarray(a)
        if how == 'strided' and a.ndim >= 1:          # every second element of a wider buffer
            b = np.zeros(a.shape[:-1] + (2 * a.shape[-1],), dtype=a.dtype)
            b[..., ::2] = a
            return b[..., ::2]
        if how == 'rev' and a.ndim >= 1:              # negative stride, same values
            return a[::-1].copy()[::-1]
        if how == 'list':
            return a.tolist()
        if how == 'tuple':
            return tuple(a.tolist()) if a.ndim == 1 else a.tolist()
        if how == 'matrix' and a.ndim == 2:
            return np.matrix(a)
        if how == 'readonly':
            a.setflags(write=False)
            return a
        return a
    if t == 'sp':
        import scipy.sparse
        return getattr(scipy.sparse, e['fmt'])(np.array(e['v'], dtype=e['dt']).reshape(e['shape']))
    if t == 'ra':
        from enspara import ra
        return ra.RaggedArray([np.array(r, dtype=e['dt']) for r in e['rows']])
    if t == 'rint':
        return np.random.default_rng(e['seed']).integers(e['lo'], e['hi'], size=e['shape']).astype(e['dt'])
    if t == 'fn':
        import importlib
        mod, name = e['v'].rsplit('.', 1)
        return getattr(importlib.import_module(mod), name)
    if t == 'tuple':
        return tuple(decode(x) for x in e['v'])
    if t == 'slice':
        return slice(*e['v'])
    if t == 'trj':
        import mdtraj as md
        top = md.Topology()
        ch = top.add_chain()
        res = top.add_residue('ALA', ch)
        for _ in range(e['n_atoms']):
            top.add_atom('CA', md.element.carbon, res)
        return md.Trajectory(np.array(e['v'], dtype='float32').reshape(e['shape']), top)
    if t is None:
        return {k: decode(v) for k, v in e.items()}
    raise ValueError('bad encoding %r' % t)


def _hexbytes(a):
    return np.ascontiguousarray(a).tobytes().hex()


def canon_res(o):
    """JSON-able, bit-exact canonical form of a result (or an argument)."""
    import scipy.sparse
    if o is None or isinstance(o, (bool, str)):
        return o
    if isinstance(o, (int, np.integer)):
        return int(o)
    if isinstance(o, (np.bool_,)):
        return bool(o)
    if isinstance(o, (float, np.floating)):
        return {'f8': _hexbytes(np.float64(o))}
    if isinstance(o, (complex, np.complexfloating)):
        return {'c16': _hexbytes(np.complex128(o))}
    if isinstance(o, np.ndarray):
        if o.dtype == object:
            return {'obj': list(o.shape), 'v': [canon_res(x) for x in o.ravel().tolist()] if o.ndim != 1
                    else [canon_res(x) for x in o]}
        if o.ndim == 0 and o.dtype.kind == 'f':
            return canon_res(o[()])            # 0-d array and scalar are the same value
        if o.ndim == 0 and o.dtype.kind in 'iu':
            return int(o)
        d = {'nd': o.dtype.str, 'shape': list(o.shape), 'b': _hexbytes(o)}
        if type(o) is not np.ndarray:
            d['cls'] = type(o).__name__
        return d
    if scipy.sparse.issparse(o):
        return {'sp': type(o).__name__, 'shape': list(o.shape), 'nnz': int(o.nnz),
                'dense': canon_res(np.asarray(o.toarray()))}
    if type(o).__name__ == 'RaggedArray':
        return {'ra': canon_res(np.asarray(o._data)) if len(o.lengths) else None,
                'lengths': canon_res(np.asarray(o.lengths))}
    if type(o).__name__ == 'TrimMapping':
        return {'trim': sorted((int(k), int(v)) for k, v in o.to_original.items())}
    if type(o).__name__ == 'Trajectory':
        return {'trj': canon_res(o.xyz), 'n_atoms': int(o.n_atoms)}
    if isinstance(o, dict):
        return {'dict': sorted(([canon_res(k), canon_res(v)] for k, v in o.items()), key=lambda kv: json.dumps(kv[0]))}
    if isinstance(o, (tuple, list)):
        return [canon_res(x) for x in o]
    if isinstance(o, slice):
        return {'slice': [o.start, o.stop, o.step]}
    if callable(o):
        return {'callable': getattr(o, '__name__', 'fn')}
    return {'repr': repr(o)}


def snap(o):
    """Byte snapshot of an argument, including the arrays a container is made of."""
    import scipy.sparse
    if scipy.sparse.issparse(o):
        d = canon_res(o)
        for attr in ('data', 'indices', 'indptr', 'row', 'col', 'coords', 'offsets', 'rows'):
            if hasattr(o, attr):
                v = getattr(o, attr)
                d['_' + attr] = canon_res(np.asarray(v)) if not isinstance(v, tuple) else [canon_res(np.asarray(x)) for x in v]
        return d
    if type(o).__name__ == 'RaggedArray':
        d = canon_res(o)
        d['_rows'] = [canon_res(np.asarray(r)) for r in o._array]
        return d
    if isinstance(o, (tuple, list)):
        return [snap(x) for x in o]
    if isinstance(o, dict):
        return {k: snap(v) for k, v in o.items()}
    return canon_res(o)


def digest(c):
    return hashlib.sha1(json.dumps(c, sort_keys=True, separators=(',', ':')).encode()).hexdigest()


def _decode_canon(c):
    """human-readable short form of a canonical result (for replay files)"""
    try:
        if isinstance(c, dict) and 'f8' in c:
            return float(np.frombuffer(bytes.fromhex(c['f8']), dtype='<f8')[0])
        if isinstance(c, dict) and 'nd' in c:
            a = np.frombuffer(bytes.fromhex(c['b']), dtype=c['nd'])
            first = a[:8].tolist()
            if a.dtype.kind == 'c':
                first = [[x.real, x.imag] for x in first]
            return {'dtype': c['nd'], 'shape': c['shape'], 'first': first}
        if isinstance(c, dict) and 'sp' in c:
            return {'sparse': c['sp'], 'dense': _decode_canon(c['dense'])}
        if isinstance(c, dict) and 'ra' in c:
            return {'ra': _decode_canon(c['ra']), 'lengths': _decode_canon(c['lengths'])}
        if isinstance(c, list):
            return [_decode_canon(x) for x in c[:6]]
    except Exception:  # noqa
        pass
    return c if len(json.dumps(c)) < 300 else '<%d bytes>' % len(json.dumps(c))


# --------------------------------------------------------------------------------------
# the API table
# --------------------------------------------------------------------------------------

LIBDIST = 'enspara.geometry.libdist.'


def _ra_binop(a, op, b):
    return getattr(a, op)(b)


def _ra_unop(a, op):
    return getattr(a, op)()


def _ra_getitem(a, idx):
    return a[idx]


def _ra_setitem(a, idx, value):
    a[idx] = value
    return a


def _ra_append(a, values):
    a.append(values)
    return a


def _ra_construct(rows, lengths=None):
    from enspara import ra
    if lengths is None:
        return ra.RaggedArray(rows)
    return ra.RaggedArray(rows, lengths=lengths)


def _eq_probs(T):
    from enspara.msm.transition_matrices import eq_probs
    return eq_probs(T)


def _paths(sources, sinks, net_flux, **kw):
    from enspara import tpt
    return tpt.paths(sources, sinks, net_flux, **kw)


def _net_then_paths(tprob, sources, sinks, **kw):
    """the usual pipeline: net fluxes of an MSM, then its top paths"""
    from enspara import tpt
    nf = tpt.net_fluxes(tprob, sources, sinks)
    return tpt.paths(sources, sinks, np.asarray(nf.todense()) if hasattr(nf, 'todense') else nf, **kw)


def _dist_out(fn, X, y, out):
    """libdist with a caller-supplied `out`: returns (returned array, out afterwards)"""
    r = fn(X, y, out=out)
    return [r, out]


def _implied(assigns, lag_times, method, **kw):
    from enspara.msm.timescales import implied_timescales
    return implied_timescales(assigns, lag_times, method, **kw)


def _partition(result_fields, lengths):
    from enspara.cluster.util import ClusterResult
    return ClusterResult(**result_fields).partition(lengths)


def _ra_zeros_like(a):
    from enspara import ra
    return ra.zeros_like(a)


ROUTINES = {
    # name: (dotted path or local adapter, uses the OpenMP kernels)
    'entropy.Q_from_assignments': ('enspara.info_theory.entropy.Q_from_assignments', False),
    'entropy.relative_entropy_per_state': ('enspara.info_theory.entropy.relative_entropy_per_state', False),
    'entropy.energy_to_probability': ('enspara.info_theory.entropy.energy_to_probability', False),
    'mutual_info.mi_matrix_serial': ('enspara.info_theory.mutual_info.mi_matrix_serial', False),
    'mutual_info.deconvolute_network': ('enspara.info_theory.mutual_info.deconvolute_network', False),
    'cluster.ClusterResult.partition': (_partition, False),
    'ra.zeros_like': (_ra_zeros_like, False),
    'entropy.shannon_entropy': ('enspara.info_theory.entropy.shannon_entropy', False),
    'entropy.kl_divergence': ('enspara.info_theory.entropy.kl_divergence', False),
    'entropy.js_divergence': ('enspara.info_theory.entropy.js_divergence', False),
    'entropy.relative_entropy_msm': ('enspara.info_theory.entropy.relative_entropy_msm', False),
    'mutual_info.mutual_information': ('enspara.info_theory.mutual_info.mutual_information', False),
    'mutual_info.joint_counts': ('enspara.info_theory.mutual_info.joint_counts', True),
    'mutual_info.mi_matrix': ('enspara.info_theory.mutual_info.mi_matrix', True),
    'mutual_info.weighted_mi': ('enspara.info_theory.mutual_info.weighted_mi', False),
    'mutual_info.channel_capacity_normalization':
        ('enspara.info_theory.mutual_info.channel_capacity_normalization', False),
    'mutual_info.mi_to_nmi': ('enspara.info_theory.mutual_info.mi_to_nmi', False),
    'mutual_info.mi_to_apc': ('enspara.info_theory.mutual_info.mi_to_apc', False),
    'mutual_info.mi_to_nmi_apc': ('enspara.info_theory.mutual_info.mi_to_nmi_apc', False),
    'libinfo.bincount2d': ('enspara.info_theory.libinfo.bincount2d', False),
    'libinfo.matrix_bincount2d': ('enspara.info_theory.libinfo.matrix_bincount2d', True),
    'builders.normalize': ('enspara.msm.builders.normalize', False),
    'builders.transpose': ('enspara.msm.builders.transpose', False),
    'builders.mle': ('enspara.msm.builders.mle', False),
    'builders._prinz_mle': ('enspara.msm.builders._prinz_mle', False),
    'msm.assigns_to_counts': ('enspara.msm.transition_matrices.assigns_to_counts', False),
    'msm.trim_disconnected': ('enspara.msm.transition_matrices.trim_disconnected', False),
    'msm.eigenspectrum': ('enspara.msm.transition_matrices.eigenspectrum', False),
    'msm.eq_probs': (_eq_probs, False),
    'msm.implied_timescales': (_implied, False),
    'tpt.committors': ('enspara.tpt.committors', False),
    'tpt.mfpts': ('enspara.tpt.mfpts', False),
    'tpt.reactive_fluxes': ('enspara.tpt.reactive_fluxes', False),
    'tpt.net_fluxes': ('enspara.tpt.net_fluxes', False),
    'tpt.reactive_populations': ('enspara.tpt.reactive_populations', False),
    'tpt.paths': (_paths, False),
    'tpt.top_path': ('enspara.tpt.top_path', False),
    'tpt.net_fluxes+paths': (_net_then_paths, False),
    'cluster.assign_to_nearest_center': ('enspara.cluster.util.assign_to_nearest_center', True),
    'cluster.find_cluster_centers': ('enspara.cluster.util.find_cluster_centers', False),
    'cluster.kcenters': ('enspara.cluster.kcenters.kcenters', True),
    'cluster.kmedoids': ('enspara.cluster.kmedoids.kmedoids', True),
    'cluster.hybrid': ('enspara.cluster.hybrid.hybrid', True),
    'libdist.euclidean': (LIBDIST + 'euclidean', True),
    'libdist.manhattan': (LIBDIST + 'manhattan', True),
    'libdist.hamming': (LIBDIST + 'hamming', True),
    'libdist.with_out': (_dist_out, True),
    'ra.construct': (_ra_construct, False),
    'ra.binop': (_ra_binop, False),
    'ra.unop': (_ra_unop, False),
    'ra.getitem': (_ra_getitem, False),
    'ra.setitem': (_ra_setitem, False),
    'ra.append': (_ra_append, False),
    'ra.where': ('enspara.ra.ra.where', False),
    'ra.partition_list': ('enspara.ra.ra.partition_list', False),
    'ra.partition_indices': ('enspara.ra.ra.partition_indices', False),
    'load.concatenate_trjs': ('enspara.util.load.concatenate_trjs', False),
}

# source function name (as in the generated site tables) -> routines of the table that reach it
REACHES = {
    'shannon_entropy': ['entropy.shannon_entropy'],
    'mutual_information': ['mutual_info.mutual_information', 'mutual_info.mi_matrix'],
    'weighted_mi': ['mutual_info.weighted_mi'],
    'channel_capacity_normalization': ['mutual_info.channel_capacity_normalization', 'mutual_info.mi_matrix',
                                       'mutual_info.weighted_mi'],
    'kl_divergence': ['entropy.kl_divergence', 'entropy.js_divergence', 'entropy.relative_entropy_msm'],
    'assign_to_nearest_center': ['cluster.assign_to_nearest_center', 'cluster.kmedoids', 'cluster.hybrid',
                                 'cluster.kcenters'],
    'RaggedArray.__setitem__': ['ra.setitem'],
    '_hamming': ['libdist.hamming', 'libdist.with_out'],
    '_manhattan': ['libdist.manhattan', 'libdist.with_out', 'cluster.kcenters'],
    '_euclidean': ['libdist.euclidean', 'libdist.with_out', 'cluster.kcenters', 'cluster.kmedoids',
                   'cluster.assign_to_nearest_center', 'cluster.hybrid'],
    'matrix_bincount2d': ['libinfo.matrix_bincount2d', 'mutual_info.joint_counts', 'mutual_info.mi_matrix'],
    'bincount2d': ['libinfo.bincount2d'],
}

# (f) documented in-place behaviour: routine -> {argument position or keyword: documentation}
INPLACE = {
    'libdist.with_out': {3: 'libdist.pyx docstrings of euclidean/manhattan/hamming: "out: If provided, the array '
                            'to place the distances in"'},
    'ra.setitem': {0: 'RaggedArray.__setitem__ (ra.py): Python item assignment mutates the receiver by definition'},
    'ra.append': {0: 'RaggedArray.append (ra.py): list-style append mutates the receiver ("update variables")'},
}

# worker-count sweeps: routine -> (keyword, values)
WORKERS = {'load.concatenate_trjs': ('n_procs', [1, 3])}

_RESOLVED = {}


def resolve(name):
    if name not in _RESOLVED:
        target = ROUTINES[name][0]
        if isinstance(target, str):
            import importlib
            mod, attr = target.rsplit('.', 1)
            target = getattr(importlib.import_module(mod), attr)
        _RESOLVED[name] = target
    return _RESOLVED[name]


# --------------------------------------------------------------------------------------
# argument generators: name -> f(rng, big) -> list of (label, args, kwargs)   (encoded)
# --------------------------------------------------------------------------------------

def _prob_vec(rng, n, zero_frac):
    p = rng.random(n) + 0.05
    z = rng.random(n) < zero_frac
    if z.all():
        z[int(rng.integers(0, n))] = False
    p[z] = 0.0
    return p / p.sum()


def _stoch(rng, n, zero_frac=0.3):
    """row-stochastic, irreducible (a cycle is always present)"""
    T = rng.random((n, n))
    T[rng.random((n, n)) < zero_frac] = 0.0
    for i in range(n):
        T[i, (i + 1) % n] += 0.2
        T[i, i] += 0.1
    return T / T.sum(axis=1, keepdims=True)


def _counts(rng, n, zero_rows=0, hi=20):
    C = rng.integers(0, hi, size=(n, n))
    C[rng.random((n, n)) < 0.3] = 0
    for i in range(n):
        C[i, (i + 1) % n] += 1
    for r in rng.permutation(n)[:zero_rows]:
        C[r, :] = 0
    return C


def _sizes(rng, big):
    """a small, a medium and (cache-bypassing) large size"""
    return [int(rng.integers(2, 8)), int(rng.integers(8, 100)), int(rng.integers(130, 600 if not big else 3000))]


def g_shannon(rng, big):
    out = []
    for n in _sizes(rng, big):
        out.append(('zeros-1d', [N(_prob_vec(rng, n, 0.4))], {'normalize': False}))
        out.append(('dense-1d', [N(_prob_vec(rng, n, 0.0))], {'normalize': False}))
    r, c = int(rng.integers(2, 9)), int(rng.integers(2, 9))
    out.append(('zeros-2d-normalize', [N((rng.random((r, c)) + .1) * (rng.random((r, c)) < 0.6))], {'normalize': True}))
    cnt = rng.integers(0, 5, size=int(rng.integers(3, 40)))
    cnt[0] = 3
    out.append(('int-counts-normalize', [N(cnt)], {}))
    out.append(('design-witness', [N([.5, .5, 0., 0.])], {'normalize': False}))
    out.append(('one-hot', [N(np.eye(1, int(rng.integers(2, 30)), int(rng.integers(0, 2)))[0])], {'normalize': False}))
    out.append(('single', [N([1.0])], {}))
    return out


def g_kl(rng, big):
    out = []
    for n in _sizes(rng, big)[:2]:
        P, Q = _prob_vec(rng, n, 0.3), _prob_vec(rng, n, 0.0)
        out.append(('1d-zeros-in-P', [N(P), N(Q)], {}))
        Q2 = _prob_vec(rng, n, 0.0)
        Q2[P == 0] = 0
        out.append(('1d-zeros-in-both', [N(P), N(Q2 / Q2.sum())], {'base': float(np.e)}))
    r, n = int(rng.integers(2, 6)), int(rng.integers(2, 12))
    out.append(('2d-rows', [N(np.array([_prob_vec(rng, n, 0.3) for _ in range(r)])),
                            N(np.array([_prob_vec(rng, n, 0.0) for _ in range(r)]))], {'base': 10}))
    out.append(('lists', [_prob_vec(rng, 4, 0.3).tolist(), _prob_vec(rng, 4, 0.0).tolist()], {}))
    return out


def g_js(rng, big):
    n = int(rng.integers(2, 30))
    return [('zeros', [N(_prob_vec(rng, n, 0.3)), N(_prob_vec(rng, n, 0.3))], {}),
            ('dense', [N(_prob_vec(rng, n, 0)), N(_prob_vec(rng, n, 0))], {}),
            ('2d', [N(np.array([_prob_vec(rng, 5, 0.3) for _ in range(3)])),
                    N(np.array([_prob_vec(rng, 5, 0.3) for _ in range(3)]))], {})]


def g_relent(rng, big):
    out = []
    for n in (int(rng.integers(2, 5)), int(rng.integers(5, 12))):
        P, Q = _stoch(rng, n), _stoch(rng, n, 0.0)
        out.append(('P-with-zeros', [N(P)], {'Q': N(Q)}))
        out.append(('subset-base-e', [N(P)], {'Q': N(Q), 'state_subset': N(np.arange(0, n, 2)), 'base': float(np.e)}))
    out.append(('given-populations', [N(P)], {'Q': N(Q), 'populations': N(_prob_vec(rng, n, 0))}))
    a = _assigns(rng, 3, 40, n, True)
    out.append(('Q-from-assignments', [N(P)], {'assignments': a, 'lag_time': 2, 'prior_counts': 0.25}))
    out.append(('Q-from-assignments-transpose', [N(P)],
                {'assignments': a, 'builder': FN('enspara.msm.builders.transpose')}))
    return out


def g_qfa(rng, big):
    out = []
    for _ in range(2):
        n = int(rng.integers(2, 6))
        out.append(('default', [_assigns(rng, 3, 30, n, True)], {}))
        out.append(('lag-builder-prior', [_assigns(rng, 3, 30, n, False)],
                    {'n_states': n + 1, 'lag_time': 2, 'builder': FN('enspara.msm.builders.transpose'),
                     'prior_counts': 0.5}))
    return out


def g_reps(rng, big):
    out = []
    for n in (2, int(rng.integers(3, 8))):
        P, Q = _stoch(rng, n), _stoch(rng, n, 0.0)
        out.append(('weights-scalar', [N(P)], {'Q': N(Q)}))
        out.append(('weights-vector-subset-base', [N(P)], {'Q': N(Q), 'weights': N(_prob_vec(rng, n, 0)[:(n + 1) // 2]),
                                                           'state_subset': N(np.arange(0, n, 2)), 'base': 10.0}))
    return out


def g_e2p(rng, big):
    return [('default', [N(rng.normal(size=int(rng.integers(1, 30))))], {}),
            ('kT', [N(rng.normal(size=int(rng.integers(1, 30))) * 5)], {'kT': 0.6}),
            ('int-energies', [N(rng.integers(-5, 5, size=7))], {'kT': 1.0})]


def g_mi_serial(rng, big):
    out = []
    for _ in range(2):
        F, n, ntraj = int(rng.integers(1, 4)), int(rng.integers(2, 4)), int(rng.integers(1, 3))
        Xs = [_states(rng, int(rng.integers(2, 30)), F, n) for _ in range(ntraj)]
        out.append(('self', [Xs, Xs, [n] * F, [n] * F], {'normalize': bool(rng.integers(0, 2))}))
    return out


def g_deconv(rng, big):
    return [('sym-%d' % n, [N(_sym_mi(rng, n) / (2.0 * n))], {}) for n in (1, 3, int(rng.integers(4, 9)))]


def g_partition(rng, big):
    out = []
    for L in ([3, 3], [2, 5, 1], [4]):
        n = sum(L)
        f = {'center_indices': [int(x) for x in rng.integers(0, n, size=2)], 'distances': N(rng.random(n)),
             'assignments': N(rng.integers(0, 2, size=n)), 'centers': [N(rng.random(2)), N(rng.random(2))]}
        out.append(('lengths-%s' % '-'.join(map(str, L)), [f, L], {}))
    return out


def g_ra_zeros(rng, big):
    return [('ragged', [RA(_ragged_rows(rng))], {}), ('float', [RA(_ragged_rows(rng), 'float64')], {}),
            ('ndarray', [N(rng.random((2, 3)))], {})]


def _jc(rng, f, s, empty_frac, dt):
    jc = rng.integers(0, 6, size=(f, f, s, s))
    jc[rng.random((f, f, s, s)) < 0.3] = 0
    e = rng.random((f, f)) < empty_frac
    jc[e] = 0
    return N(jc, dt)


def g_mi(rng, big):
    out = []
    for f, s in ((1, 2), (int(rng.integers(2, 5)), int(rng.integers(2, 5))), (int(rng.integers(4, 8)), int(rng.integers(3, 7)))):
        out.append(('empty-blocks', [_jc(rng, f, s, 0.4, 'uint32')], {}))
        out.append(('full', [_jc(rng, f, s, 0.0, 'int64')], {}))
    out.append(('all-empty', [N(np.zeros((2, 2, 3, 3), dtype='uint32'))], {}))
    out.append(('float-counts', [_jc(rng, 3, 3, 0.3, 'float64')], {}))
    one = np.zeros((2, 2, 2, 2), dtype='uint32')
    one[0, 0] = [[3, 1], [0, 2]]
    out.append(('one-block-only', [N(one)], {}))
    out.append(('2d-rejected', [N(np.ones((3, 3)))], {}))
    return out


def _states(rng, T, F, n, dt='int64'):
    a = rng.integers(0, n, size=(T, F))
    a[0, :] = n - 1
    return N(a, dt)


def g_joint_counts(rng, big):
    out = []
    T = int(rng.integers(1, 60 if not big else 3000))
    F, n = int(rng.integers(1, 5)), int(rng.integers(2, 5))
    out.append(('X-only', [_states(rng, T, F, n)], {}))
    out.append(('X-Y', [_states(rng, T, F, n, 'int32'), _states(rng, T, F + 1, n + 1, 'int32')], {'n_x': n, 'n_y': n + 1}))
    out.append(('spare-states', [_states(rng, T, F, n, 'uint8'), _states(rng, T, F, n, 'uint8')], {'n_x': n + 2, 'n_y': n + 3}))
    out.append(('mixed-dtypes', [_states(rng, T, F, n, 'int16'), _states(rng, T, F, n, 'int64')], {}))
    out.append(('1d', [N(rng.integers(0, n, size=T + 1))], {}))
    out.append(('many-features', [_states(rng, 40, 9, 3)], {}))
    out.append(('long-trajectory', [RINT(int(rng.integers(0, 2 ** 31)), (int(rng.integers(3000, 9000)), 6), 0, 4, 'int32')],
                {'n_x': 4}))
    return out


def g_mi_matrix(rng, big):
    out = []
    for _ in range(3):
        ntraj, F, n = int(rng.integers(1, 4)), int(rng.integers(1, 5)), int(rng.integers(2, 5))
        Xs = [_states(rng, int(rng.integers(1, 50)), F, n) for _ in range(ntraj)]
        out.append(('self', [Xs, Xs, n, n], {'normalize': bool(rng.integers(0, 2))}))
    # a state count larger than what is observed: empty rows / columns of every joint-count block
    Xs = [_states(rng, 20, 3, 2)]
    out.append(('unobserved-states', [Xs, Xs, N([4, 4, 4]), N([4, 4, 4])], {}))
    out.append(('per-feature-state-counts-differ', [Xs, Xs, N([2, 3, 4]), N([4, 2, 3])], {}))
    out.append(('state-counts-as-lists', [Xs, Xs, [2, 2, 3], [3, 2, 2]], {'normalize': True}))
    return out


def g_weighted_mi(rng, big):
    out = []
    for _ in range(2):
        T, F, n = int(rng.integers(2, 40)), int(rng.integers(1, 5)), int(rng.integers(2, 4))
        feats = rng.integers(0, n, size=(T, F))
        feats[0, :] = n - 1
        w = rng.random(T)
        out.append(('dense-weights', [N(feats), N(w / w.sum())], {}))
        w2 = w * (rng.random(T) < 0.5)
        w2[0] = 1.0
        out.append(('zero-weights', [N(feats), N(w2)], {'normalize': False}))
        out.append(('spare-states', [N(feats), N(w / w.sum())], {'n_feature_states': N(np.full(F, n + 2))}))
        out.append(('per-feature-state-counts-differ', [N(feats), N(w / w.sum())],
                    {'n_feature_states': N(n + np.arange(F)), 'normalize': True}))
    onehot = np.zeros(T, dtype=int)
    onehot[0] = 1
    out.append(('integer-weights-sum-1', [N(feats), N(onehot)], {}))
    out.append(('integer-weights-unnormalised', [N(feats), N(rng.integers(0, 4, size=T) + onehot)], {}))
    out.append(('list-weights', [N(feats), (w / w.sum()).tolist()], {}))
    return out


def _sym_mi(rng, n):
    a = rng.random((n, n))
    a = (a + a.T) / 2
    a[np.diag_indices(n)] += 1.0
    return a


def g_ccn(rng, big):
    n = int(rng.integers(1, 7))
    m = rng.random((n, n + 1))
    return [('scalar-states', [N(m), int(rng.integers(2, 6)), int(rng.integers(2, 6))], {}),
            ('vector-states', [N(m), N(rng.integers(2, 7, size=n)), N(rng.integers(2, 7, size=n + 1))], {}),
            ('zeros-in-mi', [N(m * (rng.random(m.shape) < .5)), 2, 3], {}),
            ('one-state-rejected', [N(m), 1, 2], {})]


def g_nmi(rng, big):
    n = int(rng.integers(2, 8))
    m = _sym_mi(rng, n)
    return [('diag', [N(m)], {}),
            ('H-given', [N(m)], {'H_marginal': N(rng.random(n) + 1.0)}),
            ('zero-offdiag', [N(np.diag(rng.random(n) + .5))], {}),
            ('asymmetric-rejected', [N(rng.random((n, n)))], {})]


def g_nmi_apc(rng, big):
    n = int(rng.integers(2, 8))
    m = _sym_mi(rng, n)
    return [('diag', [N(m)], {}), ('H-given', [N(m)], {'H_marginal': N(rng.random(n) + 1.0)}),
            ('1x1', [N([[0.7]])], {})]


def g_apc(rng, big):
    return [('sym', [N(_sym_mi(rng, int(rng.integers(1, 9))))], {}) for _ in range(3)]


def g_bincount2d(rng, big):
    out = []
    for dt in ('int64', 'int32', 'uint8'):
        T, na, nb = int(rng.integers(0, 200)), int(rng.integers(1, 6)), int(rng.integers(1, 6))
        out.append((dt, [N(rng.integers(0, na, size=T), dt), N(rng.integers(0, nb, size=T), dt), na, nb], {}))
    return out


def g_mbincount(rng, big):
    out = []
    for dt in ('int64', 'int16', 'uint32'):
        T = int(rng.integers(1, 80 if not big else 4000))
        fa, fb, na, nb = (int(rng.integers(1, 6)) for _ in range(4))
        out.append((dt, [N(rng.integers(0, na, size=(T, fa)), dt), N(rng.integers(0, nb, size=(T, fb)), dt), na + 1, nb], {}))
    out.append(('out-of-range-rejected', [N([[0], [3]]), N([[0], [0]]), 2, 2], {}))
    out.append(('16-features', [N(rng.integers(0, 2, size=(30, 16))), N(rng.integers(0, 3, size=(30, 5))), 2, 3], {}))
    return out


def g_builder(rng, big):
    out = []
    n = int(rng.integers(2, 9))
    C = _counts(rng, n, zero_rows=1)
    out.append(('dense-int-zero-row', [N(C)], {}))
    out.append(('dense-float-prior', [N(C.astype(float))], {'prior_counts': 0.5}))
    out.append(('no-eq-probs', [N(_counts(rng, n))], {'calculate_eq_probs': False}))
    for fmt in ('csr_matrix', 'coo_matrix', 'lil_matrix', 'csr_array'):
        out.append((fmt, [SP(_counts(rng, n, zero_rows=int(rng.integers(0, 2))), fmt)], {}))
    out.append(('sparse-prior', [SP(_counts(rng, n), 'csr_matrix')], {'prior_counts': 1}))
    out.append(('asymmetric-prior-matrix', [N(C)], {'prior_counts': N(np.triu(rng.integers(0, 3, size=(n, n))) + 0.5)}))
    out.append(('sparse-asymmetric-prior-no-eq', [SP(C, 'csr_matrix')],
                {'prior_counts': N(np.tril(rng.integers(1, 3, size=(n, n)))), 'calculate_eq_probs': False}))
    out.append(('1x1', [N([[3]])], {}))
    out.append(('large', [N(_counts(rng, int(rng.integers(20, 40)), zero_rows=2))], {}))
    return out


def g_mle(rng, big):
    out = []
    for n in (2, 3, int(rng.integers(3, 6))):
        C = rng.integers(1, 12, size=(n, n))
        out.append(('dense-%d' % n, [N(C)], {}))
    out.append(('prior', [N(_counts(rng, 3))], {'prior_counts': 1}))
    out.append(('sparse', [SP(rng.integers(1, 9, size=(3, 3)), 'csr_matrix')], {}))
    out.append(('zero-row-rejected', [N(_counts(rng, 3, zero_rows=3))], {}))
    out.append(('no-eq-probs', [N(rng.integers(1, 9, size=(3, 3)))], {'calculate_eq_probs': False}))
    out.append(('asymmetric-prior-matrix', [N(_counts(rng, 3))], {'prior_counts': N(np.triu(np.ones((3, 3))) + 0.5)}))
    return out


def g_prinz(rng, big):
    return [('dense-%d' % n, [N(rng.integers(1, 12, size=(n, n)).astype(float))], {}) for n in (2, 3, 5)] + \
           [('loose-tol', [N(rng.integers(1, 12, size=(3, 3)).astype(float))], {'tol': 1e-3}),
            ('max-iter-2', [N(rng.integers(1, 12, size=(4, 4)).astype(float))], {'max_iter': 2})]


def _assigns(rng, nrows, maxlen, nstates, pad):
    L = [int(rng.integers(1, maxlen + 1)) for _ in range(nrows)]
    rows = [rng.integers(0, nstates, size=l).tolist() for l in L]
    rows[0] = (rows[0] + [nstates - 1, 0])[:max(2, len(rows[0]))]
    if pad:
        a = -np.ones((nrows, max(len(r) for r in rows)), dtype=int)
        for i, r in enumerate(rows):
            a[i, :len(r)] = r
        return N(a)
    return RA(rows)


def g_a2c(rng, big):
    out = []
    for pad in (True, False):
        out.append(('padded' if pad else 'ragged',
                    [_assigns(rng, int(rng.integers(1, 6)), 30, int(rng.integers(1, 6)), pad)],
                    {'lag_time': int(rng.integers(1, 5)), 'sliding_window': bool(rng.integers(0, 2))}))
    out.append(('explicit-n', [_assigns(rng, 3, 20, 3, True)], {'lag_time': 1, 'max_n_states': 5}))
    out.append(('lag-longer-than-rows', [_assigns(rng, 2, 3, 2, True)], {'lag_time': 7, 'max_n_states': 2}))
    return out


def g_trim(rng, big):
    out = []
    n = int(rng.integers(2, 10))
    C = _counts(rng, n, zero_rows=int(rng.integers(0, 3)))
    C[:, 0] = 0
    out.append(('dense', [N(C)], {}))
    out.append(('threshold-2-no-renumber', [N(_counts(rng, n, hi=4))], {'threshold': 2, 'renumber_states': False}))
    out.append(('sparse-lil', [SP(C, 'lil_matrix')], {}))
    out.append(('sparse-csr', [SP(_counts(rng, n, zero_rows=1), 'csr_matrix')], {'renumber_states': False}))
    out.append(('two-components', [N(np.kron(np.eye(2, dtype=int), _counts(rng, 3)))], {}))
    return out


def g_eig(rng, big):
    out = []
    for n in (2, int(rng.integers(3, 7)), int(rng.integers(7, 30))):
        T = _stoch(rng, n)
        out.append(('dense-%d' % n, [N(T)], {}))
        out.append(('right-%d' % n, [N(T)], {'left': False, 'n_eigs': 2}))
    out.append(('sparse-csr', [SP(_stoch(rng, 6), 'csr_matrix')], {'n_eigs': 3}))
    out.append(('zero-row', [N(np.array([[.5, .5, 0], [0, 0, 0], [.2, .3, .5]]))], {}))
    return out


def g_eqp(rng, big):
    return [('dense-%d' % n, [N(_stoch(rng, n))], {}) for n in (2, int(rng.integers(3, 9)), 25)] + \
           [('sparse', [SP(_stoch(rng, 5), 'csr_matrix')], {}), ('identity', [N(np.eye(3))], {})]


def g_implied(rng, big):
    out = []
    for _ in range(3):
        a = _assigns(rng, int(rng.integers(2, 5)), 60, 3, True)
        out.append(('normalize', [a, [1, 2, int(rng.integers(3, 6))], FN('enspara.msm.builders.normalize')],
                    {'n_times': 2, 'trim': bool(rng.integers(0, 2))}))
    out.append(('transpose-strided-window', [a, N([2, 3]), FN('enspara.msm.builders.transpose')],
                {'sliding_window': False}))
    return out


def _src_snk(rng, n):
    perm = rng.permutation(n)
    a = int(rng.integers(1, max(2, n // 2)))
    b = int(rng.integers(1, max(2, n - a)))
    return [int(x) for x in perm[:a]], [int(x) for x in perm[a:a + b]]


def g_committors(rng, big):
    out = []
    for n in (3, int(rng.integers(4, 9)), int(rng.integers(9, 30))):
        T = _stoch(rng, n)
        so, si = _src_snk(rng, n)
        out.append(('dense-%d' % n, [N(T), so, si], {}))
    out.append(('scalar-ends', [N(_stoch(rng, 5)), 0, 4], {}))
    out.append(('sparse-csr', [SP(_stoch(rng, 6), 'csr_matrix'), [0], [5, 3]], {}))
    out.append(('sparse-lil', [SP(_stoch(rng, 6), 'lil_matrix'), [1, 0], [5]], {}))
    return out


def g_mfpts(rng, big):
    out = []
    for n in (2, int(rng.integers(3, 9)), int(rng.integers(9, 30))):
        T = _stoch(rng, n)
        out.append(('all-to-all-%d' % n, [N(T)], {}))
        out.append(('sinks-%d' % n, [N(T)], {'sinks': _src_snk(rng, n)[1], 'lagtime': 2.5}))
    T = _stoch(rng, 5)
    out.append(('populations-given', [N(T)], {'populations': N(_prob_vec(rng, 5, 0))}))
    out.append(('sparse', [SP(T, 'csr_matrix')], {'sinks': [0]}))
    return out


def g_flux(rng, big):
    out = []
    for n in (3, int(rng.integers(4, 9)), int(rng.integers(9, 25))):
        T = _stoch(rng, n)
        so, si = _src_snk(rng, n)
        out.append(('dense-%d' % n, [N(T), so, si], {}))
    T = _stoch(rng, 6)
    out.append(('populations-given', [N(T), [0], [5]], {'populations': N(_prob_vec(rng, 6, 0))}))
    out.append(('sparse-csr', [SP(T, 'csr_matrix'), [0, 1], [5]], {}))
    return out


def _netflux(rng, n):
    F = rng.random((n, n)) * (rng.random((n, n)) < 0.5)
    F = np.triu(F, 1)
    for i in range(n - 1):
        F[i, i + 1] += 0.05
    p = rng.permutation(n)
    return F[np.ix_(p, p)], int(p[0]), int(p[n - 1])


def g_paths(rng, big):
    out = []
    for n in (3, int(rng.integers(4, 9)), int(rng.integers(9, 20))):
        F, s, t = _netflux(rng, n)
        out.append(('subtract-%d' % n, [[s], [t], N(F)], {'num_paths': int(rng.integers(1, 6))}))
        out.append(('bottleneck-%d' % n, [[s], [t], N(F)], {'remove_path': 'bottleneck', 'num_paths': 3}))
    F, s, t = _netflux(rng, 6)
    out.append(('all-paths', [[s], [t], N(F)], {}))
    out.append(('ties', [[0], [3], N(np.array([[0, 1., 1., 0], [0, 0, 0, 1.], [0, 0, 0, 1.], [0, 0, 0, 0]]))], {}))
    F4 = np.array([[0, .5, .2, .1], [0, 0, .1, .4], [0, 0, 0, .3], [0, 0, 0, 0]])
    out.append(('unsorted-multi-ends', [[1, 0], [3, 2], N(F4)], {'num_paths': 3}))
    F, s_, t_ = _netflux(rng, 7)
    out.append(('flux-cutoff-half', [[s_], [t_], N(F)], {'flux_cutoff': 0.5}))
    out.append(('callable-remover', [[s_], [t_], N(F)],
                {'remove_path': FN('enspara.tpt.path._remove_bottleneck'), 'num_paths': 4}))
    out.append(('by-name-nd-ends', [], {'sources': N([s_]), 'sinks': N([t_]), 'net_flux': N(F), 'num_paths': 2}))
    return out


def g_top_path(rng, big):
    out = []
    for n in (2, int(rng.integers(3, 9)), int(rng.integers(9, 25))):
        F, s, t = _netflux(rng, n)
        out.append(('dag-%d' % n, [[s], [t], N(F)], {}))
    out.append(('unreachable', [[0], [2], N(np.array([[0, 1., 0], [0, 0, 0], [0, 0, 0]]))], {}))
    F4 = np.array([[0, .5, .2, .1], [0, 0, .1, .4], [0, 0, 0, .3], [0, 0, 0, 0]])
    out.append(('unsorted-multi-ends', [[1, 0], [3, 2], N(F4)], {}))
    out.append(('two-sinks', [0, [2, 3], N(np.array([[0, .5, .2, 0], [0, 0, .1, .4], [0, 0, 0, 0], [0, 0, 0, 0]]))], {}))
    return out


def g_net_paths(rng, big):
    out = []
    for n in (4, int(rng.integers(5, 12))):
        T = _stoch(rng, n)
        so, si = _src_snk(rng, n)
        out.append(('msm-%d' % n, [N(T), so[:1], si[:1]], {'num_paths': 3}))
    out.append(('sparse', [SP(_stoch(rng, 6), 'csr_matrix'), [0], [5]], {'num_paths': 2}))
    return out


def _points(rng, n, d, dt='float64'):
    if dt.startswith('float'):
        return N(rng.normal(size=(n, d)), dt)
    return N(rng.integers(-20, 20, size=(n, d)), dt)


def g_assign(rng, big):
    out = []
    for metric in ('euclidean', 'manhattan'):
        n, d, k = int(rng.integers(1, 60 if not big else 2000)), int(rng.integers(1, 6)), int(rng.integers(1, 6))
        X = _points(rng, n, d)
        ctr = decode(X)[rng.integers(0, n, size=k)]
        out.append((metric, [X, [N(c) for c in ctr], FN(LIBDIST + metric)], {}))
    out.append(('more-centers-than-frames', [_points(rng, 2, 3), [N(c) for c in rng.normal(size=(5, 3))], FN(LIBDIST + 'euclidean')], {}))
    X = _points(rng, 12, 2, 'int32')
    out.append(('int-ties', [X, [N(c) for c in decode(X)[[0, 0, 3]]], FN(LIBDIST + 'manhattan')], {}))
    return out


def g_find_centers(rng, big):
    out = []
    for _ in range(3):
        n, k = int(rng.integers(1, 80)), int(rng.integers(1, 6))
        a = rng.integers(0, k, size=n)
        out.append(('random', [N(a), N(np.round(rng.random(n), 1))], {}))
    out.append(('length-mismatch-rejected', [N([0, 1]), N([0.])], {}))
    return out


def g_kcenters(rng, big):
    out = []
    for metric in ('euclidean', 'manhattan'):
        n, d = int(rng.integers(2, 80 if not big else 3000)), int(rng.integers(1, 5))
        out.append((metric + '-n_clusters', [_points(rng, n, d), metric], {'n_clusters': int(rng.integers(1, 7))}))
        out.append((metric + '-cutoff-triangle', [_points(rng, n, d), metric],
                    {'dist_cutoff': 1.0, 'use_triangle_inequality': True}))
    X = _points(rng, 30, 2)
    out.append(('init-centers', [X, 'euclidean'], {'n_clusters': 4, 'init_centers': N(decode(X)[[3, 7]])}))
    out.append(('k-exceeds-n', [_points(rng, 3, 2), 'euclidean'], {'n_clusters': 6}))
    out.append(('n_clusters-and-cutoff', [_points(rng, 40, 2), 'euclidean'], {'n_clusters': 5, 'dist_cutoff': 0.8}))
    out.append(('callable-metric', [_points(rng, 20, 2), FN(LIBDIST + 'manhattan')], {'n_clusters': 3}))
    out.append(('int32-ties', [_points(rng, 25, 2, 'int32'), 'manhattan'], {'n_clusters': 4}))
    return out


def g_kmedoids(rng, big):
    out = []
    for _ in range(2):
        n, d, k = int(rng.integers(4, 70)), int(rng.integers(1, 4)), int(rng.integers(1, 4))
        out.append(('seeded', [_points(rng, n, d), 'euclidean'],
                    {'n_clusters': k, 'n_iters': int(rng.integers(1, 4)), 'random_state': int(rng.integers(0, 1000))}))
    X = _points(rng, 20, 2)
    ci = [int(x) for x in rng.permutation(20)[:3]]
    pr = [int(x) for x in rng.permutation(20)[:3]]
    out.append(('given-centers-proposals', [X, 'euclidean'],
                {'cluster_center_inds': ci, 'proposals': pr, 'n_iters': 2, 'random_state': 0}))
    out.append(('2d-center-inds-X_lengths', [_points(rng, 6, 2), 'euclidean'],
                {'cluster_center_inds': [[0, 1], [1, 0]], 'X_lengths': [3, 3], 'n_iters': 1, 'random_state': 3}))
    out.append(('zero-iterations-rejected', [X, 'euclidean'], {'n_clusters': 2, 'n_iters': 0, 'random_state': 1}))
    out.append(('design-witness-F17', [N(np.array([[0.], [1.], [2.], [10.], [11.], [12.]])), 'euclidean'],
                {'cluster_center_inds': [0, 3], 'proposals': [1, 4], 'n_iters': 1}))
    Xd = decode(X)
    dm = np.abs(Xd[:, None, :] - Xd[ci][None, :, :]).sum(axis=2)
    out.append(('from-assignments-manhattan', [X, 'manhattan'],
                {'assignments': N(dm.argmin(axis=1)), 'distances': N(dm.min(axis=1)), 'n_iters': 1,
                 'random_state': 5}))
    return out


def g_hybrid(rng, big):
    out = []
    for _ in range(3):
        n, d = int(rng.integers(4, 60)), int(rng.integers(1, 4))
        out.append(('seeded', [_points(rng, n, d), 'euclidean'],
                    {'n_clusters': int(rng.integers(1, 5)), 'n_iters': int(rng.integers(0, 3)),
                     'random_state': int(rng.integers(0, 100))}))
    X = _points(rng, 30, 2)
    out.append(('cutoff-init-centers', [X, 'manhattan'],
                {'dist_cutoff': 1.5, 'init_centers': N(decode(X)[[2, 9]]), 'n_iters': 1, 'random_state': 4}))
    return out


def g_dist(kind):
    def g(rng, big):
        out = []
        dts = ('int64', 'uint8', 'int16') if kind == 'hamming' else ('float64', 'float32', 'int32')
        for dt in dts:
            n, d = int(rng.integers(1, 90 if not big else 5000)), int(rng.integers(1, 8))
            if kind == 'hamming':
                X = N(rng.integers(0, 3, size=(n, d)), dt)
                y = N(rng.integers(0, 3, size=d), dt)
            else:
                X, y = _points(rng, n, d, dt), N(decode(_points(rng, 1, d, dt))[0])
            out.append((dt, [X, y], {}))
        # enough work per thread for the 7- and 16-thread teams to really overlap
        n, d = int(rng.integers(4000, 12000)), int(rng.integers(8, 24))
        sd = int(rng.integers(0, 2 ** 31))
        if kind == 'hamming':
            out.append(('large-n', [RINT(sd, (n, d), 0, 3, 'int64'), RINT(sd + 1, (d,), 0, 3, 'int64')], {}))
        else:
            out.append(('large-n', [RINT(sd, (n, d), -40, 41, 'float64'), RINT(sd + 1, (d,), -40, 41, 'float64')], {}))
        out.append(('no-rows', [N(np.zeros((0, 3)), dts[0]), N(np.zeros(3), dts[0])], {}))
        out.append(('dim-mismatch-rejected', [N(np.zeros((2, 3)), dts[0]), N(np.zeros(2), dts[0])], {}))
        return out
    return g


def g_dist_out(rng, big):
    out = []
    for kind in ('euclidean', 'manhattan', 'hamming'):
        for fill in (float('nan'), float('inf'), 7.0):
            n, d = int(rng.integers(1, 90)), int(rng.integers(1, 6))
            if kind == 'hamming':
                X, y = N(rng.integers(0, 3, size=(n, d))), N(rng.integers(0, 3, size=d))
            else:
                X, y = _points(rng, n, d), N(rng.normal(size=d))
            out.append(('%s-out-%s' % (kind, fill), [FN(LIBDIST + kind), X, y, N(np.full(n, fill))], {}))
    out.append(('out-wrong-length-rejected', [FN(LIBDIST + 'euclidean'), _points(rng, 3, 2), N([0., 0.]), N(np.zeros(4))], {}))
    return out


def _ragged_rows(rng, nrows=None, maxlen=8, lo=-9, hi=9, minlen=1):
    nrows = nrows or int(rng.integers(1, 6))
    return [rng.integers(lo, hi, size=int(rng.integers(minlen, maxlen + 1))).tolist() for _ in range(nrows)]


def g_ra_construct(rng, big):
    rows = _ragged_rows(rng)
    flat = [x for r in rows for x in r]
    return [('rows', [[N(r) for r in rows]], {}),
            ('flat+lengths', [N(flat)], {'lengths': N([len(r) for r in rows])}),
            ('equal-lengths', [N(rng.integers(0, 5, size=(3, 4)))], {}),
            ('flat+list-lengths', [N(flat)], {'lengths': [len(r) for r in rows]}),
            ('lists', [rows], {})]


def g_ra_binop(rng, big):
    out = []
    rows = _ragged_rows(rng, lo=1)
    other = [rng.integers(1, 9, size=len(r)).tolist() for r in rows]
    ops = ['__add__', '__sub__', '__mul__', '__truediv__', '__floordiv__', '__mod__', '__pow__', '__radd__',
           '__rsub__', '__rtruediv__', '__lt__', '__ge__', '__eq__', '__ne__', '__and__', '__or__', '__xor__']
    for op in rng.permutation(ops)[:7]:
        op = str(op)
        out.append((op + '-ra', [RA(rows), op, RA(other)], {}))
        out.append((op + '-scalar', [RA(rows), op, int(rng.integers(1, 5))], {}))
    out.append(('float-div', [RA(rows, 'float64'), '__truediv__', 2.0], {}))
    return out


def g_ra_unop(rng, big):
    rows = _ragged_rows(rng)
    return [('invert-int', [RA(rows), '__invert__'], {}),
            ('invert-bool', [RA([[bool(x > 0) for x in r] for r in rows], 'bool'), '__invert__'], {}),
            ('flatten', [RA(rows), 'flatten'], {}), ('max', [RA(rows), 'max'], {}), ('any', [RA(rows), 'any'], {})]


def g_ra_getitem(rng, big):
    out = []
    rows = _ragged_rows(rng, nrows=int(rng.integers(2, 6)), minlen=2)
    n = len(rows)
    out.append(('int', [RA(rows), int(rng.integers(-n, n))], {}))
    out.append(('slice', [RA(rows), SL(0, n, 2)], {}))
    out.append(('list', [RA(rows), [0, n - 1]], {}))
    out.append(('tuple-int-int', [RA(rows), TUP(1, 0)], {}))
    out.append(('tuple-slice-slice', [RA(rows), TUP(SL(0, n), SL(0, 2))], {}))
    out.append(('tuple-slice-int', [RA(rows), TUP(SL(None, None), 1)], {}))
    out.append(('tuple-list-list', [RA(rows), TUP([0, 1], [1, 0])], {}))
    out.append(('tuple-nd-neg', [RA(rows), TUP(N([0, -1]), N([-1, -2]))], {}))
    out.append(('tuple-list-slice', [RA(rows), TUP([0, 1], SL(1, None))], {}))
    out.append(('bool-mask', [RA(rows), RA([[bool(x > 0) for x in r] for r in rows], 'bool')], {}))
    return out


def g_ra_setitem(rng, big):
    out = []
    rows = _ragged_rows(rng, nrows=int(rng.integers(2, 6)), minlen=2)
    n = len(rows)
    out.append(('int-row', [RA(rows), 0, N(rng.integers(0, 5, size=len(rows[0])))], {}))
    out.append(('tuple-int-int', [RA(rows), TUP(1, 0), 42], {}))
    out.append(('tuple-slice-slice', [RA(rows), TUP(SL(0, n), SL(0, 2)), 7], {}))
    out.append(('tuple-lists', [RA(rows), TUP([0, 1], [1, 0]), N([5, 6])], {}))
    out.append(('bool-mask', [RA(rows), RA([[bool(x > 0) for x in r] for r in rows], 'bool'), 0], {}))
    out.append(('slice-rows-equal-length', [RA(rows), SL(0, 2), N(rng.integers(0, 5, size=(2, 3)))], {}))
    return out


def g_ra_append(rng, big):
    rows = _ragged_rows(rng)
    return [('rows', [RA(rows), [N(r) for r in _ragged_rows(rng, nrows=2)]], {}),
            ('ra', [RA(rows), RA(_ragged_rows(rng, nrows=2))], {}),
            ('single-row', [RA(rows), [N([1, 2, 3])]], {})]


def g_ra_where(rng, big):
    rows = _ragged_rows(rng)
    return [('ragged-bool', [RA([[bool(x > 0) for x in r] for r in rows], 'bool')], {}),
            ('ragged-int', [RA(rows)], {}),
            ('ndarray', [N(rng.integers(0, 2, size=(3, 4)))], {})]


def g_plist(rng, big):
    out = []
    for _ in range(3):
        L = [int(rng.integers(0, 6)) for _ in range(int(rng.integers(1, 6)))]
        out.append(('ok', [N(rng.integers(0, 9, size=sum(L))), N(L)], {}))
    out.append(('sum-mismatch-rejected', [N([1, 2, 3]), N([1, 1])], {}))
    return out


def g_pidx(rng, big):
    out = []
    for _ in range(3):
        L = [int(rng.integers(1, 6)) for _ in range(int(rng.integers(1, 6)))]
        out.append(('ok', [rng.integers(0, sum(L), size=int(rng.integers(0, 6))).tolist(), L], {}))
    return out


def g_concat_trjs(rng, big):
    out = []
    for _ in range(2):
        na = int(rng.integers(1, 5))
        trjs = []
        for _ in range(int(rng.integers(1, 4))):
            nf = int(rng.integers(1, 6))
            trjs.append({'t': 'trj', 'n_atoms': na, 'shape': [nf, na, 3],
                         'v': np.round(rng.normal(size=nf * na * 3), 3).tolist()})
        out.append(('in-memory', [trjs], {'n_procs': 2}))
    out.append(('atom-selection', [trjs], {'atoms': 'index 0', 'n_procs': 2}))
    return out


GENS = {
    'entropy.Q_from_assignments': g_qfa, 'entropy.relative_entropy_per_state': g_reps,
    'entropy.energy_to_probability': g_e2p, 'mutual_info.mi_matrix_serial': g_mi_serial,
    'mutual_info.deconvolute_network': g_deconv, 'cluster.ClusterResult.partition': g_partition,
    'ra.zeros_like': g_ra_zeros,
    'entropy.shannon_entropy': g_shannon, 'entropy.kl_divergence': g_kl, 'entropy.js_divergence': g_js,
    'entropy.relative_entropy_msm': g_relent, 'mutual_info.mutual_information': g_mi,
    'mutual_info.joint_counts': g_joint_counts, 'mutual_info.mi_matrix': g_mi_matrix,
    'mutual_info.weighted_mi': g_weighted_mi, 'mutual_info.channel_capacity_normalization': g_ccn,
    'mutual_info.mi_to_nmi': g_nmi, 'mutual_info.mi_to_apc': g_apc, 'mutual_info.mi_to_nmi_apc': g_nmi_apc,
    'libinfo.bincount2d': g_bincount2d, 'libinfo.matrix_bincount2d': g_mbincount,
    'builders.normalize': g_builder, 'builders.transpose': g_builder, 'builders.mle': g_mle,
    'builders._prinz_mle': g_prinz, 'msm.assigns_to_counts': g_a2c, 'msm.trim_disconnected': g_trim,
    'msm.eigenspectrum': g_eig, 'msm.eq_probs': g_eqp, 'msm.implied_timescales': g_implied,
    'tpt.committors': g_committors, 'tpt.mfpts': g_mfpts, 'tpt.reactive_fluxes': g_flux,
    'tpt.net_fluxes': g_flux, 'tpt.reactive_populations': g_flux, 'tpt.paths': g_paths,
    'tpt.top_path': g_top_path, 'tpt.net_fluxes+paths': g_net_paths,
    'cluster.assign_to_nearest_center': g_assign, 'cluster.find_cluster_centers': g_find_centers,
    'cluster.kcenters': g_kcenters, 'cluster.kmedoids': g_kmedoids, 'cluster.hybrid': g_hybrid,
    'libdist.euclidean': g_dist('euclidean'), 'libdist.manhattan': g_dist('manhattan'),
    'libdist.hamming': g_dist('hamming'), 'libdist.with_out': g_dist_out,
    'ra.construct': g_ra_construct, 'ra.binop': g_ra_binop, 'ra.unop': g_ra_unop, 'ra.getitem': g_ra_getitem,
    'ra.setitem': g_ra_setitem, 'ra.append': g_ra_append, 'ra.where': g_ra_where,
    'ra.partition_list': g_plist, 'ra.partition_indices': g_pidx, 'load.concatenate_trjs': g_concat_trjs,
}


# --------------------------------------------------------------------------------------
# perturbations
# --------------------------------------------------------------------------------------

POISONS = {'nan': float('nan'), 'inf': float('inf'), 'one': 1.0}
THREADS = [1, 2, 7, 16]
_CTL = {}


def _controller():
    if 'ctl' not in _CTL:
        _quiet_openmp()
        import logging
        import threadpoolctl
        logging.disable(logging.WARNING)    # enspara logs a line per call
        resolve('libdist.euclidean')        # make sure libgomp is loaded before the libraries are enumerated
        _CTL['ctl'] = threadpoolctl.ThreadpoolController()
    return _CTL['ctl']


def poison_heap(val, reps=16):
    """Heap history: allocate and free blocks filled with `val` (bit pattern repeated over the whole block)
    for every small-cache bucket (numpy caches freed data blocks < 1024 bytes by exact byte size, 7 per size;
    glibc's tcache/bins keep the next ones) and for 1024..8192-byte blocks (glibc bins)."""
    js = []
    for nbytes in range(8, 1024, 8):                     # 1 .. 127 doubles
        js.extend([np.full(nbytes // 8, val) for _ in range(reps)])
    if reps < 16:                                        # quick tier: double-sized buckets only
        del js
        js = [np.full(n, val) for n in range(128, 1025, 16) for _ in range(2)]
        del js
        return
    pat4 = np.frombuffer(np.float64(val).tobytes(), dtype=np.uint32)[1]
    for nbytes in range(4, 1024, 8):                     # float32 / int32 sized blocks
        js.extend([np.full(nbytes // 4, pat4, dtype=np.uint32) for _ in range(max(2, reps // 4))])
    pat1 = np.frombuffer(np.float64(val).tobytes(), dtype=np.uint8)[7]
    for nbytes in list(range(1, 64)) + list(range(66, 256, 8)):   # bool / int8 / int16 sized blocks
        js.extend([np.full(nbytes, pat1, dtype=np.uint8) for _ in range(max(2, reps // 4))])
    del js
    js = []
    for n in range(128, 1025, 4 if reps >= 32 else 8):   # malloc-served: 128 .. 1024 doubles
        js.extend([np.full(n, val) for _ in range(3)])
    del js


# ---- poisoning allocator (NEP 49 data-memory handler) ----------------------------------
# Heap *histories* cannot reach a buffer that numpy's LIFO block cache refills from the routine's own
# freed temporaries (measured: `np.empty(n)` right after a same-size temporary died gets that block
# back, whatever was freed earlier).  A data-memory handler whose malloc fills every new block with a
# chosen 64-bit pattern perturbs *every* uninitialised numpy buffer deterministically; calloc
# (np.zeros) stays zero.  Compiled once into /verif/.cache (0.2 s).

_ALLOC_C = r'''
#define NPY_NO_DEPRECATED_API NPY_1_22_API_VERSION
#define NPY_TARGET_VERSION NPY_1_22_API_VERSION
#include <Python.h>
#include <numpy/arrayobject.h>
#include <stdlib.h>
#include <string.h>
#include <stdint.h>

static uint64_t pattern = 0xFFFFFFFFFFFFFFFFULL;
static unsigned long long n_malloc = 0;

static void *p_malloc(void *ctx, size_t size) {
    size_t i, n8 = size / 8;
    unsigned char *p = (unsigned char *)malloc(size ? size : 1);
    if (p == NULL) return NULL;
    for (i = 0; i < n8; i++) ((uint64_t *)p)[i] = pattern;
    if (size % 8) memcpy(p + 8 * n8, &pattern, size % 8);
    n_malloc++;
    return p;
}
static void *p_calloc(void *ctx, size_t nelem, size_t elsize) {
    return calloc(nelem ? nelem : 1, elsize ? elsize : 1);
}
static void *p_realloc(void *ctx, void *ptr, size_t new_size) {
    return realloc(ptr, new_size ? new_size : 1);
}
static void p_free(void *ctx, void *ptr, size_t size) { free(ptr); }

static PyDataMem_Handler handler = {"c19_poison", 1, {NULL, p_malloc, p_calloc, p_realloc, p_free}};
static PyObject *old_handler = NULL;

static PyObject *install(PyObject *self, PyObject *args) {
    unsigned long long pat;
    PyObject *capsule, *prev;
    if (!PyArg_ParseTuple(args, "K", &pat)) return NULL;
    pattern = (uint64_t)pat;
    capsule = PyCapsule_New(&handler, "mem_handler", NULL);
    if (capsule == NULL) return NULL;
    prev = PyDataMem_SetHandler(capsule);
    Py_DECREF(capsule);
    if (prev == NULL) return NULL;
    if (old_handler == NULL) old_handler = prev; else Py_DECREF(prev);
    Py_RETURN_NONE;
}
static PyObject *uninstall(PyObject *self, PyObject *args) {
    if (old_handler != NULL) {
        PyObject *prev = PyDataMem_SetHandler(old_handler);
        Py_XDECREF(prev);
        Py_DECREF(old_handler);
        old_handler = NULL;
        if (prev == NULL) return NULL;
    }
    Py_RETURN_NONE;
}
static PyObject *count(PyObject *self, PyObject *args) { return PyLong_FromUnsignedLongLong(n_malloc); }

static PyMethodDef methods[] = {
    {"install", install, METH_VARARGS, "route numpy data allocations through a malloc that fills blocks with a 64-bit pattern"},
    {"uninstall", uninstall, METH_NOARGS, "restore the previous handler"},
    {"count", count, METH_NOARGS, "number of poisoned allocations so far"},
    {NULL, NULL, 0, NULL}};
static struct PyModuleDef mod = {PyModuleDef_HEAD_INIT, "c19alloc", NULL, -1, methods};
PyMODINIT_FUNC PyInit_c19alloc(void) {
    import_array();
    return PyModule_Create(&mod);
}
'''

ALLOC_PATTERNS = {'nan': 0xFFFFFFFFFFFFFFFF, 'inf': 0x7FF0000000000000, 'one': 0x3FF0000000000000,
                  'aa': 0xAAAAAAAAAAAAAAAA}
_ALLOC = {}


def poison_allocator():
    """the compiled handler module, or None when it cannot be built here"""
    if 'mod' in _ALLOC:
        return _ALLOC['mod']
    _ALLOC['mod'] = None
    try:
        import importlib.util
        import sysconfig
        key = hashlib.sha256((_ALLOC_C + sys.version + np.__version__).encode()).hexdigest()[:16]
        cdir = os.path.join(os.path.dirname(os.path.dirname(os.path.dirname(os.path.abspath(__file__)))),
                            '.cache', 'c19alloc', key)
        so = os.path.join(cdir, 'c19alloc' + sysconfig.get_config_var('EXT_SUFFIX'))
        if not os.path.exists(so):
            os.makedirs(cdir, exist_ok=True)
            src = os.path.join(cdir, 'c19alloc.%d.c' % os.getpid())
            with open(src, 'w') as f:
                f.write(_ALLOC_C)
            tmp = so + '.tmp%d' % os.getpid()
            r = subprocess.run(['gcc', '-O2', '-fPIC', '-shared', '-w', '-I' + sysconfig.get_paths()['include'],
                                '-I' + np.get_include(), src, '-o', tmp], capture_output=True, text=True)
            os.unlink(src)
            if r.returncode != 0:
                _ALLOC['error'] = r.stderr[-500:]
                return None
            os.replace(tmp, so)
        spec = importlib.util.spec_from_file_location('c19alloc', so)
        mod = importlib.util.module_from_spec(spec)
        spec.loader.exec_module(mod)
        _ALLOC['mod'] = mod
    except Exception as e:  # noqa
        _ALLOC['error'] = repr(e)
    return _ALLOC['mod']


def call_once(routine, args, kwargs, pre=None, threads=None, alloc=None):
    """decode fresh arguments, snapshot, perturb, call, snapshot.  Returns (outcome, before, after)."""
    fn = resolve(routine)
    with warnings.catch_warnings(), np.errstate(all='ignore'):
        warnings.simplefilter('ignore')          # e.g. a float32 presentation of 1e300
        a = decode(args)
        kw = decode(kwargs)
    before = {'args': [snap(x) for x in a], 'kwargs': {k: snap(v) for k, v in kw.items()}}
    with warnings.catch_warnings(), np.errstate(all='ignore'):
        warnings.simplefilter('ignore')
        try:
            if pre is not None:
                pre()
            if alloc is not None:
                poison_allocator().install(ALLOC_PATTERNS[alloc])
            try:
                if threads is not None:
                    with _controller().limit(limits=threads, user_api='openmp'):
                        res = fn(*a, **kw)
                else:
                    res = fn(*a, **kw)
            finally:
                if alloc is not None:
                    poison_allocator().uninstall()
            out = {'ok': canon_res(res)}
        except Exception as e:  # noqa
            out = {'error': type(e).__name__}
    after = {'args': [snap(x) for x in a], 'kwargs': {k: snap(v) for k, v in kw.items()}}
    return out, before, after


def _short(out):
    if 'error' in out:
        return out
    return {'ok': _decode_canon(out['ok']), 'sha1': digest(out['ok'])}


def light_perturbations(routine):
    ps = [{'kind': 'repeat'}, {'kind': 'heap', 'fill': 'nan'}]
    if ROUTINES[routine][1]:
        ps += [{'kind': 'threads', 'n': 1}, {'kind': 'threads', 'n': 16}]
    if poison_allocator() is not None:
        ps += [{'kind': 'alloc', 'fill': 'nan'}, {'kind': 'alloc', 'fill': 'one'}]
    return ps


def perturbation_list(ctx_thorough, routine):
    if routine in WORKERS:       # every call forks a process pool (about 1 s here)
        kw, vals = WORKERS[routine]
        ps = [{'kind': 'repeat'}] + [{'kind': 'workers', 'kw': kw, 'n': v} for v in vals]
        if ctx_thorough:
            ps += [{'kind': 'heap', 'fill': 'nan'}] + ([{'kind': 'alloc', 'fill': 'nan'}] if poison_allocator() else [])
        return ps
    ps = [{'kind': 'repeat'}]
    ps += [{'kind': 'threads', 'n': k} for k in THREADS]
    ps += [{'kind': 'heap', 'fill': k} for k in POISONS]
    if poison_allocator() is not None:
        ps += [{'kind': 'alloc', 'fill': k} for k in ALLOC_PATTERNS]
    if routine in WORKERS:
        kw, vals = WORKERS[routine]
        ps += [{'kind': 'workers', 'kw': kw, 'n': v} for v in vals]
    return ps


def run_perturbed(routine, args, kwargs, p, reps=16):
    if p['kind'] == 'repeat':
        return call_once(routine, args, kwargs)
    if p['kind'] == 'threads':
        return call_once(routine, args, kwargs, threads=p['n'])
    if p['kind'] == 'heap':
        val = POISONS[p['fill']]
        return call_once(routine, args, kwargs, pre=lambda: poison_heap(val, reps))
    if p['kind'] == 'alloc':
        return call_once(routine, args, kwargs, alloc=p['fill'])
    if p['kind'] == 'workers':
        kw = dict(kwargs)
        kw[p['kw']] = p['n']
        return call_once(routine, args, kw)
    raise ValueError(p)


def check_argset(ctx, routine, label, args, kwargs, reps=16, perturbations=None):
    """All in-process perturbations of one (routine, argument set).  Returns the baseline outcome."""
    case = {'routine': routine, 'label': label, 'args': args, 'kwargs': kwargs}
    base, before, after = call_once(routine, args, kwargs)
    _outcome(routine, base)
    _ran(ctx, routine, 'argument-snapshot')
    ctx.case({'routine': routine, 'args': args, 'kwargs': kwargs}, nontrivial='ok' in base,
             tags=[routine, 'outcome=' + ('value' if 'ok' in base else base['error'])] +
                  (['family=' + label.split(':', 1)[0]] if label.startswith(('variant', 'corner')) else []))
    # (f) arguments unchanged unless documented
    allowed = set(INPLACE.get(routine, {}))
    try:
        import inspect
        names = [q.name for q in inspect.signature(resolve(routine)).parameters.values()]
        allowed |= {names[i] for i in list(allowed) if isinstance(i, int) and i < len(names)}
    except (TypeError, ValueError):
        pass
    for i, (b, a) in enumerate(zip(before['args'], after['args'])):
        if b != a and i not in allowed:
            ctx.violation('%s modified its argument #%d in place (not documented)' % (routine, i),
                          dict(case, perturbation={'kind': 'snapshot', 'arg': i},
                               before=_decode_canon(b), after=_decode_canon(a)))
            return base
    for k in before['kwargs']:
        if before['kwargs'][k] != after['kwargs'][k] and k not in allowed:
            ctx.violation('%s modified its argument %s= in place (not documented)' % (routine, k),
                          dict(case, perturbation={'kind': 'snapshot', 'arg': k},
                               before=_decode_canon(before['kwargs'][k]), after=_decode_canon(after['kwargs'][k])))
            return base
    # a caller-supplied output buffer is write-only: its previous content must not show in the result
    if routine == 'libdist.with_out' and 'ok' in base:
        pos = args if args else [kwargs[k] for k in ('fn', 'X', 'y', 'out')]
        kind = pos[0]['v'].rsplit('.', 1)[1]
        ref, _, _ = call_once('libdist.' + kind, pos[1:3], {})
        _ran(ctx, routine, 'out-content')
        if 'ok' not in ref or base['ok'][1] != ref['ok']:
            ctx.violation('libdist.%s(X, y, out=buf) depends on what buf held before the call' % kind,
                          dict(case, perturbation={'kind': 'out-content'}, baseline=_short(ref),
                               perturbed=_short({'ok': base['ok'][1]})))
            return base
    for p in (perturbations if perturbations is not None else perturbation_list(ctx.thorough, routine)):
        got, _, _ = run_perturbed(routine, args, kwargs, p, reps)
        _ran(ctx, routine, p['kind'])
        if got != base:
            ctx.violation('%s: result changed under perturbation %s (arguments identical)' % (routine, json.dumps(p)),
                          dict(case, perturbation=p, baseline=_short(base), perturbed=_short(got)))
            return base
    return base



# --------------------------------------------------------------------------------------
# compiled kernels at the shape extremes a performance fast path might key on
# --------------------------------------------------------------------------------------

KERNEL_THREADS = [1, 2, 4, 8, 16]


def kernel_extremes(rng, thorough):
    """(routine, label, args, kwargs) with integer-valued data: every partial sum is an exactly
    representable integer, so no summation order can change a bit of the correct result."""
    out = []
    many = 300000 if thorough else 60000
    sd = lambda: int(rng.integers(0, 2 ** 31))
    wide = [(n, w) for n in (1, 2, 3) for w in (4096, 20000)]
    narrow = [(many, 1), (many // 2, 2), (many // 3, 3)]
    for kind, lo, hi, dts in (('euclidean', -8, 9, ('float64', 'float32', 'int32')),
                              ('manhattan', -8, 9, ('float64', 'float32', 'int32')),
                              ('hamming', 0, 3, ('int64', 'uint8', 'int16'))):
        for i, (n, w) in enumerate(wide + narrow):
            dt = dts[i % len(dts)] if (n, w) != (3, 20000) else dts[0]
            tag = 'few-wide-rows' if n <= 3 else 'many-narrow-rows'
            out.append(('libdist.' + kind, '%s-%dx%d-%s' % (tag, n, w, dt),
                        [RINT(sd(), (n, w), lo, hi, dt), RINT(sd(), (w,), lo, hi, dt)], {}))
        # the same through a caller-supplied NaN buffer
        out.append(('libdist.with_out', '%s-few-wide-rows-out-nan' % kind,
                    [FN(LIBDIST + kind), RINT(sd(), (2, 4096), lo, hi, dts[0]), RINT(sd(), (4096,), lo, hi, dts[0]),
                     N(np.full(2, np.nan))], {}))
    # reached through the clustering code: a few centers in a flattened coordinate space
    out.append(('cluster.kcenters', 'few-wide-rows-3x4096', [RINT(sd(), (3, 4096), -8, 9), 'euclidean'], {'n_clusters': 2}))
    out.append(('cluster.assign_to_nearest_center', 'few-wide-rows-2x20000',
                [RINT(sd(), (2, 20000), -8, 9), [RINT(sd(), (20000,), -8, 9)], FN(LIBDIST + 'euclidean')], {}))
    # joint counts: few frames x many features, many frames x few features
    for T, F, n, dt in ((1, 160, 2, 'int64'), (2, 96, 3, 'int32'), (3, 64, 2, 'uint8'),
                        (many, 1, 3, 'int64'), (many // 2, 2, 2, 'int16')):
        tag = 'few-frames-many-features' if T <= 3 else 'many-frames-few-features'
        out.append(('libinfo.matrix_bincount2d', '%s-%dx%d-%s' % (tag, T, F, dt),
                    [RINT(sd(), (T, F), 0, n, dt), RINT(sd(), (T, max(1, F // 2)), 0, n, dt), n, n], {}))
        out.append(('mutual_info.joint_counts', '%s-%dx%d-%s' % (tag, T, F, dt),
                    [RINT(sd(), (T, F), 0, n, dt)], {'n_x': n}))
    for T, n in ((1, 2), (2, 3), (many, 4)):
        out.append(('libinfo.bincount2d', 'frames-%d' % T,
                    [RINT(sd(), (T,), 0, n, 'int64'), RINT(sd(), (T,), 0, n, 'int64'), n, n], {}))
    # libmsm (serial today; a parallelised version must stay a function of its argument)
    for n in (2, 3, 24):
        out.append(('builders._prinz_mle', 'counts-%dx%d' % (n, n), [RINT(sd(), (n, n), 1, 12, 'float64')], {}))
    return out


def worker_jobs(rng, thorough):
    """[(routine, kw, vals, sets, jobs)] for the worker-count sweep"""
    plan = []
    for routine, (kw, vals) in WORKERS.items():
        sets = []
        for _ in range(2 if thorough else 1):
            sets += GENS[routine](rng, thorough)
        jobs = []
        for label, args, kwargs in sets:
            for v in vals + [vals[0]]:                  # last one = plain repetition
                jobs.append({'routine': routine, 'label': label, 'args': args, 'kwargs': dict(kwargs, **{kw: v})})
        plan.append((routine, kw, vals, sets, jobs))
    return plan


def judge_workers(ctx, plan_item, outs):
    routine, kw, vals, sets, jobs = plan_item
    per = len(vals) + 1
    for i, (label, args, kwargs) in enumerate(sets):
        group = outs[i * per:(i + 1) * per]
        keys = [o.get('sha1', o.get('error')) for o in group]
        _outcome(routine, {'ok': 1} if 'sha1' in group[0] else {'error': group[0].get('error')})
        ctx.case({'routine': routine, 'args': args, 'kwargs': kwargs}, nontrivial='sha1' in group[0],
                 tags=[routine, 'outcome=' + ('value' if 'sha1' in group[0] else str(group[0].get('error')))])
        _ran(ctx, routine, 'workers', len(vals))
        _ran(ctx, routine, 'repeat')
        if len(set(keys)) != 1:
            ctx.violation('%s: result depends on %s (values %s, then %s again)' % (routine, kw, vals, vals[0]),
                          {'routine': routine, 'label': label, 'args': args, 'kwargs': kwargs,
                           'perturbation': {'kind': 'workers', 'kw': kw, 'values': vals},
                           'results': [o.get('short', o) for o in group]})


def check_workers(ctx, rng, thorough):
    """(e) worker-count sweep.  The pools are forked, and forking this process after its OpenMP teams exist
    can deadlock the children, so the sweep runs in a fresh interpreter (as a user's script would)."""
    for routine, (kw, vals) in WORKERS.items():
        sets = []
        for _ in range(2 if thorough else 1):
            sets += GENS[routine](rng, thorough)
        jobs = []
        for label, args, kwargs in sets:
            for v in vals + [vals[0]]:                  # last one = plain repetition
                jobs.append({'routine': routine, 'label': label, 'args': args, 'kwargs': dict(kwargs, **{kw: v})})
        try:
            outs = run_subprocess(jobs, None, timeout=240)
        except subprocess.TimeoutExpired:
            ctx.skip('worker-count sweep of %s did not finish in 240 s (not evaluated)' % routine)
            continue
        per = len(vals) + 1
        for i, (label, args, kwargs) in enumerate(sets):
            group = outs[i * per:(i + 1) * per]
            keys = [o.get('sha1', o.get('error')) for o in group]
            _outcome(routine, {'ok': 1} if 'sha1' in group[0] else {'error': group[0].get('error')})
            ctx.case({'routine': routine, 'args': args, 'kwargs': kwargs}, nontrivial='sha1' in group[0],
                     tags=[routine, 'outcome=' + ('value' if 'sha1' in group[0] else str(group[0].get('error')))])
            _ran(ctx, routine, 'workers', len(vals))
            _ran(ctx, routine, 'repeat')
            if len(set(keys)) != 1:
                ctx.violation('%s: result depends on %s (values %s, then %s again)' % (routine, kw, vals, vals[0]),
                              {'routine': routine, 'label': label, 'args': args, 'kwargs': kwargs,
                               'perturbation': {'kind': 'workers', 'kw': kw, 'values': vals},
                               'results': [o.get('short', o) for o in group]})


def check_threads(ctx, routine, label, args, kwargs, repeats=3):
    """threads 1/2/4/8/16, each `repeats` times, bit-for-bit against the 1-thread result"""
    case = {'routine': routine, 'label': label, 'args': args, 'kwargs': kwargs}
    ref, _, _ = call_once(routine, args, kwargs, threads=1)
    ctx.case({'routine': routine, 'args': args, 'kwargs': kwargs}, nontrivial='ok' in ref,
             tags=[routine, 'kernel-extreme', 'outcome=' + ('value' if 'ok' in ref else ref['error'])])
    for rep in range(repeats):
        for k in KERNEL_THREADS:
            got, _, _ = call_once(routine, args, kwargs, threads=k)
            _ran(ctx, routine, 'threads-extreme')
            if got != ref:
                ctx.violation('%s: result with %d OpenMP threads differs from the 1-thread result (arguments '
                              'identical, integer-valued data, repetition %d)' % (routine, k, rep),
                              dict(case, perturbation={'kind': 'threads-extreme', 'n': k, 'reference_threads': 1,
                                                       'repetition': rep},
                                   baseline=_short(ref), perturbed=_short(got)))
                return False
    return True




# --------------------------------------------------------------------------------------
# probabilities / weights / counts at extreme scales (products underflow to 0 or overflow to inf)
# --------------------------------------------------------------------------------------

def extreme_scale_sets(rng, thorough):
    """(routine, label, args, kwargs): valid inputs in which some state / row / cell carries a weight so small
    that its square or a product of two marginals is exactly 0.0 although the weight itself is not
    (Boltzmann weights with E/kT > ~373), or so large that it overflows."""
    out = []
    tinies = TINY if thorough else [TINY[int(i)] for i in rng.permutation(len(TINY))[:3]] + [5e-324]
    for k, t in enumerate(dict.fromkeys(tinies)):
        # weighted_mi: state `n` has a lone member (frame 0) whose weight is t, in every feature / in one feature
        T, F, n = int(rng.integers(3, 20)), int(rng.integers(1, 4)), int(rng.integers(2, 4))
        feats = rng.integers(0, n, size=(T, F))
        feats[1, :] = n - 1
        feats[0, :] = n
        w = rng.random(T) + 0.1
        w[0] = 0.0
        w = w / w.sum()
        w[0] = t
        out.append(('mutual_info.weighted_mi', 'lone-member-weight-%g' % t, [N(feats), N(w)], {'normalize': bool(k % 2)}))
        f2 = feats.copy()
        f2[0, 1:] = 0
        out.append(('mutual_info.weighted_mi', 'lone-member-one-feature-%g' % t, [N(f2), N(w)],
                    {'n_feature_states': N(np.full(F, n + 1))}))
        # two tiny frames sharing a state: marginal 2t, joint t
        w2 = w.copy()
        w2[1] = t
        out.append(('mutual_info.weighted_mi', 'two-tiny-members-%g' % t, [N(feats), N(w2 / 1.0)], {}))
        # entropies / divergences: a tiny probability next to ordinary ones
        p = _prob_vec(rng, int(rng.integers(3, 12)), 0.2)
        p[int(np.flatnonzero(p)[0])] = t
        q = _prob_vec(rng, len(p), 0.0)
        out.append(('entropy.shannon_entropy', 'tiny-probability-%g' % t, [N(p)], {'normalize': False}))
        out.append(('entropy.shannon_entropy', 'tiny-probability-normalize-%g' % t, [N(p)], {}))
        out.append(('entropy.kl_divergence', 'tiny-in-P-%g' % t, [N(p), N(q)], {}))
        out.append(('entropy.kl_divergence', 'tiny-in-Q-%g' % t, [N(q), N(p)], {}))
        out.append(('entropy.js_divergence', 'tiny-%g' % t, [N(p), N(q)], {}))
        # joint counts given as floats: a feature pair observed with total weight t
        jc = rng.integers(0, 5, size=(2, 2, 2, 2)).astype(float)
        jc[0, 1] = 0
        jc[0, 1, 0, 1] = t
        jc[1, 0] = [[t, t], [0, t]]
        out.append(('mutual_info.mutual_information', 'tiny-block-%g' % t, [N(jc)], {}))
        # count matrices / transition matrices with a tiny row, populations with a tiny state
        n = int(rng.integers(3, 6))
        C = _counts(rng, n).astype(float)
        C[0, :] = 0
        C[0, 1] = t
        for b in ('normalize', 'transpose'):
            out.append(('builders.' + b, 'tiny-row-%g' % t, [N(C)], {}))
        out.append(('msm.trim_disconnected', 'tiny-counts-%g' % t, [N(C)], {'threshold': t}))
        Tm = _stoch(rng, n)
        Tm[0, :] = 0
        Tm[0, 0], Tm[0, 1] = 1.0 - 0.0, t
        pops = _prob_vec(rng, n, 0)
        pops[0] = t
        so, si = [0], [n - 1]
        out.append(('tpt.committors', 'tiny-exit-%g' % t, [N(Tm), so, si], {}))
        out.append(('tpt.mfpts', 'tiny-exit-%g' % t, [N(Tm)], {'sinks': si}))
        out.append(('tpt.mfpts', 'tiny-population-%g' % t, [N(_stoch(rng, n))], {'populations': N(pops)}))
        out.append(('tpt.reactive_fluxes', 'tiny-population-%g' % t, [N(_stoch(rng, n)), so, si], {'populations': N(pops)}))
        out.append(('tpt.net_fluxes', 'tiny-population-%g' % t, [N(_stoch(rng, n)), so, si], {'populations': N(pops)}))
        out.append(('tpt.reactive_populations', 'tiny-population-%g' % t, [N(_stoch(rng, n)), so, si],
                    {'populations': N(pops)}))
        out.append(('entropy.relative_entropy_msm', 'tiny-population-%g' % t, [N(_stoch(rng, n))],
                    {'Q': N(_stoch(rng, n, 0.0)), 'populations': N(pops)}))
        Fm, s_, t_ = _netflux(rng, n + 1)
        Fm[Fm > 0] *= t
        out.append(('tpt.paths', 'tiny-fluxes-%g' % t, [[s_], [t_], N(Fm)], {'num_paths': 3}))
        out.append(('tpt.top_path', 'tiny-fluxes-%g' % t, [[s_], [t_], N(Fm)], {}))
        # distances: coordinates whose squares underflow
        X = rng.integers(-3, 4, size=(int(rng.integers(2, 12)), 3)) * t
        out.append(('libdist.euclidean', 'tiny-coordinates-%g' % t, [N(X), N(X[0])], {}))
        out.append(('cluster.kcenters', 'tiny-coordinates-%g' % t, [N(X), 'euclidean'], {'n_clusters': 2}))
        out.append(('cluster.find_cluster_centers', 'tiny-distances-%g' % t,
                    [N(rng.integers(0, 2, size=8)), N(rng.integers(0, 4, size=8) * t)], {}))
        out.append(('mutual_info.mi_to_nmi', 'tiny-mi-%g' % t, [N(_sym_mi(rng, 3) * t)], {}))
        out.append(('mutual_info.channel_capacity_normalization', 'tiny-mi-%g' % t, [N(rng.random((2, 3)) * t), 2, 3], {}))
    for k, h in enumerate(HUGE):
        # energies far above kT: exp underflows for most states
        out.append(('entropy.energy_to_probability', 'energies-%g-kT' % h, [N(np.array([0.0, 1.0, h, 400.0, 800.0]))],
                    {'kT': 1.0}))
        n = int(rng.integers(2, 5))
        C = _counts(rng, n).astype(float) + 1.0
        C[0, 0] = h
        C[1, 0] = h
        for b in ('normalize', 'transpose', 'mle'):
            out.append(('builders.' + b, 'huge-counts-%g' % h, [N(C)], {}))
        out.append(('entropy.shannon_entropy', 'huge-counts-%g' % h, [N(np.array([h, h, 1.0, 0.0]))], {}))
        out.append(('entropy.kl_divergence', 'huge-unnormalised-%g' % h, [N(np.array([h, 1.0, 0.0])), N(np.array([1.0, h, 1.0]))], {}))
        jc = rng.integers(0, 5, size=(2, 2, 2, 2)).astype(float)
        jc[0, 0] *= h
        out.append(('mutual_info.mutual_information', 'huge-counts-%g' % h, [N(jc)], {}))
        T = int(rng.integers(3, 12))
        feats = rng.integers(0, 2, size=(T, 2))
        w = rng.random(T)
        w[0] = h
        out.append(('mutual_info.weighted_mi', 'huge-unnormalised-weight-%g' % h, [N(feats), N(w)], {}))
        X = rng.integers(-3, 4, size=(6, 3)) * h
        for m in ('euclidean', 'manhattan'):
            out.append(('libdist.' + m, 'huge-coordinates-%g' % h, [N(X), N(X[1])], {}))
        out.append(('cluster.kmedoids', 'huge-coordinates-%g' % h, [N(X), 'euclidean'],
                    {'n_clusters': 2, 'n_iters': 1, 'random_state': 1}))
        out.append(('tpt.paths', 'huge-fluxes-%g' % h, [[0], [2], N(np.array([[0, h, 1.0], [0, 0, h], [0, 0, 0]]))], {}))
    return out


# --------------------------------------------------------------------------------------
# blind-spot families: presentation of every argument (class 2), object reuse and call
# history (class 5), arguments by name (class 6)
# --------------------------------------------------------------------------------------

PMATRIX = {}          # routine -> {perturbation kind: calls}: reported in the evidence
OUTCOMES = {}         # routine -> {'value': n, 'error': n}

SPARSE_OK = {'builders.normalize', 'builders.transpose', 'builders.mle', 'msm.trim_disconnected',
             'msm.eigenspectrum', 'msm.eq_probs', 'tpt.committors', 'tpt.mfpts', 'tpt.reactive_fluxes',
             'tpt.net_fluxes', 'tpt.reactive_populations', 'tpt.net_fluxes+paths'}


def _ran(ctx, routine, kind, k=1):
    ctx.tag('perturbation=' + kind, k)
    d = PMATRIX.setdefault(routine, {})
    d[kind] = d.get(kind, 0) + k


def _outcome(routine, out):
    d = OUTCOMES.setdefault(routine, {'value': 0, 'error': 0})
    d['value' if 'ok' in out else 'error'] += 1


def _enc_paths(e, path=()):
    """paths of every array-like encoding inside an argument structure"""
    if isinstance(e, list):
        if e and path and len(path) >= 2 and all(isinstance(x, int) and not isinstance(x, bool) for x in e):
            yield path                                   # a plain list of indices / sizes
            return
        for i, x in enumerate(e):
            yield from _enc_paths(x, path + (i,))
    elif isinstance(e, dict):
        if e.get('t') in ('nd', 'sp', 'ra'):
            yield path
        elif e.get('t') == 'tuple':
            yield from _enc_paths(e['v'], path + ('v',))
        elif e.get('t') is None:
            for k, v in e.items():
                yield from _enc_paths(v, path + (k,))


def _get(e, path):
    for k in path:
        e = e[k]
    return e


def _set(e, path, v):
    e = json.loads(json.dumps(e))
    cur = e
    for k in path[:-1]:
        cur = cur[k]
    cur[path[-1]] = v
    return e


TINY = [1e-170, 1e-200, 1e-300, 5e-324]       # squares / products underflow to exactly 0
HUGE = [1e150, 1e200, 1e300]                   # squares / products overflow to inf
_SCALE_VARIANTS = ('tiny-entries', 'huge-entries', 'all-scaled-1e-200', 'all-scaled-1e+200', 'lone-tiny-rest-zero')


def _scale_presentations(enc):
    """the same float array with some non-zero entries at an extreme scale (probabilities, weights and
    counts whose squares or products underflow to 0 or overflow to inf), or scaled as a whole"""
    if np.dtype(enc['dt']).kind != 'f' or not enc['v']:
        return []
    v = list(enc['v'])
    nz = [i for i, x in enumerate(v) if x != 0 and x == x]
    if not nz:
        return []
    pos = sorted({nz[0], nz[len(nz) // 2], nz[-1]})
    h = sum(pos) + len(v)
    outs = []
    for name, vals in (('tiny-entries', TINY), ('huge-entries', HUGE)):
        w = list(v)
        for j, i in enumerate(pos):
            w[i] = vals[(h + j) % len(vals)]
        outs.append((name, dict(enc, v=w)))
    outs.append(('all-scaled-1e-200', dict(enc, v=[x * 1e-200 for x in v])))
    outs.append(('all-scaled-1e+200', dict(enc, v=[x * 1e200 for x in v])))
    w = [0.0] * len(v)
    w[nz[0]] = TINY[h % len(TINY)]
    if len(nz) > 1:
        w[nz[-1]] = 1.0
    outs.append(('lone-tiny-rest-zero', dict(enc, v=w)))
    return outs


def _presentations(enc, routine):
    """other ways of handing over the same values"""
    if isinstance(enc, list):                            # plain Python list of ints (indices, lengths, ...)
        return [('list-as-int64-array', N(enc, 'int64')), ('list-as-int32-array', N(enc, 'int32')),
                ('list-as-tuple', TUP(*enc))]
    t = enc['t']
    outs = []
    if t == 'nd' and 'as' not in enc:
        shape, dt = enc['shape'], np.dtype(enc['dt'])
        nd = len(shape)
        if nd >= 2:
            outs.append(('F-order', dict(enc, **{'as': 'F'})))
        if nd >= 1 and all(shape):
            outs += [('strided', dict(enc, **{'as': 'strided'})), ('reversed-view', dict(enc, **{'as': 'rev'})),
                     ('list', dict(enc, **{'as': 'list'})), ('read-only', dict(enc, **{'as': 'readonly'}))]
        if nd == 1:
            outs.append(('tuple', dict(enc, **{'as': 'tuple'})))
        if nd == 2:
            outs.append(('np.matrix', dict(enc, **{'as': 'matrix'})))
        v = np.array(enc['v'], dtype=dt) if enc['v'] else np.zeros(0, dtype=dt)
        if dt.kind in 'iu' and v.size:
            for cand in ('int32', 'int16', 'int8', 'uint8', 'uint16', 'int64'):
                ii = np.iinfo(cand)
                if cand != dt.name and v.min() >= ii.min and v.max() <= ii.max:
                    outs.append((cand, dict(enc, dt=cand)))
            outs.append(('int-as-float64', dict(enc, dt='float64')))
        if dt.kind == 'f':
            if dt.name != 'float32':
                outs.append(('float32', dict(enc, dt='float32')))
            if v.size and np.all(v == np.round(v)) and np.all(np.abs(v) < 2 ** 31):
                outs.append(('integral-float-as-int64', dict(enc, dt='int64', v=[int(x) for x in v.ravel()])))
        if nd == 2 and shape[0] == shape[1] and routine in SPARSE_OK:
            for fmt in ('csr_matrix', 'csc_matrix', 'coo_matrix', 'lil_matrix', 'csr_array'):
                outs.append((fmt, dict(enc, t='sp', fmt=fmt)))
        outs += _scale_presentations(enc)
    elif t == 'sp':
        for fmt in ('csr_matrix', 'csc_matrix', 'coo_matrix', 'lil_matrix', 'dok_matrix', 'csc_array'):
            if fmt != enc['fmt']:
                outs.append((fmt, dict(enc, fmt=fmt)))
        outs.append(('dense', {k: v for k, v in dict(enc, t='nd').items() if k != 'fmt'}))
        outs += _scale_presentations(enc)
    elif t == 'ra':
        for cand in ('int32', 'float64', 'int8'):
            if cand != enc['dt'] and enc['dt'] != 'bool':
                flat = [x for r in enc['rows'] for x in r]
                if cand.startswith('float') or not flat or (min(flat) >= -128 and max(flat) <= 127 and
                                                            all(float(x).is_integer() for x in flat)):
                    outs.append(('ra-' + cand, dict(enc, dt=cand)))
    return outs


_DTYPE_VARIANTS = ('int32', 'int16', 'int8', 'uint8', 'uint16', 'int64', 'int-as-float64', 'float32',
                   'integral-float-as-int64', 'ra-int32', 'ra-float64', 'ra-int8')


def argument_variants(rng, routine, args, kwargs, k, dtype_only=False):
    """variants of one argument set, each changing the presentation of ONE argument (main or secondary,
    nested ones included): for every array argument one dtype change and one container / layout change
    (at most k arguments), plus one variant with all arguments given by name.
    dtype_only: a single dtype change of one randomly chosen array argument."""
    both = {'a': args, 'k': kwargs}
    paths = list(_enc_paths(both))
    out = []
    chosen = []
    for pi in rng.permutation(len(paths))[:(1 if dtype_only else k)]:
        pth = paths[int(pi)]
        pres = _presentations(_get(both, pth), routine)
        scs = [c for c in pres if c[0] in _SCALE_VARIANTS]
        pres = [c for c in pres if c[0] not in _SCALE_VARIANTS]
        if scs:                                          # one extreme-scale presentation of every float array
            chosen.append((pth,) + scs[int(rng.integers(0, len(scs)))])
        dts = [c for c in pres if c[0] in _DTYPE_VARIANTS or c[0].startswith('list-as-int')]
        lays = [c for c in pres if c[0] not in _DTYPE_VARIANTS]
        if dts:
            # the other numeric KIND always (int <-> float: no-copy conversions and truncations live there) ...
            kind_flip = [c for c in dts if c[0] in ('int-as-float64', 'integral-float-as-int64', 'ra-float64')]
            rest = [c for c in dts if c not in kind_flip]
            chosen += [(pth,) + c for c in kind_flip[:1]]
            if rest:                                   # ... and one other width
                chosen.append((pth,) + rest[int(rng.integers(0, len(rest)))])
        if lays and not dtype_only:
            chosen.append((pth,) + lays[int(rng.integers(0, len(lays)))])
    for pth, name, enc2 in chosen:
        b2 = _set(both, pth, enc2)
        where = ('arg%s' % '.'.join(map(str, pth[1:]))) if pth[0] == 'a' else '.'.join(map(str, pth[1:]))
        out.append(('%s:%s' % (where, name), b2['a'], b2['k']))
    if dtype_only:
        return out
    try:
        import inspect
        sig = inspect.signature(resolve(routine))
        params = [p for p in sig.parameters.values()]
        if args and all(p.kind in (p.POSITIONAL_OR_KEYWORD, p.KEYWORD_ONLY, p.VAR_KEYWORD) for p in params):
            names = [p.name for p in params if p.kind == p.POSITIONAL_OR_KEYWORD][:len(args)]
            if len(names) == len(args) and not set(names) & set(kwargs):
                out.append(('all-by-name', [], dict(kwargs, **dict(zip(names, args)))))
    except (TypeError, ValueError):
        pass
    return out


def _same_shape_other_values(e):
    """same shapes, dtypes and value ranges, different values (rolled by one position)"""
    if isinstance(e, list):
        return [_same_shape_other_values(x) for x in e]
    if isinstance(e, dict):
        t = e.get('t')
        if t in ('nd', 'sp'):
            v = list(e['v'])
            return dict(e, v=v[1:] + v[:1]) if len(v) > 1 else e
        if t == 'ra':
            flat = [x for r in e['rows'] for x in r]
            flat = flat[1:] + flat[:1]
            rows, i = [], 0
            for r in e['rows']:
                rows.append(flat[i:i + len(r)])
                i += len(r)
            return dict(e, rows=rows)
        if t == 'tuple':
            return dict(e, v=_same_shape_other_values(e['v']))
        if t is None:
            return {k: _same_shape_other_values(v) for k, v in e.items()}
    return e


def _plain_call(fn, a, kw, routine, kind, ctx):
    _ran(ctx, routine, kind)
    with warnings.catch_warnings(), np.errstate(all='ignore'):
        warnings.simplefilter('ignore')
        try:
            r = fn(*a, **kw)
            return r, {'ok': canon_res(r)}
        except Exception as e:  # noqa
            return None, {'error': type(e).__name__}


# warm starts: routine -> f(result, args, kwargs) -> (next routine, args, kwargs) built from the RESULT OBJECT
def _fb_kmedoids(r, a, kw):
    kw2 = {k: v for k, v in kw.items() if k not in ('n_clusters', 'proposals')}
    kw2.update(assignments=r.assignments, distances=r.distances, cluster_center_inds=r.center_indices)
    return 'cluster.kmedoids', a, kw2


FEEDBACK = {
    'cluster.kmedoids': _fb_kmedoids,
    'cluster.kcenters': lambda r, a, kw: ('cluster.kcenters', a, dict(kw, init_centers=r.centers)),
    'cluster.hybrid': lambda r, a, kw: ('cluster.hybrid', a, dict(kw, init_centers=r.centers)),
    'cluster.assign_to_nearest_center': lambda r, a, kw: ('cluster.find_cluster_centers', [r[0], r[1]], {}),
    'builders.normalize': lambda r, a, kw: ('builders.normalize', [r[0]], kw),
    'builders.transpose': lambda r, a, kw: ('builders.transpose', [r[0]], kw),
    'builders.mle': lambda r, a, kw: ('builders.mle', [r[0]], kw),
    'msm.trim_disconnected': lambda r, a, kw: ('msm.trim_disconnected', [r[1]], kw),
    'msm.eq_probs': lambda r, a, kw: ('tpt.mfpts', [a[0]], {'populations': r}),
    'msm.assigns_to_counts': lambda r, a, kw: ('builders.transpose', [r], {}),
    'mutual_info.joint_counts': lambda r, a, kw: ('mutual_info.mutual_information', [r], {}),
    'mutual_info.mutual_information': lambda r, a, kw: ('mutual_info.channel_capacity_normalization', [r, 2, 2], {}),
    'mutual_info.mi_to_apc': lambda r, a, kw: ('mutual_info.mi_to_apc', [r], {}),
    'tpt.net_fluxes': lambda r, a, kw: ('tpt.paths', [a[1], a[2], r], {'num_paths': 3}),
    'tpt.reactive_fluxes': lambda r, a, kw: ('tpt.top_path', [a[1], a[2], r], {}),
    'ra.binop': lambda r, a, kw: ('ra.binop', [r, a[1], a[2]], {}),
    'ra.getitem': lambda r, a, kw: ('ra.unop', [r, 'flatten'], {}),
    'ra.construct': lambda r, a, kw: ('ra.binop', [r, '__add__', r], {}),
    'libdist.euclidean': lambda r, a, kw: ('cluster.find_cluster_centers', [np.zeros(len(r), dtype=int), r], {}),
}


def check_history(ctx, routine, label, args, kwargs):
    """class 5: same argument objects twice, x / y / x with equal shapes, an id()-recycling sequence,
    results of earlier calls must survive later calls, warm starts from a result object."""
    case = {'routine': routine, 'label': label, 'args': args, 'kwargs': kwargs}
    fn = resolve(routine)
    inplace = routine in INPLACE

    def bad(what, kind, **extra):
        ctx.violation('%s: %s' % (routine, what), dict(case, perturbation={'kind': kind}, **extra))
        return False

    # (a) the same argument objects, twice
    a, kw = decode(args), decode(kwargs)
    before = snap([a, kw])
    r1, c1 = _plain_call(fn, a, kw, routine, 'same-objects-twice', ctx)
    ctx.case({'routine': routine, 'args': args, 'kwargs': kwargs, 'family': 'history'}, nontrivial='ok' in c1,
             tags=[routine, 'family=history'])
    r1b, c1b = _plain_call(fn, a, kw, routine, 'same-objects-twice', ctx)
    if not inplace:
        if c1b != c1:
            return bad('second call with the SAME argument objects returned a different result',
                       'same-objects-twice', baseline=_short(c1), perturbed=_short(c1b))
        if snap([a, kw]) != before:
            return bad('arguments differ after two calls with the same objects', 'same-objects-twice')
        if 'ok' in c1 and canon_res(r1) != c1['ok']:
            return bad('the result of the first call changed when the routine was called again',
                       'result-overwritten-by-later-call', baseline=_short(c1), perturbed=_short({'ok': canon_res(r1)}))
    # (c) x, y (same shapes, other values), x again; the first results stay alive meanwhile
    yargs, ykw = _same_shape_other_values(args), _same_shape_other_values(kwargs)
    ax, kx = decode(args), decode(kwargs)
    rx, cx = _plain_call(fn, ax, kx, routine, 'x-y-x', ctx)
    ay, ky = decode(yargs), decode(ykw)
    ry, cy = _plain_call(fn, ay, ky, routine, 'x-y-x', ctx)
    if not inplace and 'ok' in cx and canon_res(rx) != cx['ok']:
        return bad('the result returned for x changed after the routine was called with another argument of the '
                   'same shape (a view of internal state?)', 'result-overwritten-by-later-call',
                   baseline=_short(cx), perturbed=_short({'ok': canon_res(rx)}), other_args=yargs, other_kwargs=ykw)
    rx2, cx2 = _plain_call(fn, decode(args), decode(kwargs), routine, 'x-y-x', ctx)
    if cx2 != cx or (not inplace and cx != c1):
        return bad('A(x), A(y), A(x): the two results for x differ', 'x-y-x', baseline=_short(cx),
                   perturbed=_short(cx2), other_args=yargs, other_kwargs=ykw)
    # id() recycling: drop x, rebuild y (its objects tend to reuse x's addresses), result for y must not move
    del ax, kx, rx, rx2, ay, ky
    ry2, cy2 = _plain_call(fn, decode(yargs), decode(ykw), routine, 'id-recycling', ctx)
    if cy2 != cy:
        return bad('result for y changed once the objects of an earlier call had been freed (state keyed by '
                   'id()?)', 'id-recycling', baseline=_short(cy), perturbed=_short(cy2),
                   other_args=yargs, other_kwargs=ykw)
    # (b) warm start: the result object itself becomes the next input
    if routine in FEEDBACK and 'ok' in c1 and not inplace:
        try:
            a0, k0 = decode(args), decode(kwargs)
            res, _ = _plain_call(fn, a0, k0, routine, 'warm-start', ctx)
            nxt, a2, k2 = FEEDBACK[routine](res, a0, k0)
        except Exception:  # noqa  (result not of the expected form, e.g. sparse)
            return True
        s_res = snap(res) if not hasattr(res, '_fields') else snap(list(res))
        f2 = resolve(nxt)
        w1, cw1 = _plain_call(f2, a2, k2, nxt, 'warm-start', ctx)
        s_res2 = snap(res) if not hasattr(res, '_fields') else snap(list(res))
        if s_res2 != s_res and nxt not in INPLACE:
            return bad('%s modified the result of %s that was passed to it as input' % (nxt, routine), 'warm-start',
                       before=_decode_canon(s_res), after=_decode_canon(s_res2))
        # an independent run of the same pipeline
        a0, k0 = decode(args), decode(kwargs)
        res_b, _ = _plain_call(fn, a0, k0, routine, 'warm-start', ctx)
        nxt, a2, k2 = FEEDBACK[routine](res_b, a0, k0)
        w2, cw2 = _plain_call(f2, a2, k2, nxt, 'warm-start', ctx)
        if cw2 != cw1:
            return bad('the pipeline %s -> %s gave two different results on equal inputs' % (routine, nxt),
                       'warm-start', baseline=_short(cw1), perturbed=_short(cw2))
        # and once more from the SAME result object (in-place corruption shows on the second use)
        w3, cw3 = _plain_call(f2, a2, k2, nxt, 'warm-start', ctx)
        if cw3 != cw2:
            return bad('%s called twice on the same result object of %s gave different results' % (nxt, routine),
                       'warm-start', baseline=_short(cw2), perturbed=_short(cw3))
    return True


def public_api_audit(repo_dir):
    """public functions of the modules behind the API table that the table does not drive"""
    mods = ['info_theory/entropy.py', 'info_theory/mutual_info.py', 'msm/builders.py', 'msm/transition_matrices.py',
            'msm/timescales.py', 'tpt/core.py', 'tpt/tpt.py', 'tpt/path.py', 'cluster/util.py',
            'cluster/kcenters.py', 'cluster/kmedoids.py', 'cluster/hybrid.py', 'ra/ra.py']
    driven = set()
    for name, (target, _) in ROUTINES.items():
        driven.add(target.rsplit('.', 1)[1] if isinstance(target, str) else name.split('.')[-1])
    driven |= {'where', 'zeros_like', 'partition', 'paths', 'eq_probs', 'implied_timescales', 'euclidean',
               'manhattan', 'hamming'}
    outside = {  # reviewed: file/process I/O (C15), MPI entry points (C14), CLI helpers, validation-only
        'save', 'load', 'load_frames', 'expand_files', 'load_features', 'load_trajectories', 'load_asymm_frames',
        'load_trjs_or_features', 'write_centers_indices', 'write_centers',
        'write_assignments_and_distances_with_reassign', 'compute_batches', 'determine_batch_size', 'batch_reassign',
        'reassign', 'kcenters_mpi', 'ctr_ids_mpi', 'check_features_states', 'calc_imp_times'}
    missing = []
    for m in mods:
        p = os.path.join(repo_dir, 'enspara', m)
        try:
            with open(p) as f:
                tree = ast.parse(f.read())
        except (OSError, SyntaxError):
            missing.append(m + ':<unreadable>')
            continue
        for node in tree.body:
            if isinstance(node, ast.FunctionDef) and not node.name.startswith('_'):
                if node.name not in driven and node.name not in outside:
                    missing.append('%s:%s' % (m, node.name))
    return missing


# ---- (d) MALLOC_PERTURB_ subprocess ---------------------------------------------------

def _worker():
    """stdin: JSON list of {routine,args,kwargs}; stdout: JSON list of outcome digests."""
    jobs = json.load(sys.stdin)
    outs = [None] * len(jobs)
    for i in reversed(range(len(jobs))):      # opposite order to the parent: state that survives between calls
        j = jobs[i]                           # (memo by shape, caches) meets the inputs in another history
        out, _, _ = call_once(j['routine'], j['args'], j['kwargs'])
        outs[i] = {'error': out['error']} if 'error' in out else {'sha1': digest(out['ok']), 'short': _short(out)}
    sys.stdout.write('\n@@C19@@' + json.dumps(outs) + '@@END@@\n')
    sys.stdout.flush()


def run_subprocess(jobs, perturb, timeout=1500):
    env = dict(os.environ)
    if perturb is not None:
        env['MALLOC_PERTURB_'] = str(perturb)
    env['OMP_WAIT_POLICY'] = 'PASSIVE'
    here = os.path.dirname(os.path.dirname(os.path.abspath(__file__)))
    env['PYTHONPATH'] = os.pathsep.join([here, env.get('PYTHONPATH', '')])
    r = subprocess.run([sys.executable, '-c', 'from props import c19; c19._worker()'],
                       input=json.dumps(jobs), capture_output=True, text=True, env=env, timeout=timeout)
    if r.returncode != 0 or '@@C19@@' not in r.stdout:
        raise RuntimeError('C19 subprocess failed (MALLOC_PERTURB_=%s): %s' % (perturb, r.stderr[-1500:]))
    return json.loads(r.stdout.split('@@C19@@')[-1].split('@@END@@')[0])


# --------------------------------------------------------------------------------------
# Lean model vs real code for the three mechanisms
# --------------------------------------------------------------------------------------

def _fr(x):
    f = Fraction(int(x)) if isinstance(x, (int, np.integer)) else Fraction(float(x))
    return [int(f.numerator), int(f.denominator)]


def _unfr(q):
    return Fraction(q[0], q[1]) if isinstance(q, list) else Fraction(q)


def model_correspondence(ctx):
    from enspara.geometry import libdist
    from enspara.info_theory import libinfo, entropy
    rng = ctx.rng
    reqs, checks = [], []

    # (i) numpy's masked ufunc semantics = maskedApply (exact small values, so float arithmetic is exact)
    ufs1 = {'negative': np.negative, 'square': np.square, 'absolute': np.absolute}
    ufs2 = {'add': np.add, 'subtract': np.subtract, 'multiply': np.multiply}
    for _ in range(ctx.n(60, 600)):
        n = int(rng.integers(0, 12))
        mask = rng.random(n) < rng.choice([0.0, 0.5, 1.0, 0.8])
        a = rng.integers(-8, 9, size=n) / 2.0
        b = rng.integers(-8, 9, size=n) / 4.0
        g = rng.integers(-99, 99, size=n).astype(float)
        with_out = bool(rng.integers(0, 2))
        if rng.random() < 0.5:
            name = str(rng.choice(sorted(ufs1)))
            req = {'op': 'C19.masked1', 'ufunc': name, 'mask': mask.tolist(), 'args': [_fr(x) for x in a],
                   'out': [_fr(x) for x in g] if with_out else None, 'g': [_fr(x) for x in g]}
            real = (lambda name=name, a=a, mask=mask, g=g: ufs1[name](a, where=mask, out=g.copy()))
        else:
            name = str(rng.choice(sorted(ufs2)))
            req = {'op': 'C19.masked2', 'ufunc': name, 'mask': mask.tolist(),
                   'args': [[_fr(x), _fr(y)] for x, y in zip(a, b)],
                   'out': [_fr(x) for x in g] if with_out else None, 'g': [_fr(x) for x in g]}
            real = (lambda name=name, a=a, b=b, mask=mask, g=g: ufs2[name](a, b, where=mask, out=g.copy()))
        reqs.append(req)
        checks.append(('masked', req, real, mask))
    # a length mismatch is an error on both sides
    reqs.append({'op': 'C19.masked1', 'ufunc': 'negative', 'mask': [True], 'args': [_fr(1.0), _fr(2.0), _fr(3.)],
                 'out': [_fr(0.0)] * 2, 'g': [_fr(0.0)] * 2})
    checks.append(('masked-mismatch', reqs[-1], None, None))

    # (i') shannon_entropy = -sum_{p>0} p log p, with and without out
    for _ in range(ctx.n(30, 300)):
        n = int(rng.integers(1, 10))
        p = rng.integers(0, 5, size=n) / 8.0
        if not (p > 0).any():
            p[0] = 0.5
        lgv = [(_fr(math.log(x)) if x > 0 else None) for x in p]
        req = {'op': 'C19.entropy', 'p': [_fr(x) for x in p], 'lgv': lgv, 'g': [None] * n, 'with_out': True}
        reqs.append(req)
        checks.append(('entropy', req, p, None))

    # (iii) libdist kernels with an `out` holding finite garbage / NaN / nothing
    for _ in range(ctx.n(90, 900)):
        kind = str(rng.choice(['manhattan', 'euclidean2', 'hamming']))
        n, d = int(rng.integers(0, 9)), int(rng.integers(0 if kind == 'hamming' else 1, 6))
        if kind == 'hamming':
            X, y = rng.integers(0, 3, size=(n, d)), rng.integers(0, 3, size=d)
        else:
            X, y = rng.integers(-6, 7, size=(n, d)) / 2.0, rng.integers(-6, 7, size=d) / 2.0
        mode = str(rng.choice(['none', 'finite', 'nan', 'wrong-length', 'dim-mismatch']))
        if mode == 'dim-mismatch':
            y = np.concatenate([y, y[:1] if d else np.zeros(1, dtype=y.dtype)])
        nout = n + 1 if mode == 'wrong-length' else n
        gar = rng.integers(-50, 50, size=nout).astype(float)
        req = {'op': 'C19.' + kind, 'X': [[_fr(v) for v in r] for r in X], 'ncols': d, 'y': [_fr(v) for v in y],
               'out': None if mode == 'none' else [_fr(v) for v in gar]}
        reqs.append(req)
        checks.append(('dist', req, (kind, X, y, mode, gar), None))

    # (iii) matrix_bincount2d
    for _ in range(ctx.n(40, 400)):
        T, fa, fb = int(rng.integers(0, 12)), int(rng.integers(1, 4)), int(rng.integers(1, 4))
        na, nb = int(rng.integers(1, 4)), int(rng.integers(1, 4))
        lo = -1 if rng.random() < 0.15 else 0
        a = rng.integers(lo, na + (1 if rng.random() < 0.15 else 0), size=(T, fa))
        Tb = T + 1 if rng.random() < 0.1 else T
        b = rng.integers(0, nb, size=(Tb, fb))
        req = {'op': 'C19.bincount', 'a': a.tolist(), 'fa': fa, 'b': b.tolist(), 'fb': fb, 'na': na, 'nb': nb}
        reqs.append(req)
        checks.append(('bincount', req, (a, b, na, nb), None))

    resp = ctx.driver(reqs)
    errmap = {'DataInvalid': 'data-invalid', 'AssertionError': 'assertion', 'ValueError': 'value-error'}
    for (kind, req, real, extra), r in zip(checks, resp):
        ctx.tag('model:' + kind)
        ctx.evaluations += 1
        if kind == 'masked':
            got = real()
            want = [float(_unfr(q)) for q in r.get('ok', [])]
            if 'ok' not in r or got.tolist() != want:
                ctx.disagreement('Model.Masked.maskedApply vs numpy masked ufunc', dict(req, model=r, numpy=got.tolist()))
        elif kind == 'masked-mismatch':
            try:
                np.negative(np.array([1., 2., 3.]), where=np.array([True]), out=np.zeros(2))
                ok = False
            except ValueError:
                ok = r.get('error') == 'shape-mismatch'
            if not ok:
                ctx.disagreement('Model.Masked.maskedApply vs numpy on a shape mismatch', dict(req, model=r))
        elif kind == 'entropy':
            p = real
            poison_heap(float('nan'), 6)
            got = float(entropy.shannon_entropy(p.copy(), normalize=False))
            want = r.get('ok')
            if want is None or not math.isclose(got, float(_unfr(want)), rel_tol=1e-12, abs_tol=1e-12):
                ctx.disagreement('Model.Masked.shannonEntropy vs entropy.shannon_entropy (heap poisoned with NaN)',
                                 dict(req, model=r, impl=got))
        elif kind == 'dist':
            k, X, y, mode, gar = real
            fn = {'manhattan': libdist.manhattan, 'euclidean2': libdist.euclidean, 'hamming': libdist.hamming}[k]
            Xr = np.ascontiguousarray(X, dtype='float64' if k != 'hamming' else 'int64')
            yr = np.ascontiguousarray(y, dtype=Xr.dtype)
            outs = [None] if mode == 'none' else [gar.copy()]
            if mode == 'finite':
                outs.append(np.full(len(gar), np.nan))      # the model is proved independent of the content
            for o in outs:
                try:
                    got = {'ok': np.asarray(fn(Xr, yr, out=o)).ravel().tolist()}
                except Exception as e:  # noqa
                    got = {'error': errmap.get(type(e).__name__, type(e).__name__)}
                if 'error' in r or 'error' in got:
                    same = r.get('error') == got.get('error')
                else:
                    want = []
                    for q in r['ok']:
                        if q is None:
                            want.append(float('nan'))
                        elif k == 'euclidean2':
                            want.append(math.sqrt(float(_unfr(q))))
                        else:
                            f = _unfr(q)
                            want.append(f.numerator / f.denominator)
                    same = len(want) == len(got['ok']) and all(
                        (math.isnan(w) and math.isnan(g)) or w == g for w, g in zip(want, got['ok']))
                if not same:
                    ctx.disagreement('Model.Masked.%s vs libdist (out mode %s)' % (k, mode),
                                     dict(req, model=r, impl=got, out_mode=mode))
                    break
        elif kind == 'bincount':
            a, b, na, nb = real
            try:
                got = {'ok': libinfo.matrix_bincount2d(a.astype('int64'), b.astype('int64'), na, nb).tolist()}
            except Exception as e:  # noqa
                got = {'error': errmap.get(type(e).__name__, type(e).__name__)}
            if got != r:
                ctx.disagreement('Model.Masked.matrixBincount2d vs libinfo.matrix_bincount2d',
                                 dict(req, model=r, impl=got))


# --------------------------------------------------------------------------------------
# run / replay
# --------------------------------------------------------------------------------------

# mirror of `reviewedAllocs` in lean/Props/C19.lean (file, function, target)
REVIEWED_ALLOCS = {('enspara/mpi/io.py', 'load_npy_as_striped', 'local_data')}


def _source_obligation_targets():
    """routines of the API table reached by a site the regenerated obligations reject"""
    t = _LAST_TRANSLATION
    bad = [s for s in t.get('ufunc_sites', []) if not s['hasOut']]
    bad += [s for s in t.get('alloc_sites', []) if s['init'] == 'uninitialised'
            and (s['file'], s['func'], s['target']) not in REVIEWED_ALLOCS]
    bad += [s for s in t.get('accum_sites', []) if s['init'] == 'uninitialised'
            or s.get('owner') in ('racy', 'ownedElsewhere')]
    targets = []
    for s in bad:
        for r in REACHES.get(s['func'], []):
            if r not in targets:
                targets.append(r)
    return bad, targets


def _guard(ctx, what, replay, fn, *a, **kw):
    """run one piece of instrumentation; an exception in the HARNESS (not in the routine under test, those are
    outcomes) must never end the check with exit 2: it is reported as a disagreement with what was being done"""
    try:
        return fn(*a, **kw)
    except (KeyboardInterrupt, SystemExit):
        raise
    except Exception as e:  # noqa
        import traceback
        ctx.disagreement('instrumentation error while %s: %s: %s' % (what, type(e).__name__, str(e)[:200]),
                         dict(replay, traceback=traceback.format_exc()[-1500:]))
        return None


def run(ctx):
    rng = ctx.rng
    ctl = _controller()
    libs = [l.get('prefix') or l.get('internal_api') for l in ctl.select(user_api='openmp').info()]
    ctx.note('openmp_runtimes_controlled', libs)
    if not libs:
        ctx.skip('no OpenMP runtime found by threadpoolctl: thread sweep is vacuous')
    import time
    t0 = time.time()
    call_once('libdist.euclidean', [N(np.zeros((4, 2))), N(np.zeros(2))], {}, threads=16)
    call_once('libdist.euclidean', [N(np.zeros((4, 2))), N(np.zeros(2))], {}, threads=16)
    ctx.note('openmp_16_thread_call_ms', round((time.time() - t0) * 500, 2))
    # the kernels the Lean models mirror must still be what the source contains
    found = {(s['file'], s['func'], s['buffer']) for s in _LAST_TRANSLATION.get('accum_sites', [])}
    if _LAST_TRANSLATION:
        for k in MODELLED_KERNELS:
            if k not in found:
                ctx.disagreement('Model/Masked.lean mirrors kernel %s:%s (buffer %s) which the source no longer has'
                                 % k, {'missing_kernel': list(k)})
    _guard(ctx, 'comparing the Lean models with the real kernels', {}, model_correspondence, ctx)
    if poison_allocator() is None:
        ctx.skip('poisoning allocator could not be built (%s): heap histories only' % _ALLOC.get('error'))
    else:
        ctx.note('poisoning_allocator', 'numpy data-memory handler, patterns ' + ','.join(sorted(ALLOC_PATTERNS)))

    bad, targets = _source_obligation_targets()
    if bad:
        ctx.note('rejected_source_sites', bad)
    reps = 6 if not ctx.thorough else 32
    rounds = ctx.n(1, 5)
    jobs = []
    order = []
    for r in sorted(ROUTINES):
        try:
            resolve(r)
        except Exception as e:  # noqa   (renamed / removed entry point: the table no longer drives it)
            ctx.disagreement('API table routine %s cannot be resolved (%s: %s)' % (r, type(e).__name__, e),
                             {'routine': r, 'unresolved': True})
            continue
        if r not in WORKERS:
            order.append(r)
    wplan = worker_jobs(rng, ctx.thorough)
    nvar = ctx.n(2, 4)
    nhist = ctx.n(6, 8)
    for rd in range(rounds):
        for routine in order:
            sets = _guard(ctx, 'generating arguments for ' + routine, {'routine': routine},
                          GENS[routine], rng, ctx.thorough and rd % 2 == 1) or []
            for label, args, kwargs in sets:
                b = _guard(ctx, 'checking %s [%s]' % (routine, label),
                           {'routine': routine, 'label': label, 'args': args, 'kwargs': kwargs},
                           check_argset, ctx, routine, label, args, kwargs, reps=reps)
                if b is None:
                    continue
                if len(jobs) < 4000 and len(json.dumps(args)) < 200000:
                    jobs.append({'routine': routine, 'label': label, 'args': args, 'kwargs': kwargs, '_base': b})
            # class 2 / 6: every argument in another dtype / container / layout, and all arguments by name
            picks = [sets[int(i)] for i in rng.permutation(len(sets))[:ctx.n(3, 4)]]
            # every argument set (so every keyword corner) once more with ONE array argument in another dtype
            for label, args, kwargs in sets:
                if routine in WORKERS or len(json.dumps(args)) > 200000 or (label, args, kwargs) in picks:
                    continue
                for vname, a2, k2 in (_guard(ctx, 'building variants of %s [%s]' % (routine, label),
                                             {'routine': routine, 'label': label}, argument_variants,
                                             rng, routine, args, kwargs, 1, dtype_only=True) or []):
                    _guard(ctx, 'checking %s [variant:%s:%s]' % (routine, label, vname),
                           {'routine': routine, 'label': 'variant:%s:%s' % (label, vname), 'args': a2, 'kwargs': k2},
                           check_argset, ctx, routine, 'variant:%s:%s' % (label, vname), a2, k2, reps=reps,
                                 perturbations=[{'kind': 'repeat'}] +
                                 ([{'kind': 'alloc', 'fill': f} for f in
                                   (('nan', 'inf', 'aa') if vname.split(':')[-1] in _SCALE_VARIANTS else ('nan',))]
                                  if poison_allocator() else []) +
                                 ([{'kind': 'heap', 'fill': 'nan'}] if vname.split(':')[-1] in _SCALE_VARIANTS else []))
                    ctx.tag('variant=' + vname.split(':')[-1])
            for label, args, kwargs in picks:
                if len(json.dumps(args)) > 200000:
                    continue
                if routine in WORKERS:
                    continue
                for vname, a2, k2 in (_guard(ctx, 'building variants of %s [%s]' % (routine, label),
                                             {'routine': routine, 'label': label}, argument_variants,
                                             rng, routine, args, kwargs, nvar) or []):
                    b = _guard(ctx, 'checking %s [variant:%s:%s]' % (routine, label, vname),
                               {'routine': routine, 'label': 'variant:%s:%s' % (label, vname), 'args': a2, 'kwargs': k2},
                               check_argset, ctx, routine, 'variant:%s:%s' % (label, vname), a2, k2, reps=reps,
                               perturbations=None if ctx.thorough else light_perturbations(routine))
                    if b is None:
                        continue
                    ctx.tag('variant=' + vname.split(':')[-1])
                    if len(jobs) < 4000:
                        jobs.append({'routine': routine, 'label': 'variant:%s:%s' % (label, vname), 'args': a2,
                                     'kwargs': k2, '_base': b})
            # class 5: object reuse and call history
            for label, args, kwargs in [sets[int(i)] for i in rng.permutation(len(sets))[:nhist]]:
                if len(json.dumps(args)) < 200000 and routine not in WORKERS:
                    _guard(ctx, 'history check of %s [%s]' % (routine, label),
                           {'routine': routine, 'label': label, 'args': args, 'kwargs': kwargs},
                           check_history, ctx, routine, label, args, kwargs)
    # probabilities / weights / counts whose products underflow or overflow
    for routine, label, args, kwargs in (_guard(ctx, 'generating extreme-scale sets', {}, extreme_scale_sets,
                                                rng, ctx.thorough) or []):
        if routine not in order:
            continue
        b = _guard(ctx, 'checking %s [%s]' % (routine, label),
                   {'routine': routine, 'label': label, 'args': args, 'kwargs': kwargs},
                   check_argset, ctx, routine, 'corner:extreme-scale:' + label, args, kwargs, reps=reps,
                   perturbations=[p for p in perturbation_list(ctx.thorough, routine)
                                  if ctx.thorough or p['kind'] != 'threads'])
        ctx.tag('family=extreme-scale')
    # compiled kernels at extreme shapes under every team size
    for rd in range(ctx.n(1, 3)):
        for routine, label, args, kwargs in (_guard(ctx, 'generating kernel extremes', {}, kernel_extremes,
                                                    rng, ctx.thorough) or []):
            if routine in order:
                _guard(ctx, 'thread sweep of %s [%s]' % (routine, label),
                       {'routine': routine, 'label': label, 'args': args, 'kwargs': kwargs},
                       check_threads, ctx, routine, label, args, kwargs)
    # a site the obligations reject: concentrate the heap histories on the routines that reach it
    for routine in targets:
        for rd in range(12):
            for label, args, kwargs in (GENS[routine](rng, rd % 2 == 1) if routine in order else []):
                _guard(ctx, 'targeted search on %s [%s]' % (routine, label),
                       {'routine': routine, 'label': label, 'args': args, 'kwargs': kwargs},
                       check_argset, ctx, routine, label, args, kwargs, reps=32,
                             perturbations=[{'kind': 'heap', 'fill': k} for k in POISONS] +
                             ([{'kind': 'alloc', 'fill': k} for k in ALLOC_PATTERNS] if poison_allocator() else []))
                ctx.tag('targeted-search')
    # (d) fresh processes whose malloc perturbs every block, meeting the inputs in the opposite order
    jobs = [j for j in jobs if j['routine'] not in WORKERS]
    if not ctx.thorough:
        jobs = [j for j in jobs if len(json.dumps(j['args'])) < 20000]
        keep, per = [], {}
        for i in rng.permutation(len(jobs)):          # three argument sets of every routine
            r = jobs[int(i)]['routine']
            if per.get(r, 0) < 3:
                per[r] = per.get(r, 0) + 1
                keep.append(int(i))
        jobs = [jobs[i] for i in sorted(keep)]
    base = [j.pop('_base') for j in jobs]
    # (e) the worker-count sweep forks process pools; forking THIS process after its OpenMP teams exist can
    # deadlock the children, so it runs in the fresh interpreter, before any kernel (the worker walks the job
    # list backwards, the pool jobs are appended last)
    wjobs = [j for item in wplan for j in item[4]]
    for rnd, perturb in enumerate((1, 85, 170) if ctx.thorough else (None,)):
        if True:
            try:
                outs_all = run_subprocess(jobs + (wjobs if rnd == 0 else []), perturb,
                                          timeout=1500 if ctx.thorough else 300)
            except subprocess.TimeoutExpired:
                ctx.skip('fresh-process run (MALLOC_PERTURB_=%s) did not finish in time: not evaluated' % perturb)
                continue
            except Exception as e:  # noqa   (the child interpreter died or answered garbage)
                ctx.disagreement('fresh-process run (MALLOC_PERTURB_=%s) failed: %s' % (perturb, str(e)[:300]),
                                 {'fresh_process_failed': True, 'perturb': perturb})
                continue
            outs = outs_all[:len(jobs)]
            if rnd == 0:
                k = len(jobs)
                for item in wplan:
                    judge_workers(ctx, item, outs_all[k:k + len(item[4])])
                    k += len(item[4])
            for j in jobs:
                _ran(ctx, j['routine'], 'fresh-process-malloc-perturb-reverse-order')
            for j, b, o in zip(jobs, base, outs):
                same = (b.get('error') == o.get('error')) if ('error' in b or 'error' in o) \
                    else digest(b['ok']) == o['sha1']
                if not same:
                    ctx.violation('%s: result in a fresh process (MALLOC_PERTURB_=%s, calls in the opposite order) '
                                  'differs from the in-process result' % (j['routine'], perturb),
                                  dict(j, perturbation={'kind': 'malloc_perturb', 'value': perturb},
                                       baseline=_short(b), perturbed=o.get('short', o)))
                    break
    ctx.note('routines', len(ROUTINES))
    ctx.note('perturbations_by_routine', {r: dict(sorted(PMATRIX.get(r, {}).items())) for r in sorted(ROUTINES)})
    ctx.note('outcomes_by_routine', {r: OUTCOMES.get(r, {}) for r in sorted(ROUTINES)})
    import stage as _stage
    ctx.note('public_functions_not_in_api_table', public_api_audit(_stage.REPO))
    dead = [r for r in order + list(WORKERS) if OUTCOMES.get(r, {}).get('value', 0) == 0]
    for r in dead:
        # a routine of the table that no longer returns a value for ANY generated input has silently dropped
        # out of the check (renamed argument, changed signature, ...)
        ctx.disagreement('API table routine %s did not return a value for any generated input' % r,
                         {'routine': r, 'no_successful_call': True})
    ctx.note('heap_poison_reps', reps)


def replay(ctx, case):
    _controller()
    case = case.get('case', case)
    if 'op' in case:                                    # a model-correspondence request
        r = ctx.driver([{k: v for k, v in case.items() if k not in ('model', 'impl', 'numpy', 'out_mode')}])[0]
        if r != case.get('model'):
            ctx.disagreement('model answer changed for a recorded request', dict(case, model_now=r))
        else:
            ctx.disagreement('recorded model/implementation disagreement (re-run the full check to re-evaluate)', case)
        return
    if any(k in case for k in ('unresolved', 'no_successful_call', 'fresh_process_failed', 'traceback')) \
            and 'args' not in case:
        ctx.disagreement('recorded instrumentation problem (re-run the full check to re-evaluate)', case)
        return
    if 'missing_kernel' in case:
        ctx.disagreement('recorded: a modelled kernel is missing from the source', case)
        return
    routine, args, kwargs = case['routine'], case['args'], case.get('kwargs', {})
    p = case.get('perturbation', {})
    if p.get('kind') == 'malloc_perturb':
        # the recorded difference may need a call history (state surviving between calls): give this process
        # one - the same routine on other values of the same shapes - before computing the reference
        call_once(routine, _same_shape_other_values(args), _same_shape_other_values(kwargs))
        base = call_once(routine, args, kwargs)[0]
        o = run_subprocess([{'routine': routine, 'args': args, 'kwargs': kwargs}], p['value'])[0]
        same = (base.get('error') == o.get('error')) if ('error' in base or 'error' in o) \
            else digest(base['ok']) == o['sha1']
        if not same:
            ctx.violation('%s: result under MALLOC_PERTURB_=%s differs' % (routine, p['value']), case)
        return
    if routine in WORKERS:
        kw, vals = WORKERS[routine]
        outs = run_subprocess([{'routine': routine, 'args': args, 'kwargs': dict(kwargs, **{kw: v})}
                               for v in vals + [vals[0]]], None, timeout=240)
        if len({o.get('sha1', o.get('error')) for o in outs}) != 1:
            ctx.violation('%s: result depends on %s' % (routine, kw), case)
        return
    if p.get('kind') == 'threads-extreme':
        check_threads(ctx, routine, case.get('label', 'replay'), args, kwargs, repeats=5)
        return
    check_argset(ctx, routine, case.get('label', 'replay'), args, kwargs, reps=32)
