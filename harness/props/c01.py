"""C01 - clustering results are self-consistent for every algorithm and input.

Also the shared machinery for C09 (same entry points, same model ops): problems (table metric /
compiled kernels), runners of the real entry points, the Python oracle for `Consistent`, the
request builder for the Lean model (`Model.Cluster`) and the comparison of both.
"""
import contextlib
import logging
from fractions import Fraction

import numpy as np

RULE = ('random data sets of distinct points: (a) table metric - frame ids in X(n,1) and a callable '
        'looking distances up in a small-integer table D (symmetric metrics, asymmetric / '
        'triangle-violating tables, many ties), (b) euclidean/manhattan kernels on small-integer grids '
        'in int8..int64/float32/float64; n 1..40, k 1..n+2 (+ a large-n family, oracle only: n 257..600 and n>65536 with '
        'center indices >= 128/256/32768/65536, and k>255 clusters), radii, init_centers, k-medoids cold/warm '
        'starts (inds / labels+distances / all three, non-first tie-breaks), explicit proposals (members, '
        'other clusters, current and foreign centers), recorded random proposals, 1..6 sweeps; '
        'constructive 3-branch PAM tables + exhaustive tiny tables; a case is non-trivial when k>=2 and '
        'n>k (or a PAM step is taken); distinct by canonical input')
ASSUMPTIONS = [
    'table metric: the callable returns D[frame id, center id] exactly (small integers are exact in float64)',
    'kernel metrics: the table given to the model is the compiled kernel\'s own float64 output (as exact '
    'rationals); rounding inside the kernels is C13\'s subject',
    'PAM cost comparison in float64 equals the exact comparison unless the exact costs are within 1e-12 '
    'relative (then the case is tagged float-tie and the model comparison is skipped)',
    'random proposals: a recording numpy RandomState subclass is passed as random_state and its choice() '
    'calls are replayed as the model\'s oracle; KMedoids.fit (no seed argument) is run under '
    'np.random.seed and a seeded default_rng stand-in so that runs are reproducible',
    'aliasing (inputs not modified) is checked on the real code by byte snapshots, not modelled',
]
TRUSTED_EXTRA = ['numpy fancy indexing / boolean masks / argmax / argmin / unique semantics as mirrored in Model.Cluster '
                 '(compared on every case)']

MIRRORS = [('enspara/cluster/kcenters.py', ['kcenters', '_kcenters_iteration']),
           ('enspara/cluster/kmedoids.py', ['kmedoids', '_kmedoids_inputs_tree', '_kmedoids_iterations',
                                             '_kmedoids_pam_update', '_propose_new_center_amongst', '_msq']),
           ('enspara/cluster/hybrid.py', ['hybrid']),
           ('enspara/cluster/util.py', ['assign_to_nearest_center', 'find_cluster_centers'])]

USE_MODEL = True

ENTRY_KINDS = ('kcenters', 'KCenters.fit', 'kmedoids', 'KMedoids.fit', 'pam_update', 'hybrid',
               'KHybrid.fit', 'assign')


# --------------------------------------------------------------------------- problems

def _rat(x):
    """exact rational of a python/numpy number as JSON ([num, den] or int)"""
    f = Fraction(float(x)) if not isinstance(x, (int, np.integer)) else Fraction(int(x))
    return int(f.numerator) if f.denominator == 1 else [int(f.numerator), int(f.denominator)]


def _unrat(j):
    if j is None:
        return None
    if isinstance(j, list):
        return Fraction(j[0], j[1])
    return Fraction(j)


class Problem:
    """data X, the metric handed to the real code, an independent distance table for the oracle and
    the table for the model."""

    def __init__(self, case):
        self.kindm = case['metric']
        self.large = bool(case.get('large'))
        self._Dm = None
        self.unit = 2.0 ** int(case.get('scale_exp', 0))     # natural scale of the distances (exact power of 2)
        self.skip_model = None
        if self.large:
            self._init_large(case)
            self.skip_model = 'large-n'
            return
        if self.kindm == 'rmsd':
            self._init_rmsd(case)
            self.skip_model = 'rmsd'
            return
        if self.kindm == 'table':
            D = np.array(case['D'], dtype=float) * self.unit
            self.n = len(D)
            self.X = np.arange(self.n).reshape(self.n, 1).astype(case.get('dtype', 'int64'))
            self.D_true = D
            self.calls = 0

            def _ids(a):
                if hasattr(a, 'xyz'):       # md.Trajectory whose x coordinate of atom 0 is the frame id
                    return np.rint(np.asarray(a.xyz)[:, 0, 0]).astype(int)
                return np.asarray(a).reshape(len(a), -1)[:, 0].astype(int)

            def metric(X_, y, _D=D.copy()):
                self.calls += 1
                yi = int(np.rint(np.asarray(y.xyz).reshape(-1)[0])) if hasattr(y, 'xyz') else int(np.asarray(y).reshape(-1)[0])
                return _D[_ids(X_), yi]
            self.metric = metric
            self.tol = 0.0
            self.exact = True
        else:
            self.X = (np.array(case['X']) * self.unit).astype(case['dtype']) if self.unit != 1.0 \
                else np.array(case['X']).astype(case['dtype'])
            self.n = len(self.X)
            self.metric = self.kindm
            Xf = np.array(case['X'], dtype=float) * self.unit
            diff = Xf[:, None, :] - Xf[None, :, :]
            if self.kindm == 'euclidean':
                self.D_true = np.sqrt((diff ** 2).sum(-1))
            else:
                self.D_true = np.abs(diff).sum(-1)
            self.tol = 1e-9
            # manhattan on integers is exact; euclidean involves sqrt -> rounding-sensitive cost ties
            self.exact = (self.kindm == 'manhattan')
        lay = case.get('x_layout')
        if lay == 'F':
            self.X = np.asfortranarray(self.X)
        elif lay == 'strided':
            big = np.zeros((2 * self.n, self.X.shape[1] + 1), dtype=self.X.dtype)
            big[::2, :self.X.shape[1]] = self.X
            self.X = big[::2, :self.X.shape[1]]
        elif lay == 'revview':
            self.X = self.X[::-1].copy()[::-1]

    def _init_rmsd(self, case):
        """md.Trajectory data with metric 'rmsd' (float32 inside mdtraj: oracle = float64 Kabsch RMSD of the
        same float32 coordinates, tolerance 5e-3 nm on conformations that differ by ~1 nm)"""
        import mdtraj as md
        g = np.random.default_rng(case['gen_seed'])
        n, na = int(case['n']), int(case['atoms'])
        xyz = (0.3 * g.normal(size=(n, na, 3))).astype(np.float32)
        self.n = n
        self.X = md.Trajectory(xyz, None)
        self.metric = 'rmsd'
        x = xyz.astype(float)
        x = x - x.mean(1, keepdims=True)
        D = np.zeros((n, n))
        for i in range(n):
            for j in range(i + 1, n):
                H = x[i].T @ x[j]
                U, S, Vt = np.linalg.svd(H)
                if np.linalg.det(U) * np.linalg.det(Vt) < 0:
                    S[-1] = -S[-1]
                e = (x[i] ** 2).sum() + (x[j] ** 2).sum() - 2 * S.sum()
                D[i, j] = D[j, i] = np.sqrt(max(e, 0.0) / na)
        self.D_true = D
        self.tol, self.exact = 2e-3, False

    def same_frame(self, center, c):
        """is `center` (what the code reports) the data frame with index c"""
        if self.kindm == 'rmsd':
            return hasattr(center, 'xyz') and np.array_equal(np.asarray(center.xyz).reshape(-1),
                                                             np.asarray(self.X.xyz[c]).reshape(-1))
        cj = np.asarray(center)
        return cj.shape == self.X[c].shape and np.array_equal(cj, self.X[c])

    def _init_large(self, case):
        """large-n family: the data are regenerated from (gen_seed, n, dim, dtype); no n x n table is ever
        built - the oracle computes only the columns of the reported centers"""
        g = np.random.default_rng(case['gen_seed'])
        n = self.n = int(case['n'])
        self.calls = 0
        if self.kindm == 'table':
            pos = g.choice(4 * n, size=n, replace=False).astype(np.int64)   # distinct points on a line
            self.X = np.arange(n).reshape(n, 1).astype(case.get('dtype', 'int64'))

            def metric(X_, y, _pos=pos.copy()):
                self.calls += 1
                ids = np.asarray(X_).reshape(len(X_), -1)[:, 0].astype(np.int64)
                return np.abs(_pos[ids] - _pos[int(np.asarray(y).reshape(-1)[0])]).astype(float)
            self.metric = metric
            self._cols = lambda cs: np.abs(pos[:, None] - pos[np.asarray(cs, dtype=np.int64)][None, :]).astype(float)
            self.tol, self.exact = 0.0, True
        else:
            dim = int(case['dim'])
            w = 2
            while (2 * w + 1) ** dim < 2 * n:
                w += 1
            side = 2 * w + 1
            cells = g.choice(side ** dim, size=n, replace=False)
            coords = np.stack(np.unravel_index(cells, (side,) * dim), 1).astype(np.int64) - w
            self.X = coords.astype(case['dtype'])
            self.metric = self.kindm
            Xf = coords.astype(float)
            if self.kindm == 'euclidean':
                self._cols = lambda cs: np.sqrt(((Xf[:, None, :] - Xf[np.asarray(cs, dtype=np.int64)][None, :, :]) ** 2).sum(-1))
            else:
                self._cols = lambda cs: np.abs(Xf[:, None, :] - Xf[np.asarray(cs, dtype=np.int64)][None, :, :]).sum(-1)
            self.tol, self.exact = 1e-9, (self.kindm == 'manhattan')

    def true_cols(self, cs):
        """independent distances of every frame to the frames `cs` (n x len(cs))"""
        if self.large:
            return self._cols(cs)
        return self.D_true[:, np.asarray(cs, dtype=np.int64)]

    def metric_fn(self):
        """the callable behind the metric name, through PUBLIC functions only (what the private
        util._get_distance_method resolves the names to)"""
        if callable(self.metric):
            return self.metric
        if self.metric == 'rmsd':
            import mdtraj as md
            return md.rmsd
        from enspara.geometry import libdist
        return {'euclidean': libdist.euclidean, 'manhattan': libdist.manhattan}[self.metric]

    def D_model(self):
        """table for the model: what the metric handed to the code returns, column by column"""
        if self._Dm is None:
            if self.kindm == 'table':
                self._Dm = self.D_true
            else:
                f = self.metric_fn()
                cols = [np.asarray(f(self.X, self.X[c])).reshape(-1) for c in range(self.n)]
                self._Dm = np.array(cols).T if self.n else np.zeros((0, 0))
        return self._Dm

    def D_json(self):
        return [[_rat(v) for v in row] for row in self.D_model()]

    def frame_id(self, center):
        c = np.asarray(center)
        for i in range(self.n):
            if c.shape == self.X[i].shape and np.array_equal(c, self.X[i]):
                return i
        return None


# --------------------------------------------------------------------------- oracle (the property's words)

def consistent_msg(P, res):
    """None when `res` (dict inds/assign/dist/centers) is Consistent for problem P, else a message."""
    n = P.n
    inds, a, d, centers = res['inds'], res['assign'], res['dist'], res['centers']
    k = len(inds)
    if a.shape != (n,) or d.shape != (n,):
        return 'labels/distances do not have one entry per frame (%s, %s)' % (a.shape, d.shape)
    if len(centers) != k:
        return 'number of center frames (%d) != number of center indices (%d)' % (len(centers), k)
    for j, c in enumerate(inds):
        if not (0 <= c < n):
            return 'center index %d out of range' % c
        if not P.same_frame(centers[j], c):
            return 'center %d is not the data frame at its reported index %d' % (j, c)
    if not np.issubdtype(a.dtype, np.integer):
        return 'labels are not integers'
    if n and (a.min() < 0 or a.max() >= k):
        return 'label outside [0, %d)' % k
    tol = P.tol
    for f in range(n):
        want = P.D_true[f, inds[a[f]]]
        if abs(d[f] - want) > tol * max(P.unit, abs(want)):
            return 'frame %d: reported distance %r != metric distance %r to its center' % (f, float(d[f]), float(want))
        for j, c in enumerate(inds):
            if P.D_true[f, c] < d[f] - tol * max(P.unit, abs(d[f])):
                return 'frame %d: center %d (frame %d) is strictly closer (%r < %r)' % (
                    f, j, c, float(P.D_true[f, c]), float(d[f]))
    for j, c in enumerate(inds):
        if a[c] != j:
            return 'center %d (frame %d) carries label %d' % (j, c, int(a[c]))
        if abs(d[c]) > tol * P.unit:
            return 'center %d (frame %d) has distance %r' % (j, c, float(d[c]))
    return None


def consistent_msg_vec(P, res):
    """the same predicate, vectorised over frames, using only the columns of the reported centers
    (large-n family)"""
    n = P.n
    inds, a, d, centers = res['inds'], res['assign'], res['dist'], res['centers']
    k = len(inds)
    if a.shape != (n,) or d.shape != (n,):
        return 'labels/distances do not have one entry per frame (%s, %s)' % (a.shape, d.shape)
    if len(centers) != k:
        return 'number of center frames (%d) != number of center indices (%d)' % (len(centers), k)
    for j, c in enumerate(inds):
        if not (0 <= c < n):
            return 'center index %d out of range' % c
        if not P.same_frame(centers[j], c):
            return 'center %d is not the data frame at its reported index %d' % (j, c)
    if not np.issubdtype(a.dtype, np.integer):
        return 'labels are not integers'
    a = a.astype(np.int64)
    if n and (a.min() < 0 or a.max() >= k):
        return 'label outside [0, %d)' % k
    M = P.true_cols(inds)
    want = M[np.arange(n), a]
    bad = np.abs(d - want) > P.tol * np.maximum(P.unit, np.abs(want))
    if bad.any():
        f = int(np.argmax(bad))
        return 'frame %d: reported distance %r != metric distance %r to its center' % (f, float(d[f]), float(want[f]))
    closer = M < (d - P.tol * np.maximum(P.unit, np.abs(d)))[:, None]
    if closer.any():
        f, j = [int(x) for x in np.argwhere(closer)[0]]
        return 'frame %d: center %d (frame %d) is strictly closer (%r < %r)' % (f, j, inds[j], float(M[f, j]), float(d[f]))
    for j, c in enumerate(inds):
        if a[c] != j:
            return 'center %d (frame %d) carries label %d' % (j, c, int(a[c]))
        if abs(d[c]) > P.tol * P.unit:
            return 'center %d (frame %d) has distance %r' % (j, c, float(d[c]))
    return None


def cost_of(dist):
    d = np.asarray(dist, dtype=float)
    return float(np.mean(d * d)) if len(d) else 0.0


# --------------------------------------------------------------------------- running the real code

class RecRS(np.random.RandomState):
    """RandomState that records every choice() (what was offered, what was taken)."""

    def __init__(self, seed):
        super().__init__(seed)
        self.log = []

    def choice(self, a, *args, **kw):
        r = super().choice(a, *args, **kw)
        self.log.append(([int(x) for x in np.asarray(a).reshape(-1)], int(r)))
        return r


def _snap(o):
    if o is None:
        return None
    if isinstance(o, np.ndarray):
        return (o.dtype.str, o.shape, o.tobytes())
    if hasattr(o, 'xyz'):
        return ('traj', np.asarray(o.xyz).shape, np.asarray(o.xyz).tobytes())
    if isinstance(o, (list, tuple)):
        return tuple(_snap(x) for x in o)
    return repr(o)


class _Capture(logging.Handler):
    def __init__(self):
        super().__init__(level=logging.DEBUG)
        self.acc = self.rej = 0
        self.this = 0

    def emit(self, record):
        try:
            m = record.getMessage()
        except Exception:  # noqa
            return
        if m.startswith('Accepted proposed'):
            self.acc += 1
        elif m.startswith('Rejected proposed'):
            self.rej += 1


@contextlib.contextmanager
def quiet_logs():
    lg = logging.getLogger('enspara')
    old = (lg.level, lg.propagate, list(lg.handlers))
    cap = _Capture()
    lg.handlers = [cap]
    lg.propagate = False
    lg.setLevel(logging.DEBUG)
    try:
        yield cap
    finally:
        lg.setLevel(old[0])
        lg.propagate = old[1]
        lg.handlers = old[2]


@contextlib.contextmanager
def seeded_entropy(seed):
    """KMedoids.fit has no seed argument: default_rng(None) and the global RandomState are its
    entropy sources.  Make both reproducible for the duration of one call."""
    real = np.random.default_rng
    state = np.random.get_state()

    def fake(seed_=None, *a, **kw):
        if seed_ is None and not a and not kw:
            return real(seed)
        if 'seed' in kw and kw['seed'] is None:
            kw = dict(kw, seed=seed)
            return real(*a, **kw)
        return real(seed_, *a, **kw) if seed_ is not None else real(*a, **kw)
    np.random.default_rng = fake
    np.random.seed(seed % (2 ** 32))
    try:
        yield
    finally:
        np.random.default_rng = real
        np.random.set_state(state)


def _norm(res):
    inds = [int(i) for i in np.asarray(res.center_indices).reshape(-1)] if len(res.center_indices) else []
    return {'inds': inds, 'assign': np.asarray(res.assignments), 'dist': np.asarray(res.distances, dtype=float),
            'centers': list(res.centers)}


class PrivateHelperChanged(Exception):
    """a private (underscore) helper of enspara is missing or can no longer be called as modelled"""


PRIVATE_TROUBLE = []      # messages; reported once per run as a disagreement, never as an exception


def call_private(module, name, ordered, optional=None):
    """call the private helper `module.name`: `ordered` = [(parameter name, value), ...] in the modelled
    positional order, `optional` = {name: value} keyword extras.  Arguments are bound by the parameter NAMES of
    the actual signature (so positional <-> keyword-only changes do not matter); if names were changed the
    modelled positional order is tried; if that cannot be bound either -> PrivateHelperChanged."""
    import inspect
    fn = getattr(module, name, None)
    if fn is None:
        raise PrivateHelperChanged('%s.%s no longer exists' % (module.__name__, name))
    optional = dict(optional or {})
    try:
        params = inspect.signature(fn).parameters
    except (TypeError, ValueError):
        params = None
    if params is not None:
        names = set(params)
        varkw = any(p.kind == p.VAR_KEYWORD for p in params.values())
        if all(k in names or varkw for k, _ in ordered) and \
                not any(params[k].kind == params[k].POSITIONAL_ONLY for k, _ in ordered if k in params):
            kw = dict(ordered)
            kw.update({k: v for k, v in optional.items() if k in names or varkw})
            missing = [p for p in params.values() if p.default is p.empty and p.name not in kw
                       and p.kind in (p.POSITIONAL_OR_KEYWORD, p.KEYWORD_ONLY)]
            if not missing:
                return fn(**kw)
        # names differ: modelled positional order, optional extras only where they still exist
        try:
            inspect.signature(fn).bind(*[v for _, v in ordered],
                                       **{k: v for k, v in optional.items() if k in names or varkw})
        except TypeError as e:
            raise PrivateHelperChanged('%s.%s%s cannot be called as modelled (%s)' % (
                module.__name__, name, inspect.signature(fn), e))
        return fn(*[v for _, v in ordered], **{k: v for k, v in optional.items() if k in names or varkw})
    return fn(*[v for _, v in ordered], **optional)


def _state_arrays(st, n, adt='int64', ddt='float64'):
    return (np.array(st['assign'], dtype=adt).reshape(n), np.array(st['dist'], dtype=ddt).reshape(n),
            [int(i) for i in st['inds']])


def _as_form(vals, form):
    """an index argument in the container the case asks for"""
    if form == 'array':
        return np.array(vals, dtype=np.int64)
    if form == 'array32':
        return np.array(vals, dtype=np.int32)
    if form == 'tuple':
        return tuple(int(v) for v in vals)
    return [int(v) for v in vals]


def _same_result(a, b):
    return (a['inds'] == b['inds'] and np.array_equal(a['assign'], b['assign'])
            and np.array_equal(a['dist'], b['dist']))


def _copy_result(r):
    return {'inds': list(r['inds']), 'assign': np.array(r['assign']), 'dist': np.array(r['dist']),
            'centers': [c if hasattr(c, 'xyz') else np.array(c) for c in r['centers']]}


def run_real(P, case, n_iters=None, record=None):
    """Run one entry point. Returns dict(ok=norm result | error=name, modified=[…], log=[…]).
    `reuse` = r > 1 repeats the call r times with the SAME argument objects (fresh recorded RandomState of
    the same seed): results must be identical and the arguments untouched after every call.
    kind `kmedoids_feedback`: several rounds, each warm-started from the very objects the previous round
    returned."""
    from enspara.cluster import kcenters as kc, kmedoids as km, hybrid as hy, util
    kind = case['kind']
    X = P.X
    metric = P.metric
    n_iters = case.get('n_iters') if n_iters is None else n_iters
    watched = {'X': X}
    out = {}
    seed = case.get('seed', 0)

    def new_rs():
        if case.get('rs') == 'rec':
            return RecRS(seed)
        if case.get('rs') == 'int':
            return seed
        return None
    ncl = case.get('n_clusters')
    cutoff = case.get('cutoff')
    init = case.get('init')
    init_centers = None
    is_traj = hasattr(X, 'xyz')
    if init is not None:
        if is_traj:
            init_centers = X[init]
        elif case.get('init_form') == 'list':
            init_centers = [X[i].copy() for i in init]
        else:
            init_centers = X[init].copy()
        watched['init_centers'] = init_centers
    st = case.get('state')
    a0 = d0 = i0 = None
    if st is not None:
        a0, d0, i0 = _state_arrays(st, P.n, case.get('assign_dtype', 'int64'), case.get('dist_dtype', 'float64'))
        i0 = _as_form(i0, case.get('inds_form'))
    props = case.get('proposals')
    if props is not None:
        props = _as_form(props, case.get('props_form'))
        watched['proposals'] = props

    def call(rs):
        """one call of the entry point with the prepared argument objects"""
        res = {}
        kw = {}
        if kind == 'assign':
            cs = [X[i].copy() for i in case['centers']]
            a, d = util.assign_to_nearest_center(X, cs, P.metric_fn())
            res['ok'] = {'inds': list(case['centers']), 'assign': np.asarray(a), 'dist': np.asarray(d, dtype=float),
                         'centers': cs}
        elif kind == 'assign_xyz':
            import mdtraj as md
            cs, F = case['centers'], case['frames']
            xyz = np.zeros((len(cs), 1, 3), dtype=np.float32)
            xyz[:, 0, 0] = cs
            C = md.Trajectory(xyz, None)
            if case.get('traj_form') == 'md':
                fx = np.zeros((len(F), 1, 3), dtype=np.float32)
                fx[:, 0, 0] = F
                T = md.Trajectory(fx, None)
            else:
                T = X[F].copy()
            tb = _snap(T)
            a, d = util.assign_to_nearest_center(T, C, P.metric_fn())
            if _snap(T) != tb:
                res['extra_modified'] = ['trajectory']
            res['sub'] = {'assign': np.asarray(a), 'dist': np.asarray(d, dtype=float)}
        elif kind in ('kcenters', 'KCenters.fit'):
            if kind == 'kcenters':
                if ncl is not None:
                    kw['n_clusters'] = ncl
                if cutoff is not None:
                    kw['dist_cutoff'] = cutoff
                if case.get('tri'):
                    kw['use_triangle_inequality'] = True
                r = kc.kcenters(X, metric, init_centers=init_centers, **kw)
            else:
                est = kc.KCenters(metric, n_clusters=ncl, cluster_radius=cutoff)
                est.fit(X, init_centers=init_centers)
                r = est.result_
                res['attrs'] = (est.labels_, est.distances_, est.center_indices_, est.centers_)
            res['ok'] = _norm(r)
        elif kind in ('kmedoids', 'KMedoids.fit'):
            warm = case.get('warm', 'cold')
            if warm in ('ad', 'all'):
                kw['assignments'] = a0
                kw['distances'] = d0
            if warm in ('inds', 'all'):
                kw['cluster_center_inds'] = i0
            if kind == 'kmedoids':
                r = km.kmedoids(X, metric, n_clusters=ncl, n_iters=n_iters, proposals=props,
                                random_state=rs, **kw)
            else:
                with seeded_entropy(seed):
                    est = km.KMedoids(metric, n_clusters=ncl, n_iters=n_iters)
                    est.fit(X, **kw)
                r = est.result_
                res['attrs'] = (est.labels_, est.distances_, est.center_indices_, est.centers_)
            res['ok'] = _norm(r)
        elif kind == 'kmedoids_feedback':
            warm = case.get('warm', 'all')
            if warm in ('ad', 'all'):
                kw['assignments'] = a0
                kw['distances'] = d0
            if warm in ('inds', 'all'):
                kw['cluster_center_inds'] = i0
            rounds = []
            held = []          # (objects handed back by the code, their snapshot when they were returned)
            for t in case['rounds']:
                r = km.kmedoids(X, metric, n_iters=t, proposals=props, random_state=rs, **kw)
                rounds.append(_copy_result(_norm(r)))
                objs = (r.center_indices, r.assignments, r.distances)
                held.append((objs, _snap(list(objs))))
                kw = {'assignments': r.assignments, 'distances': r.distances,
                      'cluster_center_inds': r.center_indices}
            bad = [i for i, (objs, sn) in enumerate(held) if _snap(list(objs)) != sn]
            if bad:
                res['extra_modified'] = ['result of round %d (reused as the next warm start)' % (bad[0] + 1)]
            res['rounds'] = rounds
            res['ok'] = rounds[-1]
        elif kind == 'pam_update':
            try:
                if PRIVATE_TROUBLE:
                    raise PrivateHelperChanged(PRIVATE_TROUBLE[0])
                mi, dd, aa, cc = call_private(
                    km, '_kmedoids_pam_update',
                    [('X', X), ('metric', P.metric_fn()), ('medoid_inds', i0), ('assignments', a0),
                     ('distances', d0)], {'proposals': props, 'random_state': rs})
                res['ok'] = {'inds': [int(i) for i in mi], 'assign': np.asarray(aa),
                             'dist': np.asarray(dd, dtype=float), 'centers': list(cc)}
            except PrivateHelperChanged as e:
                # the private sweep helper cannot be driven as modelled: one sweep from the full warm start
                # through the public function is the same computation
                if not PRIVATE_TROUBLE:
                    PRIVATE_TROUBLE.append(str(e))
                res['via_public'] = True
                r = km.kmedoids(X, metric, n_iters=1, assignments=a0, distances=d0, cluster_center_inds=i0,
                                proposals=props, random_state=rs)
                res['ok'] = _norm(r)
        elif kind in ('hybrid', 'KHybrid.fit'):
            if kind == 'hybrid':
                if ncl is not None:
                    kw['n_clusters'] = ncl
                if cutoff is not None:
                    kw['dist_cutoff'] = cutoff
                r = hy.hybrid(X, metric, n_iters=n_iters, init_centers=init_centers, random_state=rs, **kw)
            else:
                est = hy.KHybrid(metric, n_clusters=ncl, cluster_radius=cutoff, kmedoids_updates=n_iters,
                                 random_state=rs)
                est.fit(X, init_centers=init_centers)
                r = est.result_
                res['attrs'] = (est.labels_, est.distances_, est.center_indices_, est.centers_)
            res['ok'] = _norm(r)
        else:
            raise ValueError('unknown kind %r' % kind)
        return res

    if kind in ('kmedoids', 'KMedoids.fit', 'kmedoids_feedback'):
        warm = case.get('warm', 'cold' if kind != 'kmedoids_feedback' else 'all')
        if warm in ('ad', 'all'):
            watched['assignments'], watched['distances'] = a0, d0
        if warm in ('inds', 'all'):
            watched['cluster_center_inds'] = i0
    elif kind == 'pam_update':
        watched['assignments'], watched['distances'], watched['medoid_inds'] = a0, d0, i0
    before = {k: _snap(v) for k, v in watched.items()}
    modified = []
    rs = None
    try:
        with quiet_logs() as cap:
            first = None
            for rep in range(max(1, int(case.get('reuse', 1)))):
                rs = new_rs()
                cap.acc = cap.rej = 0
                res = call(rs)
                after = {k: _snap(v) for k, v in watched.items()}
                modified += [k for k in before if before[k] != after[k] and k not in modified]
                modified += [k for k in res.get('extra_modified', []) if k not in modified]
                if first is None:
                    first = res
                elif 'ok' in res and not _same_result(first['ok'], res['ok']):
                    out['reuse_differs'] = rep + 1
            out.update(res)
            out['acc'], out['rej'] = cap.acc, cap.rej
    except Exception as e:  # noqa
        out['error'] = type(e).__name__
        out['error_text'] = str(e)[:200]
        after = {k: _snap(v) for k, v in watched.items()}
        modified += [k for k in before if before[k] != after[k] and k not in modified]
    out['modified'] = modified
    if isinstance(rs, RecRS):
        out['log'] = rs.log
    return out


# --------------------------------------------------------------------------- the model

ERRMAP = {'IndexError': 'index-error', 'ValueError': 'value-error', 'DataInvalid': 'data-invalid',
          'AssertionError': 'assertion', 'UnboundLocalError': 'unbound-local'}


def oracle_positions(log):
    """choice() log -> positions in the offered list (what the model's oracle consumes)"""
    return [offered.index(taken) for offered, taken in log]


def model_request(P, case, oracle=None, initial=None, area='C01'):
    """the request for the Lean model that corresponds to `case`"""
    kind = case['kind']
    rq = {'n': P.n, 'D': P.D_json()}
    if kind == 'assign':
        rq.update(op=area + '.assign', centers=list(case['centers']), branch='loop')
    elif kind == 'assign_xyz':
        rq.update(op=area + '.assign', centers=list(case['centers']), branch='argmin')
    elif kind in ('kcenters', 'KCenters.fit'):
        rq.update(op=area + '.kcenters', n_clusters=case.get('n_clusters'),
                  cutoff=_rat(case['cutoff']) if case.get('cutoff') is not None else 0,
                  init=case.get('init'))
    elif kind in ('kmedoids', 'KMedoids.fit', 'pam_update', 'kmedoids_feedback'):
        st = case.get('state')
        warm = case.get('warm', 'cold' if kind != 'kmedoids_feedback' else 'all') if kind != 'pam_update' else 'all'
        rq.update(op=area + ('.pam' if kind == 'pam_update' else '.kmedoids'),
                  n_iters=case.get('n_iters', 1), proposals=case.get('proposals'), oracle=oracle or [])
        if warm == 'cold':
            rq['inds'] = initial
        if warm in ('inds', 'all'):
            rq['inds'] = [int(i) for i in st['inds']]
        if warm in ('ad', 'all'):
            rq['assign'] = [int(i) for i in st['assign']]
            rq['dist'] = [_rat(x) for x in st['dist']]
    elif kind in ('hybrid', 'KHybrid.fit'):
        rq.update(op=area + '.hybrid', n_clusters=case.get('n_clusters'),
                  cutoff=_rat(case['cutoff']) if case.get('cutoff') is not None else 0,
                  init=case.get('init'), n_iters=case.get('n_iters', 0), oracle=oracle or [])
    return rq


def model_state(js):
    return {'inds': js['inds'], 'frames': js['frames'], 'assign': js['assign'],
            'dist': [_unrat(x) for x in js['dist']]}


def same_as_model(P, real, ms):
    """exact comparison of a real result with a model state; None when equal"""
    if real['inds'] != ms['inds']:
        return 'center indices %s vs model %s' % (real['inds'], ms['inds'])
    fr = [P.frame_id(c) for c in real['centers']]
    if fr != ms['frames']:
        return 'center frames %s vs model %s' % (fr, ms['frames'])
    if [int(x) for x in real['assign']] != ms['assign']:
        return 'labels %s vs model %s' % (real['assign'].tolist(), ms['assign'])
    md = ms['dist']
    if len(md) != len(real['dist']):
        return 'distances length'
    for f, (x, y) in enumerate(zip(real['dist'], md)):
        if y is None:
            if not np.isinf(x):
                return 'distance[%d] %r vs model inf' % (f, float(x))
        elif Fraction(float(x)) != y:
            return 'distance[%d] %r vs model %s' % (f, float(x), y)
    return None


def float_tie(P, trace):
    """a PAM decision of this run is rounding sensitive (exact costs within 1e-12 relative while the
    candidate distances differ)"""
    if P.exact:
        return False
    for st in trace:
        o, nw = _unrat(st['old']), _unrat(st['new'])
        if st.get('same'):
            continue
        if abs(o - nw) <= Fraction(1, 10 ** 12) * max(abs(o), abs(nw)):
            return True
    return False


# --------------------------------------------------------------------------- generators

def gen_table(rng, n, style=None):
    """distance table with zero diagonal, positive off-diagonal small integers"""
    style = style or rng.choice(['line', 'grid', 'sym', 'asym', 'ties'])
    if style == 'line':
        pts = rng.choice(np.arange(0, 3 * n + 2), size=n, replace=False)
        D = np.abs(pts[:, None] - pts[None, :])
    elif style == 'grid':
        w = int(np.ceil(np.sqrt(n))) + 1
        cells = rng.choice(w * w, size=n, replace=False)
        xy = np.stack([cells // w, cells % w], 1)
        D = np.abs(xy[:, None, :] - xy[None, :, :]).sum(-1)
    elif style == 'sym':
        A = rng.integers(1, 10, size=(n, n))
        D = np.triu(A, 1)
        D = D + D.T
    elif style == 'asym':
        D = rng.integers(1, 10, size=(n, n))
        np.fill_diagonal(D, 0)
    else:  # many ties
        A = rng.integers(1, 4, size=(n, n))
        D = np.triu(A, 1)
        D = D + D.T
    D = np.array(D, dtype=int)
    np.fill_diagonal(D, 0)
    return D.tolist(), str(style)


def gen_points(rng, n):
    dim = int(rng.integers(1, 4))
    w = 2
    while (2 * w + 1) ** dim < 2 * n:
        w += 1
    seen = set()
    pts = []
    while len(pts) < n:
        p = tuple(int(x) for x in rng.integers(-w, w + 1, size=dim))
        if p not in seen:
            seen.add(p)
            pts.append(list(p))
    return pts


def gen_problem_case(rng, nmax=14, nmin=1):
    n = int(rng.integers(nmin, nmax + 1))
    if rng.random() < 0.6:
        D, style = gen_table(rng, n)
        return {'metric': 'table', 'D': D, 'dtype': str(rng.choice(['int64', 'int32', 'float64', 'float32'])),
                'style': style}
    return {'metric': str(rng.choice(['euclidean', 'manhattan'])), 'X': gen_points(rng, n),
            'dtype': str(rng.choice(['int8', 'int16', 'int32', 'int64', 'float32', 'float64'])), 'style': 'points'}


def consistent_state(rng, P, k, first_tie=False):
    """a Consistent state built independently of the code: k distinct centers, every frame labelled
    with one of its nearest centers (a random one among ties unless first_tie)"""
    n = P.n
    inds = [int(i) for i in rng.choice(n, size=k, replace=False)]
    Dm = P.D_model()
    assign, dist = [], []
    for f in range(n):
        col = [Dm[f, c] for c in inds]
        m = min(col)
        best = [j for j, v in enumerate(col) if v == m]
        j = best[0] if first_tie else int(rng.choice(best))
        assign.append(j)
        dist.append(float(m))
    return {'inds': inds, 'assign': assign, 'dist': dist}


def gen_proposals(rng, P, st):
    """explicit proposals: members of the cluster (mostly), frames of other clusters, the current
    center, another cluster's center"""
    n, k = P.n, len(st['inds'])
    out = []
    for cid in range(k):
        u = rng.random()
        members = [f for f in range(n) if st['assign'][f] == cid]
        if u < 0.6 and members:
            out.append(int(rng.choice(members)))
        elif u < 0.8:
            out.append(int(rng.integers(0, n)))
        elif u < 0.9:
            out.append(int(st['inds'][cid]))
        else:
            out.append(int(st['inds'][int(rng.integers(0, k))]))
    return out


def three_branch_case(rng):
    """constructive: points on a line in three groups so that one PAM step has frames that move closer to
    the proposal (dn), frames of other clusters that stay (up_other) and frames of the replaced center
    that must be recomputed (up_this)"""
    g = int(rng.integers(2, 5))
    a = sorted(int(x) for x in rng.choice(np.arange(0, 20), size=g + 1, replace=False))
    b = sorted(int(x) for x in rng.choice(np.arange(40, 60), size=g, replace=False))
    pts = a + b
    order = [int(i) for i in rng.permutation(len(pts))]
    pts = [pts[i] for i in order]
    D = np.abs(np.array(pts)[:, None] - np.array(pts)[None, :])
    return {'metric': 'table', 'D': D.tolist(), 'dtype': 'int64', 'style': '3branch'}


LARGE_KINDS = ('kcenters', 'KCenters.fit', 'hybrid', 'KHybrid.fit', 'kmedoids', 'KMedoids.fit', 'pam_update', 'assign')


def consistent_state_large(rng, P, inds):
    M = P.true_cols(inds)
    m = M.min(1)
    assign = np.empty(P.n, dtype=int)
    for f in np.flatnonzero((M == m[:, None]).sum(1) > 1):      # random choice among tied nearest centers
        assign[f] = int(rng.choice(np.flatnonzero(M[f] == m[f])))
    single = (M == m[:, None]).sum(1) == 1
    assign[single] = np.argmin(M, 1)[single]
    return {'inds': [int(i) for i in inds], 'assign': [int(x) for x in assign], 'dist': [float(x) for x in m]}


def gen_large_case(rng, kind=None, n=None, k=None, big_k=False):
    """sizes beyond the narrow integer types: frame indices >= 128 / 256 (/ 32768 / 65536) among the
    centers, optionally more than 255 clusters (labels >= 128, >= 256)"""
    kind = kind or str(rng.choice(LARGE_KINDS))
    n = int(n or rng.integers(257, 601))
    style = str(rng.choice(['table', 'euclidean', 'manhattan'], p=[.3, .35, .35]))
    c = {'large': True, 'n': n, 'gen_seed': int(rng.integers(0, 2 ** 31)), 'metric': style, 'kind': kind,
         'style': 'large'}
    if style == 'table':
        c['dtype'] = str(rng.choice(['int64', 'int32', 'float64']))
    else:
        c['dim'] = int(rng.integers(2, 4)) if n < 5000 else 3
        c['dtype'] = str(rng.choice(['int8', 'int16', 'int32', 'int64', 'float32', 'float64']))
    P = Problem(c)
    lt = []
    if big_k:
        k = int(k or rng.integers(256, min(n, 330) + 1))
        lt.append('k>255')
    else:
        k = int(k or rng.integers(2, 7))
    # centers: at least one frame index beyond every narrow-integer boundary that n allows
    want = [b for b in (128, 256, 32768, 65536) if b < n]
    inds = set()
    for b in want[-2:]:
        inds.add(int(rng.integers(b, n)))
    while len(inds) < k:
        inds.add(int(rng.integers(0, n)))
    inds = [int(i) for i in rng.permutation(sorted(inds))][:max(k, 1)]
    if max(inds) >= 256:
        lt.append('center-index>=256')
    if max(inds) >= 65536:
        lt.append('center-index>=65536')
    if n > 65536:
        lt.append('n>65536')
    c['large_tags'] = lt
    if kind == 'assign':
        c['centers'] = inds
    elif kind in ('kcenters', 'KCenters.fit', 'hybrid', 'KHybrid.fit'):
        c['init'] = inds
        c['init_form'] = str(rng.choice(['array', 'list']))
        c['n_clusters'] = len(inds) + int(rng.integers(0, 4))
        c['cutoff'] = None
        if kind in ('hybrid', 'KHybrid.fit'):
            c['n_iters'] = int(rng.integers(1, 3)) if not big_k else 1
            c['rs'] = 'rec' if rng.random() < 0.7 else 'int'
            c['seed'] = int(rng.integers(0, 2 ** 31))
    else:
        st = consistent_state_large(rng, P, inds)
        c['state'] = st
        c['inds_form'] = str(rng.choice(['list', 'array']))
        c['n_iters'] = 1
        c['seed'] = int(rng.integers(0, 2 ** 31))
        if kind == 'pam_update':
            c['rs'] = 'rec'
        else:
            c['warm'] = str(rng.choice(['inds', 'ad', 'all'], p=[.5, .25, .25]))
            c['rs'] = 'global' if kind == 'KMedoids.fit' else ('rec' if rng.random() < 0.7 else 'int')
        if kind != 'KMedoids.fit' and n <= 1000 and not big_k and rng.random() < 0.4:
            c['proposals'] = gen_proposals(rng, P, st)
            c['props_form'] = str(rng.choice(['list', 'array']))
    return c


def large_family(ctx):
    """the large-n cases of one run (both tiers; oracle only)"""
    rng = ctx.rng
    cases = []
    for kind in LARGE_KINDS:
        for _ in range(ctx.n(2, 12)):
            cases.append(gen_large_case(rng, kind=kind))
    # more than 255 clusters (labels >= 128 / >= 256, center indices >= 256)
    cases.append(gen_large_case(rng, kind='assign', n=int(rng.integers(300, 420)), big_k=True))
    ck = gen_large_case(rng, kind='kcenters', n=int(rng.integers(300, 420)), k=3)
    ck['n_clusters'] = int(rng.integers(257, 300))          # cold growth past 255 centers
    ck['large_tags'] = ck['large_tags'] + ['k>255']
    cases.append(ck)
    cases.append(gen_large_case(rng, kind='kmedoids', n=int(rng.integers(280, 340)), big_k=True))
    for _ in range(ctx.n(0, 3)):
        cases.append(gen_large_case(rng, kind=str(rng.choice(['pam_update', 'hybrid', 'KCenters.fit'])),
                                    n=int(rng.integers(300, 420)), big_k=True))
    # more than 65536 frames (uint16 / int16 boundaries), a center beyond index 65536
    for kind in (['kcenters', 'kmedoids'] if not ctx.thorough else
                 ['kcenters', 'KCenters.fit', 'hybrid', 'KHybrid.fit', 'kmedoids', 'pam_update', 'assign']):
        cases.append(gen_large_case(rng, kind=kind, n=int(rng.integers(65600, 70000)), k=int(rng.integers(2, 5))))
    return cases


# ---- audit families (blind-spot classes 2-6)

def vary_containers(rng, c):
    """class 2: every argument in every container / dtype / memory layout the signature admits"""
    c['family'] = c.get('family', 'containers')
    if c.get('state') is not None:
        c['inds_form'] = str(rng.choice(['list', 'array', 'array32']))
        c['assign_dtype'] = str(rng.choice(['int64', 'int32', 'int16', 'int8']))
        if c['metric'] in ('table', 'manhattan'):          # integer-valued distances: float32 holds them exactly
            c['dist_dtype'] = str(rng.choice(['float64', 'float32']))
    if c.get('proposals') is not None:
        c['props_form'] = str(rng.choice(['list', 'tuple', 'array', 'array32']))
    if c.get('init') is not None:
        c['init_form'] = str(rng.choice(['list', 'array']))
    c['x_layout'] = str(rng.choice(['F', 'strided', 'revview']))
    return c


def tie_problem(rng, manhattan=False):
    """class 3: clusters in which every member is an equally good medoid (cliques / pairs: swapping the medoid
    gives EXACTLY the same cost with different distances) next to star-shaped clusters whose hub strictly
    improves on a leaf - far apart, so a step only concerns its own cluster"""
    m = int(rng.integers(2, 6))
    groups, pts = [], []
    for ci in range(m):
        if manhattan:
            shape = str(rng.choice(['single', 'pair', 'ell']))
            base = (20 * ci, int(rng.integers(-2, 3)))
            mem = {'single': [(0, 0)], 'pair': [(0, 0), (1, 0)], 'ell': [(0, 0), (1, 0), (0, 1)]}[shape]
            groups.append((shape, list(range(len(pts), len(pts) + len(mem)))))
            pts += [[base[0] + a, base[1] + b] for a, b in mem]
        else:
            shape = str(rng.choice(['single', 'clique', 'clique', 'star']))
            size = 1 if shape == 'single' else int(rng.integers(2, 5)) if shape == 'clique' else int(rng.integers(3, 6))
            groups.append((shape, list(range(len(pts), len(pts) + size)), int(rng.integers(1, 4))))
            pts += [None] * size
    n = len(pts)
    if manhattan:
        P0 = np.array(pts)
        D = np.abs(P0[:, None, :] - P0[None, :, :]).sum(-1)
    else:
        D = np.zeros((n, n), dtype=int)
        for gi, (sh, mem, w) in enumerate(groups):
            for gj, (sh2, mem2, w2) in enumerate(groups):
                for a in mem:
                    for b in mem2:
                        if a == b:
                            continue
                        if gi != gj:
                            D[a, b] = 10 + (gi + gj) % 3
                        elif sh == 'star':
                            D[a, b] = w if (a == mem[0] or b == mem[0]) else 2 * w
                        else:
                            D[a, b] = w
    gadget = None
    if not manhattan and rng.random() < 0.5:
        # "tie with a label swap": clusters A = {a, p, h} (medoid a) and B = {b, f} (medoid b).  Proposing p for A
        # moves h to B (1 -> 2) and f to A (2 -> 1), a and p trade 0 <-> 1: exactly the same cost, different
        # labels.  A leaked tie-rejected candidate changes who is a member of A / B in the next step.
        a_, p_, h_, b_, f_ = range(n, n + 5)
        gA, gB = len(groups), len(groups) + 1
        groups.append(('gadgetA', [a_, p_, h_], 1))
        groups.append(('gadgetB', [b_, f_], 1))
        n2 = n + 5
        D2 = np.zeros((n2, n2), dtype=int)
        D2[:n, :n] = D
        for gi, g in enumerate(groups):
            for gj, g2 in enumerate(groups):
                if gi != gj and (gi >= gA or gj >= gA):
                    for x in g[1]:
                        for y in g2[1]:
                            D2[x, y] = 10 + (gi + gj) % 3
        for (x, y, v) in [(a_, p_, 1), (a_, h_, 1), (p_, h_, 3), (h_, b_, 2), (f_, b_, 2), (f_, p_, 1), (f_, a_, 3),
                          (a_, b_, 5), (p_, b_, 5), (h_, f_, 4)]:
            D2[x, y] = D2[y, x] = v
        D, n = D2, n2
        gadget = (a_, b_)
    # medoids: any member; for stars mostly a leaf (so that the hub is a strictly better proposal)
    meds = []
    for g in groups:
        mem = g[1]
        if g[0].startswith('gadget'):
            meds.append(int(mem[0]))
        else:
            meds.append(int(mem[-1] if (g[0] in ('star', 'ell') and rng.random() < 0.7) else rng.choice(mem)))
    m = len(groups)
    perm = [int(i) for i in rng.permutation(n)]          # new frame i = old frame perm[i]
    inv = {o: i for i, o in enumerate(perm)}
    D = D[np.ix_(perm, perm)]
    order = [int(i) for i in rng.permutation(m)]
    if gadget is not None:                       # cluster A is updated before cluster B
        ia, ib = order.index(m - 2), order.index(m - 1)
        if ia > ib:
            order[ia], order[ib] = order[ib], order[ia]
    inds = [inv[meds[g]] for g in order]
    label_of = {}
    for lbl, g in enumerate(order):
        for o in groups[g][1]:
            label_of[inv[o]] = lbl
    assign = [label_of[f] for f in range(n)]
    dist = [float(D[f, inds[assign[f]]]) for f in range(n)]
    members = {lbl: [inv[o] for o in groups[g][1]] for lbl, g in enumerate(order)}
    if manhattan:
        prob = {'metric': 'manhattan', 'X': [pts[o] for o in perm],
                'dtype': str(rng.choice(['int16', 'int32', 'int64', 'float64'])), 'style': 'tie-pairs'}
        gadget = None
    else:
        prob = {'metric': 'table', 'D': D.tolist(), 'dtype': 'int64', 'style': 'tie-cliques'}
    prob['gadget'] = gadget is not None
    return prob, {'inds': inds, 'assign': assign, 'dist': dist}, members


def gen_tie_case(rng):
    prob, st, members = tie_problem(rng, manhattan=rng.random() < 0.3)
    c = dict(prob)
    has_gadget = c.pop('gadget', False)
    c['family'] = 'exact-ties'
    c['state'] = st
    c['seed'] = int(rng.integers(0, 2 ** 31))
    k = len(st['inds'])
    u = rng.random()
    if u < (0.25 if has_gadget else 0.6):
        # explicit proposals: another member of the own cluster (an exact tie unless it is a star's hub)
        props = []
        for lbl in range(k):
            others = [f for f in members[lbl] if f != st['inds'][lbl]]
            props.append(int(rng.choice(others)) if others and rng.random() < 0.85 else int(st['inds'][lbl]))
        c['proposals'] = props
        c['props_form'] = str(rng.choice(['list', 'tuple', 'array']))
        c['rs'] = None
    else:
        c['rs'] = 'rec'
    c['inds_form'] = str(rng.choice(['list', 'array']))
    v = rng.random()
    if v < 0.3:
        c['kind'] = 'pam_update'
        c['n_iters'] = 1
        c['chain'] = int(rng.integers(2, 5))
    elif v < 0.75:
        c['kind'] = 'kmedoids'
        c['warm'] = str(rng.choice(['all', 'inds', 'ad']))
        c['n_iters'] = int(rng.integers(2 if has_gadget else 1, 5))
    else:
        c['kind'] = 'kmedoids_feedback'
        c['warm'] = 'all'
        c['rounds'] = [int(x) for x in rng.integers(1, 3, size=int(rng.integers(2, 4)))]
        c['n_iters'] = int(sum(c['rounds']))
    return c


def degenerate_problem(rng):
    """class 4: all points equidistant; one far outlier next to a tight group; two points"""
    n = int(rng.integers(2, 9))
    style = str(rng.choice(['simplex', 'outlier']))
    if style == 'simplex':
        w = int(rng.integers(1, 5))
        D = (w * (1 - np.eye(n, dtype=int))).tolist()
    else:
        A = rng.integers(1, 3, size=(n, n))
        D = np.triu(A, 1)
        D = D + D.T
        D[-1, :] = D[:, -1] = 1000
        D[-1, -1] = 0
        p = [int(i) for i in rng.permutation(n)]
        D = D[np.ix_(p, p)].tolist()
    return {'metric': 'table', 'D': D, 'dtype': str(rng.choice(['int64', 'float64'])), 'style': style}


def gen_degenerate_case(rng):
    prob = degenerate_problem(rng)
    n = len(prob['D'])
    k = int(rng.choice([1, 2, max(1, n - 1), n]))
    kind = str(rng.choice(['kcenters', 'KCenters.fit', 'kmedoids', 'KMedoids.fit', 'pam_update', 'hybrid',
                           'KHybrid.fit', 'assign']))
    c = gen_case(rng, kind=kind, problem=prob, force_k=min(k, n))
    if kind == 'assign':
        c['centers'] = [int(i) for i in rng.choice(n, size=min(k, n), replace=False)]
    c['family'] = 'degenerate'
    return c


def gen_reuse_case(rng):
    """class 5: the same argument objects handed to the same call several times; returned objects fed back
    as the next warm start"""
    u = rng.random()
    if u < 0.45:
        c = gen_case(rng, kind='kmedoids')
        while c.get('warm') == 'cold':
            c = gen_case(rng, kind='kmedoids')
        c['kind'] = 'kmedoids_feedback'
        c['rounds'] = [int(x) for x in rng.integers(1, 3, size=int(rng.integers(2, 5)))]
        c['n_iters'] = int(sum(c['rounds']))
        if c.get('rs') == 'int':
            c['rs'] = 'rec'
    else:
        kind = str(rng.choice(['kmedoids', 'pam_update', 'kcenters', 'hybrid', 'KMedoids.fit']))
        c = gen_case(rng, kind=kind)
        if c.get('n_iters') == 0:
            c['n_iters'] = 1
        c['reuse'] = int(rng.integers(2, 4))
    if c.get('state') is not None:
        c['inds_form'] = str(rng.choice(['array', 'array32', 'list']))
    c['family'] = 'reuse'
    return c


def gen_config_case(rng):
    """class 6: many sweeps; proposals that are exactly the current medoids; zero / one sweep"""
    kind = str(rng.choice(['kmedoids', 'pam_update', 'hybrid', 'KHybrid.fit', 'KMedoids.fit']))
    c = gen_case(rng, kind=kind)
    u = rng.random()
    if kind in ('kmedoids', 'pam_update') and c.get('state') is not None and c.get('warm') != 'cold' and u < 0.5:
        c['proposals'] = [int(i) for i in c['state']['inds']]
        c['props_form'] = str(rng.choice(['list', 'array', 'tuple']))
        c['rs'] = None
    if kind != 'pam_update':
        c['n_iters'] = int(rng.choice([0, 1, 1, 7, 9, 12])) if kind != 'hybrid' else int(rng.choice([0, 1, 8, 11]))
    c['family'] = 'config'
    return c


def gen_rmsd_case(rng):
    """class 2: md.Trajectory data with the 'rmsd' metric (oracle only)"""
    n = int(rng.integers(6, 13))
    c = {'metric': 'rmsd', 'n': n, 'atoms': int(rng.integers(4, 7)), 'gen_seed': int(rng.integers(0, 2 ** 31)),
         'style': 'rmsd', 'family': 'rmsd-trajectory'}
    kind = str(rng.choice(['kcenters', 'KCenters.fit', 'hybrid', 'KHybrid.fit', 'kmedoids']))
    c['kind'] = kind
    k = int(rng.integers(1, max(2, n // 2) + 1))
    c['seed'] = int(rng.integers(0, 2 ** 31))
    if kind == 'kmedoids':
        c['warm'] = 'cold'
        c['n_clusters'] = k
        c['n_iters'] = int(rng.integers(1, 3))
        c['rs'] = 'int'
    else:
        c['n_clusters'] = k
        c['cutoff'] = None
        if rng.random() < 0.4:
            c['init'] = [int(i) for i in rng.choice(n, size=min(k, 2), replace=False)]
        if kind in ('hybrid', 'KHybrid.fit'):
            c['n_iters'] = int(rng.integers(0, 3))
            c['rs'] = 'int'
    return c


def gen_repeated_init_case(rng):
    """OUTSIDE the quantifier (init centers are distinct frames of the data): an init frame given twice.  The code
    then reports fewer center indices than center coordinates; nothing of the property is evaluated, the run
    only checks that Model.Cluster mirrors the code on this input as well."""
    kind = str(rng.choice(['kcenters', 'KCenters.fit', 'hybrid']))
    c = gen_case(rng, kind=kind)
    n = Problem(c).n
    base = [int(i) for i in rng.choice(n, size=int(rng.integers(1, min(n, 3) + 1)), replace=False)]
    init = base + [base[int(rng.integers(0, len(base)))]]
    c['init'] = [init[i] for i in rng.permutation(len(init))]
    c['init_form'] = str(rng.choice(['array', 'list']))
    if c.get('n_clusters') is None and (c.get('cutoff') in (None, 0)):
        c['n_clusters'] = len(init)
    if kind == 'hybrid':
        c['rs'] = 'rec'
    c.pop('tri', None)
    c['outside'] = 'repeated-init-frame'
    c['family'] = 'outside-quantifier'
    return c


def audit_families(ctx, kinds=None):
    """the families added by the generator blind-spot audit (classes 2-6), both tiers"""
    rng = ctx.rng
    cases = []
    for _ in range(ctx.n(40, 600)):                       # class 2
        kind = str(rng.choice(['kmedoids', 'pam_update', 'hybrid', 'kcenters', 'KMedoids.fit', 'KHybrid.fit',
                               'KCenters.fit', 'assign']))
        cases.append(vary_containers(rng, gen_case(rng, kind=kind)))
    # md.Trajectory + 'rmsd' is NOT generated: mdtraj's rmsd centers the caller's trajectory in place, so
    # "inputs are not modified" cannot hold for it; C01 quantifies over euclidean / manhattan / user callables.
    for _ in range(ctx.n(40, 500)):                       # class 3: scale
        c = gen_case(rng, scale_exp=int(rng.choice([30, -30, -40, -40, 20])),
                     kind=None if rng.random() < 0.4 else str(rng.choice(['kmedoids', 'pam_update', 'hybrid'])))
        c['family'] = 'scaled'
        cases.append(c)
    for _ in range(ctx.n(60, 1500)):                      # class 3: exact ties
        cases.append(gen_tie_case(rng))
    for _ in range(ctx.n(40, 500)):                       # class 4
        cases.append(gen_degenerate_case(rng))
    for _ in range(ctx.n(40, 600)):                       # class 5
        cases.append(gen_reuse_case(rng))
    for _ in range(ctx.n(30, 400)):                       # class 6
        cases.append(gen_config_case(rng))
    for _ in range(ctx.n(8, 80)):                         # outside the quantifier: model vs code only
        cases.append(gen_repeated_init_case(rng))
    if kinds is not None:
        cases = [c for c in cases if c['kind'] in kinds]
    return cases


def gen_case(rng, kind=None, nmax=14, problem=None, scale_exp=0, force_k=None):
    kind = kind or str(rng.choice(ENTRY_KINDS, p=[.14, .08, .24, .08, .2, .14, .08, .04]))
    if problem is not None:
        c = dict(problem)
    else:
        c = gen_problem_case(rng, nmax=nmax, nmin=2 if kind != 'kcenters' else 1)
        if kind in ('pam_update', 'kmedoids') and rng.random() < 0.15:
            c = three_branch_case(rng)
    if scale_exp:
        c['scale_exp'] = int(scale_exp)
        if c['metric'] != 'table':
            c['dtype'] = 'float64' if abs(scale_exp) > 20 or rng.random() < 0.5 else 'float32'
    c['kind'] = kind
    P = Problem(c)
    n = P.n
    if kind == 'assign_xyz':
        n = int(rng.integers(2, nmax + 1))
        D, style = gen_table(rng, n, style=str(rng.choice(['line', 'grid', 'sym', 'ties'])))
        c = {'metric': 'table', 'D': D, 'dtype': 'int64', 'style': style, 'kind': kind}
        k = int(rng.integers(2, n + 1))
        c['centers'] = [int(i) for i in rng.choice(n, size=k, replace=False)]
        c['frames'] = [int(i) for i in rng.choice(n, size=int(rng.integers(1, k)), replace=False)]
        c['traj_form'] = str(rng.choice(['array', 'md']))
        return c
    if kind == 'assign':
        k = int(rng.integers(1, n + 1))
        c['centers'] = [int(i) for i in rng.choice(n, size=k, replace=False)]
    elif kind in ('kcenters', 'KCenters.fit', 'hybrid', 'KHybrid.fit'):
        mode = rng.random()
        dmax = float(np.max(P.D_true)) / P.unit if n > 1 else 1.0
        if force_k is not None:
            c['n_clusters'] = int(force_k)
            c['cutoff'] = None
        elif mode < 0.55:
            c['n_clusters'] = int(rng.integers(1, n + 3))
            c['cutoff'] = None if rng.random() < 0.7 else 0
        elif mode < 0.8:
            c['n_clusters'] = None
            c['cutoff'] = [0.5, 1, 1.5, 2, 3, max(1.0, np.floor(dmax / 2)), max(1.0, np.floor(dmax)), dmax + 1][
                int(rng.integers(0, 8))]
        else:
            c['n_clusters'] = int(rng.integers(1, n + 3))
            c['cutoff'] = [1, 2, max(1.0, np.floor(dmax / 2))][int(rng.integers(0, 3))]
        if c['cutoff'] is not None:
            c['cutoff'] = float(c['cutoff']) * P.unit
        if rng.random() < 0.35:
            ki = int(rng.integers(1, min(n, 4) + 1))
            c['init'] = [int(i) for i in rng.choice(n, size=ki, replace=False)]
            c['init_form'] = str(rng.choice(['array', 'list']))
        if kind == 'kcenters' and P.kindm != 'table' and rng.random() < 0.25:
            c['tri'] = True
        if kind in ('hybrid', 'KHybrid.fit'):
            c['n_iters'] = int(rng.integers(0, 4))
            c['rs'] = 'rec' if rng.random() < 0.8 else 'int'
            c['seed'] = int(rng.integers(0, 2 ** 31))
    elif kind in ('kmedoids', 'KMedoids.fit', 'pam_update'):
        k = int(rng.integers(1, n + 1)) if rng.random() < 0.9 else n
        k = min(k, max(1, n))
        if force_k is not None:
            k = min(int(force_k), n)
        st = consistent_state(rng, P, k, first_tie=rng.random() < 0.3)
        c['n_iters'] = int(rng.integers(1, 5)) if kind != 'pam_update' else 1
        c['seed'] = int(rng.integers(0, 2 ** 31))
        if kind == 'pam_update':
            c['state'] = st
            c['inds_form'] = str(rng.choice(['list', 'array']))
        else:
            c['warm'] = str(rng.choice(['cold', 'inds', 'ad', 'all']))
            if c['warm'] == 'cold':
                # the cold start redraws all k indices until they are distinct: keep the expected number of
                # redraws small (k = n only for tiny n)
                if n > 7 and k > n // 2:
                    k = max(1, n // 2)
                    st = consistent_state(rng, P, k)
                c['n_clusters'] = k
            else:
                c['state'] = st
                c['inds_form'] = str(rng.choice(['list', 'array']))
                if rng.random() < 0.3:
                    c['n_clusters'] = k
        if kind == 'KMedoids.fit':
            c['rs'] = 'global'
            if rng.random() < 0.1:
                c['n_iters'] = 0
        elif rng.random() < 0.5:
            if c.get('warm') == 'cold':
                c['proposals'] = [int(x) for x in rng.integers(0, n, size=k)]
            else:
                c['proposals'] = gen_proposals(rng, P, st)
            c['props_form'] = str(rng.choice(['list', 'array']))
            c['rs'] = 'rec' if (rng.random() < 0.5 or c.get('warm') == 'cold') else None
        else:
            c['rs'] = 'rec' if (rng.random() < 0.8 or kind == 'pam_update') else 'int'
        if kind == 'kmedoids' and rng.random() < 0.05:
            c['n_iters'] = 0
    return c


# --------------------------------------------------------------------------- one case, all checks

def _fail(ctx, what, case, key=None):
    ctx.violation(what, {k: v for k, v in case.items()}, key=key)


def check_attrs(P, out):
    """estimator attributes are the result's fields"""
    if 'attrs' not in out or 'ok' not in out:
        return None
    lab, dist, ci, cen = out['attrs']
    r = out['ok']
    if not np.array_equal(np.asarray(lab), r['assign']) or not np.array_equal(np.asarray(dist), r['dist']):
        return 'estimator labels_/distances_ differ from result_'
    if [int(i) for i in ci] != r['inds'] or len(cen) != len(r['centers']):
        return 'estimator center_indices_/centers_ differ from result_'
    return None


def expected_k(P, case, res):
    """number of centers the call must report (None when the radius decides)"""
    kind = case['kind']
    if kind in ('kmedoids', 'KMedoids.fit', 'pam_update', 'kmedoids_feedback'):
        if case.get('warm', 'cold') == 'cold' and kind in ('kmedoids', 'KMedoids.fit'):
            return case['n_clusters']
        return len(case['state']['inds'])
    return None


def phase1(ctx, case, area='C01'):
    """run the real entry point on the case, evaluate Consistent (+ inputs unmodified) on the output;
    returns a record holding the model request (or None when the case is finished)."""
    P = Problem(case)
    kind = case['kind']
    T = case.get('n_iters', 0) or 0
    out = run_real(P, case)
    rec = {'case': case, 'P': P, 'out': out, 'rq': None, 'bad': False}
    tags = [kind, 'metric=' + P.kindm, 'dtype=' + str(getattr(P.X, 'dtype', 'trajectory')), 'n=%s' % ('1' if P.n == 1 else '2-5' if P.n <= 5
                                                                          else '6-14' if P.n <= 14 else '15+')]
    if case.get('style'):
        tags.append('table=' + case['style'])
    for k in ('warm', 'rs'):
        if case.get(k):
            tags.append('%s=%s' % (k, case[k]))
    if case.get('init') is not None:
        tags.append('init_centers')
    if case.get('proposals') is not None:
        tags.append('explicit-proposals')
    if case.get('tri'):
        tags.append('triangle-shortcut')
    if P.large:
        tags.append('large-n')
        tags += case.get('large_tags', [])
    if case.get('family'):
        tags.append('family=' + case['family'])
    for kf in ('inds_form', 'props_form', 'assign_dtype', 'dist_dtype', 'x_layout'):
        if case.get(kf) and (kf != 'props_form' or case.get('proposals') is not None) and \
                (kf not in ('inds_form', 'assign_dtype', 'dist_dtype') or case.get('state') is not None):
            tags.append('%s=%s' % (kf, case[kf]))
    if case.get('scale_exp'):
        tags.append('scale=2^%d' % case['scale_exp'])
    if case.get('reuse', 1) > 1:
        tags.append('same-objects-reused')
    if kind == 'kmedoids_feedback':
        tags.append('results-fed-back-rounds=%d' % len(case['rounds']))
    if case.get('proposals') is not None and case.get('state') is not None and \
            [int(p) for p in case['proposals']] == [int(i) for i in case['state']['inds']]:
        tags.append('proposals=current-medoids')
    if kind not in ('kcenters', 'KCenters.fit', 'assign', 'assign_xyz', 'pam_update'):
        tags.append('n_iters=%s' % ('0' if T == 0 else '1' if T == 1 else '2-4' if T <= 4 else '5+'))
    if hasattr(P.X, 'dtype'):
        pass
    k_guess = len(out['ok']['inds']) if 'ok' in out else 0
    if 'ok' in out:
        tags.append('k=1' if k_guess == 1 else 'k=n' if k_guess == P.n else 'k>n' if k_guess > P.n else '1<k<n')
    ctx.case(case, nontrivial=('ok' in out and k_guess >= 2 and P.n > k_guess) or kind == 'pam_update', tags=tags)

    if case.get('outside'):
        # input outside the property's quantifier: no predicate, only code vs model
        ctx.tag('outside-quantifier:' + case['outside'])
        if USE_MODEL and not P.skip_model:
            oracle = oracle_positions(out['log']) if out.get('log') else []
            rec['rq'] = model_request(P, case, oracle=oracle, area=area)
        return rec
    if kind == 'assign_xyz':
        # per-frame argmin branch (more centers than frames, centers are an md.Trajectory)
        if 'error' in out:
            _fail(ctx, 'assign_to_nearest_center raised %s (%s)' % (out['error'], out.get('error_text')), case)
            rec['bad'] = True
            return rec
        cs, F, sub = case['centers'], case['frames'], out['sub']
        msg = None
        if sub['assign'].shape != (len(F),) or sub['dist'].shape != (len(F),):
            msg = 'one label/distance per frame expected'
        for i, f in enumerate(F):
            if msg:
                break
            a = int(sub['assign'][i])
            if not (0 <= a < len(cs)):
                msg = 'label outside [0, %d)' % len(cs)
            elif sub['dist'][i] != P.D_true[f, cs[a]]:
                msg = 'frame %d: distance %r != metric distance to its center' % (f, float(sub['dist'][i]))
            elif any(P.D_true[f, c] < sub['dist'][i] for c in cs):
                msg = 'frame %d: another center is strictly closer' % f
        if msg is None and out.get('modified'):
            msg = 'input(s) modified by the call: %s' % ', '.join(out['modified'])
        if msg:
            _fail(ctx, 'assign_to_nearest_center (argmin branch): %s' % msg, case)
            rec['bad'] = True
            return rec
        ctx.tag('assign-argmin-branch')
        if USE_MODEL:
            rec['rq'] = model_request(P, case, area=area)
        return rec

    # ---- the property's predicate on the real output
    if 'error' in out:
        if kind in ('kmedoids', 'KMedoids.fit') and T == 0 and out['error'] == 'UnboundLocalError':
            ctx.tag('kmedoids-zero-sweeps-raises')
            if kind == 'KMedoids.fit':
                return rec
        else:
            _fail(ctx, '%s raised %s (%s) on valid input' % (kind, out['error'], out.get('error_text')), case)
            rec['bad'] = True
            return rec
    else:
        msg = consistent_msg_vec(P, out['ok']) if P.large else consistent_msg(P, out['ok'])
        if msg is None:
            msg = check_attrs(P, out)
        if msg is None and out.get('modified'):
            msg = 'input(s) modified by the call: %s' % ', '.join(out['modified'])
        if msg is None and out.get('reuse_differs'):
            msg = 'same argument objects, same seed: call %d returned a different result' % out['reuse_differs']
        if msg is None and kind == 'kmedoids_feedback':
            for ri, rr in enumerate(out['rounds']):
                m2 = consistent_msg(P, rr)
                if m2 is None and len(rr['inds']) != len(case['state']['inds']):
                    m2 = 'number of centers changed'
                if m2:
                    msg = 'round %d (warm start from the previous result): %s' % (ri + 1, m2)
                    break
        ek = expected_k(P, case, out['ok'])
        if msg is None and ek is not None and len(out['ok']['inds']) != ek:
            msg = 'number of centers %d != %d' % (len(out['ok']['inds']), ek)
        if msg is not None:
            _fail(ctx, '%s: %s' % (kind, msg), case)
            rec['bad'] = True
            return rec
        if msg is None and P.n and np.any(np.bincount(np.asarray(out['ok']['assign']).astype(int)) == 1):
            ctx.tag('singleton-cluster')
        if out.get('acc'):
            ctx.tag('pam-accept', out['acc'])
        if out.get('rej'):
            ctx.tag('pam-reject', out['rej'])

    # ---- the model
    if case.get('tri'):
        ctx.tag('predicate-only')
        return rec
    if case.get('rs') in ('int', 'global') and case.get('proposals') is None \
            and (T > 0 or kind in ('kmedoids', 'KMedoids.fit')):
        # proposals not observable: reproducibility instead of the model
        out2 = run_real(P, case)
        if ('ok' in out) != ('ok' in out2) or ('ok' in out and (
                out['ok']['inds'] != out2['ok']['inds'] or not np.array_equal(out['ok']['assign'], out2['ok']['assign'])
                or not np.array_equal(out['ok']['dist'], out2['ok']['dist']))):
            _fail(ctx, '%s: same seed, different result' % kind, case)
            rec['bad'] = True
            return rec
        ctx.tag('seed-reproducible')
        return rec
    if not USE_MODEL:
        return rec
    if P.skip_model:
        # an n x n table of rationals is too large to ship / float32 rmsd is not a table the model sees: oracle only
        ctx.tag('model-skipped-' + P.skip_model)
        return rec
    initial = None
    if kind == 'kmedoids' and case.get('warm', 'cold') == 'cold':
        initial = cold_start_centers(P, case)
        if initial is None:
            if 'cold-start' not in [t[:10] for t in PRIVATE_TROUBLE]:
                PRIVATE_TROUBLE.append('cold-start centers of kmedoids() are not observable through its first '
                                       'n_clusters metric calls any more (%s)' % '; '.join(COLD_START_NOTE))
            ctx.tag('model-skipped-cold-start-unobservable')
            return rec
    oracle = oracle_positions(out['log']) if out.get('log') else []
    rec['rq'] = model_request(P, case, oracle=oracle, initial=initial, area=area)
    return rec


COLD_START_NOTE = []


def cold_start_centers(P, case):
    """the frames a cold start of kmedoids() draws as initial centers, observed through the PUBLIC function: its
    input normalisation computes `assign_to_nearest_center(X, X[centers])`, i.e. the first n_clusters metric
    calls have the drawn centers, in order, as second argument.  None when that cannot be observed."""
    from enspara.cluster import kmedoids as km
    k = case['n_clusters']
    base = P.metric_fn()
    seen = []

    def recording(X_, y):
        if len(seen) < k:
            seen.append(P.frame_id(y))
        return base(X_, y)
    rs0 = RecRS(case['seed']) if case.get('rs') == 'rec' else case.get('seed')
    err = None
    try:
        with quiet_logs():
            km.kmedoids(P.X, recording, n_clusters=k, n_iters=1, random_state=rs0)
    except Exception as e:  # noqa
        err = '%s: %s' % (type(e).__name__, str(e)[:160])
    if len(seen) != k or any(i is None for i in seen) or len(set(seen)) != k:
        COLD_START_NOTE[:] = ['saw %s as the first metric targets%s' % (seen, '; the call raised ' + err if err else '')]
        return None
    return [int(i) for i in seen]


def _safely(ctx, what, case, fn, private=False):
    """run a harness step; an unexpected exception never escapes.  Exceptions of the real PUBLIC entry points are
    caught inside `run_real` (-> 'error' in its output -> a violation of that case, decided in phase1); whatever
    arrives HERE was raised by harness / oracle / model-comparison code (or a helper call that only serves the
    comparison), so it is never a concrete-input violation: it is recorded as a disagreement, with the traceback."""
    try:
        return fn()
    except Exception as e:  # noqa
        import traceback
        tb = traceback.format_exc()
        where = tb.strip().split('\n')[-3:]
        msg = '%s: harness-side %s (%s) at %s' % (what, type(e).__name__, str(e)[:160],
                                                 ' | '.join(w.strip() for w in where))
        ctx.disagreement(msg, dict(case, _traceback=tb[-1500:]))
        return None


def check_cases(ctx, cases, area='C01', extra=None):
    """phase 1 on every case, one batched driver call, then the comparisons.
    `extra(ctx, rec, model_response_or_None)` lets C09 add its predicates.
    No exception escapes: one raised by a public entry point is caught in run_real and judged in phase1 (a
    violation of that case); one raised by harness / oracle / comparison code is a disagreement (see _safely)."""
    del PRIVATE_TROUBLE[:]
    recs = []
    for c in cases:
        r = _safely(ctx, 'running %s' % c.get('kind'), c, lambda c=c: phase1(ctx, c, area=area))
        if r is not None:
            recs.append(r)
    todo = [r for r in recs if r['rq'] is not None]
    resp = ctx.driver([r['rq'] for r in todo]) if todo else []
    for r, m in zip(todo, resp):
        r['model'] = m
        _safely(ctx, 'comparing %s with the model' % r['case'].get('kind'), r['case'],
                lambda r=r, m=m: compare_with_model(ctx, r['P'], r['case'], r['out'], m, area=area), private=True)
    if extra:
        for r in recs:
            if not r['bad']:
                _safely(ctx, '%s predicates on %s' % (area, r['case'].get('kind')), r['case'],
                        lambda r=r: extra(ctx, r, r.get('model')))
    if PRIVATE_TROUBLE:
        first = next((r['case'] for r in recs if r['out'].get('via_public')), cases[0] if cases else {})
        ctx.disagreement('private helper can no longer be driven as modelled: %s (the public API was used instead)'
                         % '; '.join(PRIVATE_TROUBLE), dict(first))
    return recs


def compare_with_model(ctx, P, case, out, m, area='C01'):
    kind = case['kind']
    if kind == 'assign_xyz':
        if 'ok' not in m:
            ctx.disagreement('Model.Cluster.assignArgmin gives %s' % m, dict(case))
            return
        ms = model_state(m['ok']['final'])
        F, sub = case['frames'], out['sub']
        if [ms['assign'][f] for f in F] != [int(x) for x in sub['assign']] or \
                [ms['dist'][f] for f in F] != [Fraction(float(x)) for x in sub['dist']]:
            ctx.disagreement('Model.Cluster.assignArgmin vs assign_to_nearest_center (argmin branch)', dict(case))
        else:
            ctx.tag('model-agrees')
        return
    if 'error' in m:
        if 'error' in out and ERRMAP.get(out['error']) == m['error']:
            ctx.tag('error-branch-agrees')
            return
        ctx.disagreement('Model.Cluster %s gives error %s, %s gives %s' % (
            m.get('error'), kind, kind, out.get('error', 'a result')), dict(case))
        return
    if 'error' in out:
        ctx.disagreement('%s raised %s, model returns a state' % (kind, out['error']), dict(case))
        return
    mo = m['ok']
    trace = mo.get('trace', [])
    for st in trace:
        if st['old'] == st['new'] and not st.get('same'):
            ctx.tag('pam-exact-tie-other-candidate')
            if st['dn'] >= 2:
                ctx.tag('pam-exact-tie-with-label-swap')
            if any(s2['acc'] for s2 in trace[trace.index(st) + 1:]):
                ctx.tag('pam-accept-after-exact-tie')
        for b in ('dn', 'other', 'this'):
            if st[b]:
                ctx.tag('pam-branch-' + b)
        if st['dn'] and st['other'] and st['this']:
            ctx.tag('pam-all-three-branches')
    if float_tie(P, trace):
        ctx.tag('float-tie')
        ctx.skip('float-tie: exact PAM costs within 1e-12 relative')
        return
    msg = same_as_model(P, out['ok'], model_state(mo['final']))
    if msg is None and 'acc' in out and trace:
        nacc = sum(1 for st in trace if st['acc'])
        if out['acc'] + out['rej'] == len(trace) and nacc != out['acc']:
            msg = 'accepted proposals %d vs model %d' % (out['acc'], nacc)
    if msg is None and out.get('log') and len(trace) == len(out['log']):
        # every recorded random draw must be the frame the model proposes at that step, i.e. a member of the
        # cluster being updated at that moment (the offered list is np.where(assignments == cid))
        for i, (stp, (offered, taken)) in enumerate(zip(trace, out['log'])):
            if stp['p'] != taken:
                msg = 'random proposal %d (center %d): the code drew frame %d from %s, the members of that ' \
                      'cluster give frame %d' % (i, stp['cid'], taken, offered, stp['p'])
                break
    if msg is None and 'log' in out and mo.get('used') is not None and mo['used'] != len(out['log']):
        msg = 'random choices consumed %d vs model %d' % (len(out['log']), mo['used'])
    if msg is not None:
        ctx.disagreement('Model.Cluster vs %s: %s' % (kind, msg), dict(case))
        return
    if msg is None and kind == 'kmedoids_feedback':
        cum = 0
        for ri, (t, rr) in enumerate(zip(case['rounds'], out['rounds'])):
            cum += t
            m2 = same_as_model(P, rr, model_state(mo['sweeps'][cum - 1]))
            if m2:
                ctx.disagreement('Model.Cluster vs kmedoids fed back, round %d: %s' % (ri + 1, m2), dict(case))
                return
        ctx.tag('fed-back-rounds-agree')
    ctx.tag('model-agrees')
    # sweep by sweep (deterministic prefixes): state after t sweeps == model's t-th state
    T = case.get('n_iters', 0) or 0
    if kind in ('kmedoids', 'hybrid') and T >= 2 and mo.get('sweeps') and (
            case.get('proposals') is not None or case.get('rs') == 'rec'):
        for t in range(1, T):
            o = run_real(P, case, n_iters=t)
            if 'ok' not in o:
                ctx.disagreement('%s with %d sweeps raised %s' % (kind, t, o.get('error')), dict(case))
                return
            msg = same_as_model(P, o['ok'], model_state(mo['sweeps'][t - 1]))
            if msg is not None:
                ctx.disagreement('Model.Cluster vs %s after %d sweeps: %s' % (kind, t, msg), dict(case))
                return
        ctx.tag('sweep-by-sweep-agrees')


# --------------------------------------------------------------------------- exhaustive tiny tables

def tiny_tables(ctx, n, values=(1, 2, 3), limit=None):
    """all symmetric tables on n points with off-diagonal values in `values` (n<=4), every k, one PAM sweep
    with every proposal vector of members"""
    import itertools
    pairs = [(i, j) for i in range(n) for j in range(i + 1, n)]
    cnt = 0
    for vals in itertools.product(values, repeat=len(pairs)):
        D = [[0] * n for _ in range(n)]
        for (i, j), v in zip(pairs, vals):
            D[i][j] = D[j][i] = v
        for k in range(1, n + 1):
            case = {'metric': 'table', 'D': D, 'dtype': 'int64', 'style': 'tiny', 'kind': 'hybrid',
                    'n_clusters': k, 'cutoff': None, 'n_iters': 2, 'rs': 'rec', 'seed': cnt}
            yield case
            cnt += 1
            if limit and cnt >= limit:
                return


@contextlib.contextmanager
def one_thread():
    """the compiled kernels spin up an OpenMP team per call; on tiny arrays that costs ~100x the work
    (thread counts are C13's subject)"""
    from threadpoolctl import threadpool_limits
    from enspara.geometry import libdist  # noqa: F401  (load libgomp before limiting it)
    with threadpool_limits(limits=1, user_api='openmp'):
        yield


def run(ctx):
    with one_thread():
        _run(ctx)


def _run(ctx):
    rng = ctx.rng
    cases = []
    for kind in ENTRY_KINDS + ('assign_xyz',):          # every entry point at least a few times
        for _ in range(ctx.n(12, 60)):
            cases.append(gen_case(rng, kind=kind))
    for _ in range(ctx.n(1100, 16000)):
        cases.append(gen_case(rng))
    for _ in range(ctx.n(40, 800)):   # larger
        cases.append(gen_case(rng, nmax=40))
    cases += large_family(ctx)
    cases += audit_families(ctx)
    cases += list(tiny_tables(ctx, 3))
    cases += list(tiny_tables(ctx, 4, limit=ctx.n(150, 100000)))
    if ctx.thorough:
        cases += list(tiny_tables(ctx, 5, values=(1, 2), limit=4000))
    check_cases(ctx, cases)
    need = ['pam-branch-dn', 'pam-branch-other', 'pam-branch-this', 'pam-accept', 'pam-reject',
            'pam-all-three-branches', 'model-agrees', 'sweep-by-sweep-agrees', 'assign-argmin-branch',
            'large-n', 'center-index>=256', 'k>255', 'n>65536', 'family=containers', 'outside-quantifier:repeated-init-frame',
            'family=scaled', 'family=exact-ties', 'family=degenerate', 'family=reuse', 'family=config',
            'pam-exact-tie-other-candidate', 'pam-exact-tie-with-label-swap', 'pam-accept-after-exact-tie', 'same-objects-reused',
            'fed-back-rounds-agree', 'proposals=current-medoids', 'singleton-cluster', 'inds_form=array32',
            'props_form=tuple', 'assign_dtype=int32', 'dist_dtype=float32', 'x_layout=F', 'x_layout=strided',
            'n_iters=0', 'n_iters=5+']
    ctx.note('under_covered', [t for t in need if not ctx.tags.get(t)])


def replay(ctx, data):
    data = data.get('case', data)
    case = {k: v for k, v in data.items()}
    with one_thread():
        check_cases(ctx, [case])
