"""C20 - rotamer assignment is a correct hysteresis state machine.

Entry points driven on the staged copy of /repo:
  enspara.geometry.rotamer._rotamers / get_gates / is_buffered_transition (core routine and helpers),
  phi_rotamers / psi_rotamers / chi_rotamers / all_rotamers (wrappers, on mdtraj trajectories),
  enspara.cards.disorder.transitions (1-D, 2-D ndarray, RaggedArray).
Every output is checked (a) against an independent hysteresis automaton / first-difference oracle
written from the property text (-> violation) and (b) against the Lean model (-> disagreement).
"""
import ast
import hashlib
import os
from fractions import Fraction

import numpy as np

RULE = ('angle sequences of length 1..40 on a quarter-degree grid in [0,360) that never equal a gate value '
        '(kinds: uniform, random walk, seam approach from both sides, dwelling next to every gate, basin jumps, '
        'hard-boundary values) x the three boundary lists read from the source (2 and 3 basins, psi shifted) x '
        'buffers 0, default, next to every self-wrap threshold, max accepted - 0.25, random (quarter grid) x '
        'containers float64/float32/list; helper calls on every (state, angle incl. exact gate values); wrappers on '
        'the bundled peptide topology with real and random coordinates; transitions on random 1-D/2-D/ragged '
        'state arrays in 8 integer dtypes with quiet rows at start/middle/end/everywhere.  Blind-spot families: '
        'sequences of 300 and 70000 frames, 300 trajectories, transitions only beyond position 255/65535; angle '
        'containers float64/float32/list/tuple/int64/int32/int16/list-of-int, boundaries as list/tuple/int64/int32/'
        'float64 ndarray, buffer as int/float/np.float64/np.float32/np.int64/keyword/omitted(default); angles and '
        'buffers within 2^-30 of a gate / boundary / threshold / limit of the accepted range (exact in float64), '
        'angles 0 and 360-2^-30; constant sequences, 1-3 frames; strided / reversed / Fortran / transposed views; '
        'every call made twice on the same argument objects with the arguments snapshotted; call histories: one '
        'mutable boundaries object (list / ndarray) reused across _rotamers / is_buffered_transition / get_gates calls '
        'and edited in place between them (library sets and random shifted sets, same and different buffers), and '
        'fresh equal-content objects in x, y, x order, every call checked against the current content.  A case is non-trivial '
        'when the state changes at least once or a buffer kept a state that plain binning would change '
        '(rotamers) / at least one transition exists (transitions); distinct by canonical input')
ASSUMPTIONS = ['angles, boundaries and buffers on the quarter-degree grid are exact in float64 and float32, so the '
               'Rat model sees the same numbers as the code',
               'numpy comparison of a float32 scalar with a Python int/float on that grid is exact (NEP 50 weak scalars); '
               'float32 angle arrays / np.float32 buffers are only generated when every angle and the buffer are on the '
               'quarter grid (with a float32 operand numpy compares in float32, where the 2^-30 offsets do not exist)',
               'np.digitize(x, increasing bins) = number of bins <= x (numpy contract, re-checked on every exit)',
               'mdtraj.compute_dihedrals on the atom quadruples a wrapper returns gives the dihedral angles it binned; '
               'the conversion to [0,360) (and the psi shift) is repeated with the same float32 operations',
               'RaggedArray rows are read back through .lengths and row indexing; RaggedArray slicing itself is C05']
TRUSTED_EXTRA = ['extraction of the boundary lists / default buffers / psi shift by running the wrappers with a recording '
                 'stand-in for _rotamers, AST fallback (harness/props/c20.py:_extract) -> '
                 'lean/Model/Generated/RotamerConsts.lean']

MIRRORS = [('enspara/geometry/rotamer.py', ['_rotamers', 'is_buffered_transition', 'get_gates', 'phi_rotamers',
                                            'psi_rotamers', 'chi_rotamers', 'all_rotamers', 'dihedral_angles']),
           ('enspara/cards/disorder.py', ['transitions'])]

K_F13 = 'hysteresis-two-basin-selfwrap'


def _const_num(node):
    """numeric literal (int/float, optionally negated) -> python number, else None"""
    if isinstance(node, ast.Constant) and isinstance(node.value, (int, float)) and not isinstance(node.value, bool):
        return node.value
    if isinstance(node, ast.UnaryOp) and isinstance(node.op, ast.USub):
        v = _const_num(node.operand)
        return None if v is None else -v
    return None


def _lean_rat(v):
    from fractions import Fraction
    f = Fraction(v)
    if f.denominator == 1:
        return '(%d : Rat)' % f.numerator if f.numerator >= 0 else '(-%d : Rat)' % -f.numerator
    return '(mkRat (%d) %d)' % (f.numerator, f.denominator)


# ----------------------------------------------------------------------------------------------
# What the library hands to `_rotamers`, and whether `transitions` handles all-quiet input.
#
# Primary method: DYNAMIC -- run the wrappers of the module itself with `_rotamers` and `dihedral_angles`
# replaced by recorders (semantic: independent of local names, layout, helper functions, hoisted constants),
# and call `transitions` on an all-quiet array.  `translate` (which only has the source tree) does this in a
# child process that loads the two files by path; `run` does it on the staged modules.
# Fallback: STATIC -- AST with constant propagation (function-level, then module-level assignments; a
# boundaries parameter of a private helper is followed to the helper's call sites).

def _const_list(node, envs, depth=0):
    """literal list/tuple of numbers, or a Name bound (function level, then module level) to one"""
    if depth > 3 or node is None:
        return None
    if isinstance(node, (ast.List, ast.Tuple)):
        vals = [_const_num(e) for e in node.elts]
        return None if (not vals or any(v is None for v in vals)) else vals
    if isinstance(node, ast.Name):
        for env in envs:
            if node.id in env:
                return _const_list(env[node.id], envs, depth + 1)
    if isinstance(node, ast.Call) and isinstance(node.func, ast.Name) and node.func.id in ('list', 'tuple') \
            and len(node.args) == 1:
        return _const_list(node.args[0], envs, depth + 1)
    return None


def _assign_env(body_owner):
    """name -> value node for names assigned exactly once (simple `name = expr`) in this scope"""
    seen, env = {}, {}
    nodes = body_owner.body if isinstance(body_owner, ast.Module) else list(ast.walk(body_owner))
    for node in nodes:
        if isinstance(node, ast.Assign) and len(node.targets) == 1 and isinstance(node.targets[0], ast.Name):
            nm = node.targets[0].id
            seen[nm] = seen.get(nm, 0) + 1
            env[nm] = node.value
    return {k: v for k, v in env.items() if seen[k] == 1}


def _call_name(call):
    f = call.func
    return f.id if isinstance(f, ast.Name) else (f.attr if isinstance(f, ast.Attribute) else None)


def _arg_of(call, index, kwname):
    for kw in call.keywords:
        if kw.arg == kwname:
            return kw.value
    return call.args[index] if len(call.args) > index else None


def _default_of(fn, pname):
    names = [a.arg for a in fn.args.args]
    defaults = dict(zip(names[len(names) - len(fn.args.defaults):], fn.args.defaults))
    return _const_num(defaults.get(pname)) if pname in defaults else None


def _static_extract(repo_dir):
    path = os.path.join(repo_dir, 'enspara', 'geometry', 'rotamer.py')
    with open(path, 'rb') as f:
        tree = ast.parse(f.read())
    menv = _assign_env(tree)
    funcs = {n.name: n for n in tree.body if isinstance(n, ast.FunctionDef)}
    # helpers through which a boundaries PARAMETER reaches `_rotamers`: name -> (position, parameter name)
    carriers = {'_rotamers': (1, 'hard_boundaries')}
    for _ in range(2):
        for fn in funcs.values():
            params = [a.arg for a in fn.args.args]
            for node in ast.walk(fn):
                if isinstance(node, ast.Call) and _call_name(node) in carriers and fn.name not in carriers:
                    pos, kw = carriers[_call_name(node)]
                    arg = _arg_of(node, pos, kw)
                    if isinstance(arg, ast.Name) and arg.id in params:
                        carriers[fn.name] = (params.index(arg.id), arg.id)
    out = {'sets': {}, 'buffers': {}, 'shift': {}, 'extra_sets': [], 'unresolved_call_sites': []}
    for kind in ('phi', 'psi', 'chi'):
        fn = funcs['%s_rotamers' % kind]
        env = _assign_env(fn)
        hb = None
        for node in ast.walk(fn):
            if isinstance(node, ast.Call) and _call_name(node) in carriers:
                pos, kw = carriers[_call_name(node)]
                vals = _const_list(_arg_of(node, pos, kw), [env, menv])
                if vals is not None:
                    hb = vals
        if hb is None:
            raise RuntimeError('%s_rotamers: cannot resolve the boundaries passed to _rotamers statically' % kind)
        out['sets'][kind] = hb
        bw = _default_of(fn, 'buffer_width')
        if bw is None:
            raise RuntimeError('%s_rotamers: no literal default for buffer_width' % kind)
        out['buffers'][kind] = bw
        shift = 0
        for node in ast.walk(fn):                 # `x = angles - 100` style preparation of the angles
            if isinstance(node, ast.Assign) and isinstance(node.value, ast.BinOp) \
                    and isinstance(node.value.op, (ast.Sub, ast.Add)) and isinstance(node.value.left, ast.Name):
                c = _const_num(node.value.right)
                if c is None and isinstance(node.value.right, ast.Name):
                    c = _const_num(menv.get(node.value.right.id)) if node.value.right.id in menv else None
                if c is not None and c != 360:
                    shift = c if isinstance(node.value.op, ast.Sub) else -c
        out['shift'][kind] = shift
    core = _default_of(funcs['_rotamers'], 'buffer_width')
    if core is None:
        raise RuntimeError('_rotamers: no literal default for buffer_width')
    out['buffers']['core'] = core
    # call sites outside the wrappers / carriers (best effort; unresolved ones are reported, not fatal)
    for fn in funcs.values():
        if fn.name in ('phi_rotamers', 'psi_rotamers', 'chi_rotamers') or fn.name in carriers:
            continue
        env = _assign_env(fn)
        for node in ast.walk(fn):
            if isinstance(node, ast.Call) and _call_name(node) in carriers:
                pos, kw = carriers[_call_name(node)]
                vals = _const_list(_arg_of(node, pos, kw), [env, menv])
                where = 'enspara/geometry/rotamer.py:%s' % fn.name
                if vals is None:
                    out['unresolved_call_sites'].append(where)
                elif vals not in list(out['sets'].values()) + [e['hb'] for e in out['extra_sets']]:
                    out['extra_sets'].append({'where': where, 'hb': vals})
    # the all-quiet guard, alpha-insensitive: inside `transitions` or a helper it calls, an `if` whose test says
    # "<some name> is empty" and whose body returns / assigns a RaggedArray
    dpath = os.path.join(repo_dir, 'enspara', 'cards', 'disorder.py')
    with open(dpath, 'rb') as f:
        dtree = ast.parse(f.read())
    dfuncs = {n.name: n for n in dtree.body if isinstance(n, ast.FunctionDef)}
    todo, seen, guard = ['transitions'], set(), False
    while todo:
        nm = todo.pop()
        if nm in seen or nm not in dfuncs:
            continue
        seen.add(nm)
        for node in ast.walk(dfuncs[nm]):
            if isinstance(node, ast.Call) and _call_name(node) in dfuncs:
                todo.append(_call_name(node))
            if isinstance(node, ast.If) and _is_empty_test(node.test):
                for b in node.body:
                    val = b.value if isinstance(b, (ast.Return, ast.Assign)) else None
                    if val is not None and 'RaggedArray' in ast.unparse(val):
                        guard = True
    out['all_quiet_guard'] = guard
    out['static'] = True
    return out


def _is_empty_test(t):
    """`len(X) == 0`, `X.size == 0`, `0 == len(X)`, `len(X) < 1`, `not len(X)`, `not X.size` for any name X"""
    def sized(e):
        if isinstance(e, ast.Call) and isinstance(e.func, ast.Name) and e.func.id == 'len' and len(e.args) == 1 \
                and isinstance(e.args[0], ast.Name):
            return True
        return isinstance(e, ast.Attribute) and e.attr == 'size' and isinstance(e.value, ast.Name)
    if isinstance(t, ast.UnaryOp) and isinstance(t.op, ast.Not):
        return sized(t.operand)
    if isinstance(t, ast.Compare) and len(t.ops) == 1:
        l, r, op = t.left, t.comparators[0], t.ops[0]
        if isinstance(op, ast.Eq):
            return (sized(l) and _const_num(r) == 0) or (sized(r) and _const_num(l) == 0)
        if isinstance(op, ast.Lt):
            return sized(l) and _const_num(r) == 1
        if isinstance(op, ast.LtE):
            return sized(l) and _const_num(r) == 0
    return False


def _dynamic_extract(rot, dis):
    """`rot`, `dis`: module objects of rotamer.py / disorder.py.  Runs the three wrappers with recorders in
    place of `_rotamers` / `dihedral_angles`, probes `transitions` with an all-quiet array."""
    import inspect
    orig_rot, orig_dih = rot._rotamers, rot.dihedral_angles
    core = inspect.signature(orig_rot).parameters['buffer_width'].default
    # interior probes and the seam: 0, 100, 180, 359.5 (the clamp value), next to 0
    base = np.array([[30.0], [250.0], [135.5], [0.0], [100.0], [180.0], [359.5], [0.25], [99.75], [100.25]])
    rec = []

    def fake_dih(traj, kind):
        return base.copy(), np.zeros((1, 4), dtype=int)

    def fake_rot(angles, hard_boundaries, *args, **kw):
        bw = args[0] if args else kw.get('buffer_width', core)
        rec.append((np.array(angles, dtype=float).ravel().copy(), [x for x in hard_boundaries], bw))
        return np.zeros(len(angles), dtype='int16')

    out = {'sets': {}, 'buffers': {'core': core}, 'shift': {}, 'extra_sets': [], 'unresolved_call_sites': [],
           'seam_out_of_range': []}
    rot._rotamers, rot.dihedral_angles = fake_rot, fake_dih
    try:
        for kind in ('phi', 'psi', 'chi'):
            del rec[:]
            getattr(rot, '%s_rotamers' % kind)(None)              # default buffer_width
            if not rec:
                raise RuntimeError('%s_rotamers did not call _rotamers' % kind)
            for r in rec:                                       # what the wrapper hands over at the seam
                for a0, a1 in zip(base[:, 0], r[0]):
                    if not (0 <= a1 < 360):
                        out['seam_out_of_range'].append([kind, float(a0), float(a1)])
            hbs = {tuple(float(x) for x in r[1]) for r in rec}
            bws = {float(r[2]) for r in rec}
            shifts = {tuple(np.round((base[:, 0] - r[0]) % 360, 9)) for r in rec}
            if len(hbs) != 1 or len(bws) != 1 or len(shifts) != 1 or len(set(next(iter(shifts)))) != 1:
                raise RuntimeError('%s_rotamers: boundaries / buffer / shift not uniform over its dihedrals' % kind)
            hb = list(next(iter(hbs)))
            out['sets'][kind] = [int(v) if float(v).is_integer() else v for v in hb]
            b = next(iter(bws))
            out['buffers'][kind] = int(b) if float(b).is_integer() else b
            s = float(next(iter(shifts))[0])
            out['shift'][kind] = int(s) if s.is_integer() else s
    finally:
        rot._rotamers, rot.dihedral_angles = orig_rot, orig_dih
    if not isinstance(core, (int, float)):
        raise RuntimeError('_rotamers: buffer_width default is not a number')
    # all-quiet probe: two trajectories of three equal frames
    try:
        tt = dis.transitions(np.zeros((2, 3), dtype=int))
        rows = [[int(x) for x in tt[i]] for i in range(len(tt.lengths))]
        out['all_quiet_guard'] = rows == [[], []]
    except Exception:  # noqa
        out['all_quiet_guard'] = False
    out['static'] = False
    return out


_CHILD = r'''
import sys, json, importlib.util, os
repo, here = sys.argv[1], sys.argv[2]
sys.path.insert(0, here)
sys.path.insert(0, repo)
import logging
logging.disable(logging.CRITICAL)
def load(name, rel):
    spec = importlib.util.spec_from_file_location(name, os.path.join(repo, rel))
    m = importlib.util.module_from_spec(spec)
    sys.modules[name] = m
    spec.loader.exec_module(m)
    return m
rot = load('enspara.geometry.rotamer', 'enspara/geometry/rotamer.py')
dis = load('enspara.cards.disorder', 'enspara/cards/disorder.py')
import props.c20 as me
print('C20JSON:' + json.dumps(me._dynamic_extract(rot, dis)))
'''


def _source_shas(repo_dir):
    sh = {}
    for rel in ('enspara/geometry/rotamer.py', 'enspara/cards/disorder.py', 'enspara/ra/ra.py', 'enspara/exception.py'):
        try:
            with open(os.path.join(repo_dir, rel), 'rb') as f:
                sh[rel] = hashlib.sha256(f.read()).hexdigest()
        except OSError:
            sh[rel] = 'missing'
    return sh


def _extract(repo_dir):
    """dynamic extraction in a child process (cached by the hashes of the files involved); static fallback.
    Adds the other `_rotamers` call sites found statically (best effort)."""
    import json
    import subprocess
    import sys
    shas = _source_shas(repo_dir)
    key = hashlib.sha256(json.dumps(shas, sort_keys=True).encode()).hexdigest()[:24]
    here = os.path.dirname(os.path.dirname(os.path.abspath(__file__)))
    cdir = os.path.join(os.path.dirname(here), '.cache', 'c20_extract')
    cpath = os.path.join(cdir, key + '.json')
    info, why = None, None
    if os.path.exists(cpath):
        try:
            with open(cpath) as f:
                info = json.load(f)
        except Exception:  # noqa
            info = None
    if info is None:
        try:
            r = subprocess.run([sys.executable, '-c', _CHILD, repo_dir, here], capture_output=True, text=True,
                               timeout=300, env={k: v for k, v in os.environ.items() if k != 'PYTHONPATH'})
            lines = [l for l in r.stdout.split('\n') if l.startswith('C20JSON:')]
            if r.returncode != 0 or not lines:
                raise RuntimeError((r.stderr or r.stdout)[-600:])
            info = json.loads(lines[-1][8:])
            os.makedirs(cdir, exist_ok=True)
            tmp = cpath + '.tmp%d' % os.getpid()
            with open(tmp, 'w') as f:
                json.dump(info, f)
            os.replace(tmp, cpath)
        except Exception as e:  # noqa
            why = 'dynamic extraction failed: %s' % str(e)[-400:]
            info = None
    static = None
    try:
        static = _static_extract(repo_dir)
    except Exception as e:  # noqa
        if info is None:
            raise RuntimeError('%s; static extraction failed: %s' % (why, e))
    if info is None:
        info = static
        info['fallback_reason'] = why
    elif static is not None:
        info['extra_sets'] = static['extra_sets']
        info['unresolved_call_sites'] = static['unresolved_call_sites']
        info['static_agrees'] = all(static[k] == info[k] for k in ('sets', 'buffers', 'shift', 'all_quiet_guard'))
    info['sha'] = shas['enspara/geometry/rotamer.py']
    info['sha_disorder'] = shas['enspara/cards/disorder.py']
    return info


def translate(repo_dir, gen_dir):
    info = _extract(repo_dir)
    os.makedirs(gen_dir, exist_ok=True)
    L = []
    L.append('/-! GENERATED by harness/props/c20.py:translate from enspara/geometry/rotamer.py and')
    L.append('enspara/cards/disorder.py -- do not edit.  Boundary lists and default buffer widths as the')
    L.append('`phi_/psi_/chi_rotamers` wrappers pass them to `_rotamers` (recorded by running the wrappers with a')
    L.append('recording stand-in for `_rotamers`; AST with constant propagation as fallback).  The text depends only on')
    L.append('the extracted values, so a behaviour-preserving refactoring of the source regenerates the same file. -/')
    L.append('namespace Ens.Rotamer.Generated')
    for kind in ('phi', 'psi', 'chi'):
        L.append('def %sBoundaries : List Rat := [%s]' % (kind, ', '.join(_lean_rat(v) for v in info['sets'][kind])))
        L.append('def %sDefaultBuffer : Rat := %s' % (kind, _lean_rat(info['buffers'][kind])))
        L.append('def %sShift : Rat := %s' % (kind, _lean_rat(info['shift'][kind])))
    L.append('def coreDefaultBuffer : Rat := %s' % _lean_rat(info['buffers']['core']))
    L.append('/-- boundary lists of `_rotamers` call sites outside the three wrappers: %s -/'
             % (', '.join(e['where'] for e in info['extra_sets']) or 'none in the current source'))
    L.append('def extraBoundarySets : List (List Rat) := [%s]' % ', '.join(
        '[' + ', '.join(_lean_rat(v) for v in e['hb']) + ']' for e in info['extra_sets']))
    L.append('/-- every boundary list the library hands to `_rotamers` -/')
    L.append('def boundarySets : List (List Rat) := [phiBoundaries, psiBoundaries, chiBoundaries] ++ extraBoundarySets')
    L.append('def defaultBuffers : List Rat := [phiDefaultBuffer, psiDefaultBuffer, chiDefaultBuffer, coreDefaultBuffer]')
    L.append('/-- does `disorder.transitions` handle 2-D input without any transition (probed: two trajectories of three')
    L.append('equal frames must give two empty rows; statically: an emptiness test guarding the RaggedArray construction) -/')
    L.append('def transitionsAllQuietGuard : Bool := %s' % ('true' if info['all_quiet_guard'] else 'false'))
    L.append('end Ens.Rotamer.Generated')
    text = '\n'.join(L) + '\n'
    path = os.path.join(gen_dir, 'RotamerConsts.lean')
    old = None
    if os.path.exists(path):
        with open(path) as f:
            old = f.read()
    if old != text:
        tmp = path + '.tmp%d' % os.getpid()
        with open(tmp, 'w') as f:
            f.write(text)
        os.replace(tmp, path)
    return {'summary': 'sets %s extra call sites %s buffers %s shift %s all_quiet_guard %s' % (
                info['sets'], info['extra_sets'], info['buffers'], info['shift'], info['all_quiet_guard']),
            'file': 'lean/Model/Generated/RotamerConsts.lean', 'sha256_rotamer_py': info['sha'],
            'sha256_disorder_py': info['sha_disorder'], 'rewritten': old != text,
            'static': bool(info.get('static')), 'static_agrees': info.get('static_agrees'),
            'fallback_reason': info.get('fallback_reason'),
            'unresolved_call_sites': info.get('unresolved_call_sites', []),
            'seam_out_of_range': info.get('seam_out_of_range', [])}


# ----------------------------------------------------------------------------------------------
# oracles written from the property text (exact rational arithmetic)

Q = Fraction(1, 4)
EPS = Fraction(1, 2 ** 30)          # ~ 9.3e-10; g +- EPS is exact in float64 for every g below 512 on the grid


def F(x):
    return Fraction(x)


def basin_of(hb, a):
    """the basin containing the angle: hb[i] <= a < hb[i+1]"""
    for i in range(len(hb) - 1):
        if hb[i] <= a < hb[i + 1]:
            return i
    return None


def in_widened(hb, b, s, a, full=360):
    """angle a (degrees, on the circle of circumference `full`) lies in basin s widened by b on both sides"""
    lo, hi = hb[s] - b, hb[s + 1] + b
    return any(lo <= a + full * k <= hi for k in (-2, -1, 0, 1, 2))


def gate_values(hb, b):
    g = set()
    for v in hb:
        g.add((v - b) % 360)
        g.add((v + b) % 360)
    return g


def spec_step(hb, b, s, a, full=360):
    return s if in_widened(hb, b, s, a, full) else basin_of(hb, a)


def self_wrapping_basins(hb, b):
    return [i for i in range(len(hb) - 1) if hb[i + 1] - hb[i] + 2 * b > 360]


def rat(x):
    f = Fraction(x)
    return [f.numerator, f.denominator]


def num(f):
    """Fraction on the quarter grid -> what a caller would pass (int when integral)"""
    return int(f) if f.denominator == 1 else float(f)


# ----------------------------------------------------------------------------------------------
# generators

def fix_gates(angles, gates, rng):
    """move angles that hit a gate value by a quarter degree (stays on the grid)"""
    out = []
    for a in angles:
        a = a % 360
        tries = 0
        while a in gates:
            a = (a + (Q if rng.random() < 0.5 else -Q)) % 360
            tries += 1
            if tries > 8:
                a = (a + 3 * Q) % 360
        out.append(a)
    return out


def gen_angles(rng, hb, b, kind, n):
    gates = sorted(gate_values(hb, b))
    if kind == 'uniform':
        ang = [Fraction(int(rng.integers(0, 1440)), 4) for _ in range(n)]
    elif kind == 'walk':
        cur = Fraction(int(rng.integers(0, 1440)), 4)
        ang = []
        scale = int(rng.choice([4, 20, 80, 240]))
        for _ in range(n):
            ang.append(cur)
            cur = (cur + Fraction(int(rng.integers(-scale, scale + 1)), 4)) % 360
    elif kind == 'seam':
        # approach 0/360 from one side in small steps, cross, come back
        side = rng.random() < 0.5
        cur = Fraction(int(rng.integers(0, 120)), 4) if side else 360 - Fraction(int(rng.integers(1, 120)), 4)
        ang = []
        drift = -1 if side else 1
        for t in range(n):
            ang.append(cur % 360)
            if rng.random() < 0.15:
                drift = -drift
            cur = cur + drift * Fraction(int(rng.integers(0, 40)), 4)
    elif kind == 'dwell':
        # sit right next to the gate values, on both sides, and hop between gates
        ang = []
        for _ in range(n):
            g = gates[int(rng.integers(0, len(gates)))]
            off = Fraction(int(rng.choice([-8, -2, -1, 1, 2, 8])), 4)
            ang.append((g + off) % 360)
    elif kind == 'jump':
        ang = []
        for _ in range(n):
            i = int(rng.integers(0, len(hb) - 1))
            w = hb[i + 1] - hb[i]
            ang.append(hb[i] + Fraction(int(rng.integers(0, int(w * 4))), 4))
    elif kind == 'boundary':
        ang = []
        for _ in range(n):
            v = hb[int(rng.integers(0, len(hb) - 1))]     # 360 itself is outside [0,360)
            ang.append((v + Fraction(int(rng.choice([-1, 0, 0, 1])), 4)) % 360)
    elif kind == 'near-gate':
        # within 2^-30 (~1e-9) degree of a gate or of a hard boundary, on either side; exact in float64
        pts = gates + [v for v in hb if v < 360]
        ang = []
        for _ in range(n):
            g = pts[int(rng.integers(0, len(pts)))]
            ang.append((g + int(rng.choice([-2, -1, 1, 2])) * EPS) % 360)
    elif kind == 'edge':
        # exactly 0, just below 360, just above 0
        pool = [Fraction(0), 360 - EPS, 360 - Q, EPS, Q, Fraction(180), 360 - 2 * EPS]
        ang = [pool[int(rng.integers(0, len(pool)))] for _ in range(n)]
    elif kind == 'constant':
        v = Fraction(int(rng.integers(0, 1440)), 4)
        if rng.random() < 0.4:
            g = gates[int(rng.integers(0, len(gates)))]
            v = (g + int(rng.choice([-1, 1])) * Q) % 360          # a constant sitting in a buffer zone
        ang = [v] * n
    elif kind == 'integer':
        ang = [Fraction(int(rng.integers(0, 360))) for _ in range(n)]
        gs = set(gates)
        ang = [a if a not in gs else (a + 1) % 360 for a in ang]
        ang = [a if a not in gs else (a + 1) % 360 for a in ang]
    else:
        raise ValueError(kind)
    return fix_gates(ang, set(gates), rng)


def buffer_choices(hb, rng):
    nb = len(hb) - 1
    maxb = Fraction(360, nb)
    specials = [Fraction(0), Fraction(15), Q, maxb - Q, maxb / 2, EPS, maxb - EPS]
    for i in range(nb):
        thr = (360 - (hb[i + 1] - hb[i])) / 2          # self-wrap threshold of basin i
        specials += [thr - Q, thr, thr + Q, thr - EPS, thr + EPS]
    specials = [s for s in specials if 0 <= s < maxb]
    if rng.random() < 0.55:
        return specials[int(rng.integers(0, len(specials)))]
    return Fraction(int(rng.integers(0, int(maxb * 4))), 4)


KINDS = ['uniform', 'walk', 'seam', 'dwell', 'jump', 'boundary', 'near-gate', 'edge', 'constant', 'integer']
CONTAINERS = ['float64', 'float32', 'list', 'tuple']
INT_CONTAINERS = ['int64', 'int32', 'int16', 'list-int']
HB_FORMS = ['list', 'list', 'tuple', 'array-int64', 'array-int32', 'array-float64']
B_FORMS = ['py', 'py', 'np.float64', 'np.float32', 'np.int64', 'kw']


def finish_rot_case(rng, name, hb, b, kind, ang, default_b=None):
    """choose the argument containers: only forms that hold the exact values"""
    on_grid = all(a.denominator in (1, 2, 4) for a in ang)
    integral = all(a.denominator == 1 for a in ang)
    if integral and rng.random() < 0.5:
        cont = INT_CONTAINERS[int(rng.integers(0, len(INT_CONTAINERS)))]
    else:
        cont = CONTAINERS[int(rng.integers(0, len(CONTAINERS)))]
        if cont == 'float32' and not (on_grid and b.denominator in (1, 2, 4)):
            cont = 'float64'            # a float32 operand makes numpy compare in float32: only exact values
    b_form = B_FORMS[int(rng.integers(0, len(B_FORMS)))]
    if b_form == 'np.int64' and b.denominator != 1:
        b_form = 'np.float64'
    if b_form == 'np.float32' and not (on_grid and b.denominator in (1, 2, 4)):
        b_form = 'np.float64'
    if default_b is not None and b == default_b and rng.random() < 0.5:
        b_form = 'omitted'                                # rely on the default of buffer_width
    return {'t': 'rot', 'set': name, 'hb': [num(v) for v in hb], 'b': rat(b), 'angles': [rat(a) for a in ang],
            'kind': kind, 'container': cont, 'hb_form': HB_FORMS[int(rng.integers(0, len(HB_FORMS)))],
            'b_form': b_form}


def gen_rot_case(rng, sets, force_set=None, force_kind=None, n=None):
    name = force_set or list(sets)[int(rng.integers(0, len(sets)))]
    hb = [F(v) for v in sets[name]]
    b = buffer_choices(hb, rng)
    kind = force_kind or KINDS[int(rng.integers(0, len(KINDS)))]
    if n is None:
        n = int(rng.choice([1, 2, 3, 5, 8, 13, 21, 40]))
    ang = gen_angles(rng, hb, b, kind, n)
    return finish_rot_case(rng, name, hb, b, kind, ang)


# ----------------------------------------------------------------------------------------------
# rotamers: real call + checks

def build_rot_args(case):
    ang = [Fraction(*a) for a in case['angles']]
    cont = case.get('container', 'float64')
    if cont in ('int64', 'int32', 'int16'):
        arr = np.array([int(a) for a in ang], dtype=cont)
    elif cont == 'list-int':
        arr = [int(a) for a in ang]
    elif cont == 'float64':
        arr = np.array([float(a) for a in ang], dtype=np.float64)
    elif cont == 'float32':
        arr = np.array([float(a) for a in ang], dtype=np.float32)
    elif cont == 'tuple':
        arr = tuple(float(a) for a in ang)
    else:
        arr = [float(a) for a in ang]
    form = case.get('hb_form', 'array-int64' if case.get('hb_as_array') else 'list')
    hb = list(case['hb'])
    if form == 'tuple':
        hb = tuple(hb)
    elif form.startswith('array-'):
        hb = np.array(hb, dtype=form[6:])
    b = Fraction(*case['b'])
    bf = case.get('b_form', 'py')
    bv = {'np.float64': np.float64, 'np.float32': np.float32, 'np.int64': np.int64}.get(bf, lambda x: x)(num(b))
    return arr, hb, bv, bf


def _bytes(x):
    return x.tobytes() if isinstance(x, np.ndarray) else repr(x)


def call_rotamers(case):
    """two calls with the SAME argument objects; argument contents are snapshotted around them"""
    from enspara.geometry import rotamer
    arr, hb, bv, bf = build_rot_args(case)
    snap = (_bytes(arr), _bytes(hb))
    outs = []
    for _ in range(2):
        try:
            if bf == 'omitted':
                out = rotamer._rotamers(arr, hb)
            elif bf == 'kw':
                out = rotamer._rotamers(angles=arr, hard_boundaries=hb, buffer_width=bv)
            else:
                out = rotamer._rotamers(arr, hb, bv)
        except Exception as e:  # noqa
            return {'error': type(e).__name__}
        outs.append(out)
    out = outs[0]
    return {'ok': [int(x) for x in out], 'dtype': str(getattr(out, 'dtype', '')), 'n': len(out),
            'ok2': [int(x) for x in outs[1]], 'unchanged': snap == (_bytes(arr), _bytes(hb))}


ERRMAP = {'DataInvalid': 'data-invalid', 'IndexError': 'index-error', 'ZeroDivisionError': 'zero-division',
          'ValueError': 'value-error', 'AttributeError': 'attribute-error'}


def rot_request(case):
    return {'op': 'C20.rotamers', 'angles': case['angles'], 'hb': [rat(v) for v in case['hb']], 'b': case['b']}


def check_rot(ctx, case, got, model):
    hb = [F(v) for v in case['hb']]
    b = Fraction(*case['b'])
    ang = [Fraction(*a) for a in case['angles']]
    nb = len(hb) - 1
    wraps = self_wrapping_basins(hb, b)
    tags = ['set=%s' % case['set'], 'kind=%s' % case['kind'], 'container=%s' % case.get('container'),
            'hb-form=%s' % case.get('hb_form', 'list'), 'b-form=%s' % case.get('b_form', 'py'),
            'b=0' if b == 0 else ('b-selfwrap' if wraps else 'b-regular'),
            'len=%d' % len(ang) if len(ang) <= 40 else 'len>%d' % (65535 if len(ang) > 65535 else 255)]
    if b.denominator > 4:
        tags.append('b-within-1e-9-of-a-limit')
    if any(a.denominator > 4 for a in ang):
        tags.append('angle-within-1e-9-of-gate-or-edge')
    if 'error' in got:
        ctx.case(case, nontrivial=False, tags=tags + ['raised'])
        ctx.violation('_rotamers raised %s on an admissible input' % got['error'], case)
        return
    st = got['ok']
    # the oracle functions are generic in the number type: run them on integers (units of 2^-30 degree)
    # when every value is a multiple of that unit -- same arithmetic, much faster than Fractions
    S = 2 ** 30
    if all(S % x.denominator == 0 for x in ang + hb + [b]):
        o_hb, o_b, o_ang, o_full = [int(v * S) for v in hb], int(b * S), [int(a * S) for a in ang], 360 * S
    else:
        o_hb, o_b, o_ang, o_full = hb, b, ang, 360
    binned = [basin_of(o_hb, a) for a in o_ang]
    changes = sum(1 for i in range(1, len(st)) if st[i] != st[i - 1])
    held = sum(1 for i in range(len(st)) if st[i] != binned[i])
    ctx.case(case, nontrivial=(changes > 0 or held > 0),
             tags=tags + ['changes>0' if changes else 'changes=0', 'buffer-held' if held else 'no-hold'])
    # state validity
    if got['n'] != len(ang) or any((s < 0 or s >= nb) for s in st) or 'int' not in got['dtype']:
        ctx.violation('state sequence has wrong length / invalid basin index / non-integer dtype',
                      dict(case, got=st))
        return
    # object reuse: same argument objects, second call; arguments left as they were
    if got.get('ok2', st) != st:
        ctx.violation('second call with the same argument objects returns different states', dict(case, got=st, got2=got['ok2']))
        return
    if not got.get('unchanged', True):
        ctx.violation('_rotamers modified its angle / boundary argument in place', case)
        return
    # first frame
    if st[0] != binned[0]:
        ctx.violation('first frame is not the basin containing its angle', dict(case, got=st))
        return
    # hysteresis, step by step from the state the code was in
    bad_known, bad_other = [], []
    for i in range(1, len(st)):
        exp = spec_step(o_hb, o_b, st[i - 1], o_ang[i], o_full)
        if st[i] != exp:
            prev = st[i - 1]
            if nb == 2 and prev in wraps and in_widened(hb, b, prev, ang[i]) and st[i] != prev:
                bad_known.append(i)
            else:
                bad_other.append(i)
    if bad_other:
        ctx.violation('state at frame %d differs from the hysteresis automaton' % bad_other[0],
                      dict(case, got=st, frame=bad_other[0]))
        return
    if bad_known:
        ctx.violation('two-basin set, widened basin covers the circle, yet the state changed at frame %d'
                      % bad_known[0], dict(case, got=st, frame=bad_known[0]), key=K_F13)
    # zero buffer: plain binning
    if b == 0 and st != binned:
        ctx.violation('zero buffer is not plain binning', dict(case, got=st))
        return
    # model
    if model.get('ok') != st:
        ctx.disagreement('Model.Rotamer.rotamers vs _rotamers', dict(case, model=model, impl=got))


def gen_err_cases(sets):
    out = []
    for name in sets:
        hb = sets[name]
        maxb = Fraction(360, len(hb) - 1)
        for b in (Fraction(-1, 4), maxb, maxb + 5, Fraction(-15)):
            out.append({'t': 'rot-err', 'set': name, 'hb': list(hb), 'b': rat(b), 'angles': [rat(10), rat(200)],
                        'kind': 'bad-buffer', 'container': 'float64'})
        out.append({'t': 'rot-err', 'set': name, 'hb': list(hb), 'b': rat(15), 'angles': [], 'kind': 'empty',
                    'container': 'float64'})
        out.append({'t': 'rot-err', 'set': name, 'hb': [5] + list(hb[1:]), 'b': rat(15), 'angles': [rat(10)],
                    'kind': 'bad-first-boundary', 'container': 'float64'})
        out.append({'t': 'rot-err', 'set': name, 'hb': list(hb[:-1]) + [350], 'b': rat(15), 'angles': [rat(10)],
                    'kind': 'bad-last-boundary', 'container': 'float64'})
    return out


def check_rot_err(ctx, case, got, model):
    """inputs outside the property's quantifier: only model = code"""
    ctx.case(case, nontrivial=False, tags=['error-branch:%s' % case['kind']])
    g = {'error': ERRMAP.get(got['error'], got['error'])} if 'error' in got else {'ok': got['ok']}
    if g != model:
        ctx.disagreement('Model.Rotamer.rotamers vs _rotamers (guard / error branch)',
                         dict(case, model=model, impl=got))


# helper level ---------------------------------------------------------------------------------

def helper_scope(ctx, sets):
    """get_gates / is_buffered_transition on every state of every set, angles around and ON the gates"""
    from enspara.geometry import rotamer
    reqs, impl, meta = [], [], []
    for name in sets:
        hb = [F(v) for v in sets[name]]
        nb = len(hb) - 1
        maxb = Fraction(360, nb)
        bs = {Fraction(0), Fraction(15), maxb - Q, maxb / 2}
        for i in range(nb):
            thr = (360 - (hb[i + 1] - hb[i])) / 2
            bs |= {thr - Q, thr, thr + Q}
        bs = sorted(x for x in bs if 0 <= x < maxb)
        for b in bs:
            gates = sorted(gate_values(hb, b))
            pts = set()
            for g in gates:
                pts |= {g, (g + Q) % 360, (g - Q) % 360}
            pts |= {Fraction(int(x), 4) for x in ctx.rng.integers(0, 1440, size=ctx.n(4, 12))}
            pts |= {v for v in hb if v < 360}
            for s in range(nb):
                lo, up = rotamer.get_gates(s, [num(v) for v in hb], num(b))
                reqs.append({'op': 'C20.gates', 's': s, 'hb': [rat(v) for v in hb], 'b': rat(b)})
                impl.append([rat(lo), rat(up)])
                meta.append(('gates', name, s, b, None))
                for a in sorted(pts):
                    r = rotamer.is_buffered_transition(np.int64(s) if (s + len(pts)) % 2 else s, float(a),
                                                       [num(v) for v in hb], num(b))
                    reqs.append({'op': 'C20.exit', 's': s, 'a': rat(a), 'hb': [rat(v) for v in hb], 'b': rat(b)})
                    impl.append(bool(r))
                    meta.append(('exit', name, s, b, a))
    resp = ctx.driver(reqs)
    bad = 0
    n_pred = 0
    for rq, im, m, r in zip(reqs, impl, meta, resp):
        if r.get('ok') != im:
            bad += 1
            if bad <= 3:
                ctx.disagreement('Model.Rotamer.%s vs rotamer.%s' % (
                    'getGates' if m[0] == 'gates' else 'isBufferedTransition',
                    'get_gates' if m[0] == 'gates' else 'is_buffered_transition'),
                    {'t': 'helper', 'req': rq, 'impl': im, 'model': r})
        if m[0] == 'exit':
            kind, name, s, b, a = m
            hb = [F(v) for v in sets[name]]
            if a in gate_values(hb, b):
                continue                           # the property excludes exact gate values
            exp_exit = not in_widened(hb, b, s, a)
            n_pred += 1
            if bool(im) != exp_exit:
                known = (len(hb) == 3 and s in self_wrapping_basins(hb, b) and im)
                ctx.violation('is_buffered_transition(%d, %s) on %s with buffer %s says %s, widened-basin '
                              'membership says %s' % (s, float(a), [num(v) for v in hb], float(b), im, exp_exit),
                              {'t': 'helper', 'req': rq, 'impl': im}, key=K_F13 if known else None)
    ctx.tag('helper-scope', len(reqs))
    ctx.evaluations += len(reqs)
    ctx.note('helper_scope', {'calls': len(reqs), 'exit_predicate_checked': n_pred, 'model_mismatches': bad})


# wrappers -------------------------------------------------------------------------------------

class _Recorder(object):
    """pass-through stand-in for `rotamer._rotamers`: records the angles the wrapper hands over"""

    def __init__(self, rot):
        self.rot, self.orig, self.calls = rot, rot._rotamers, []

    def __call__(self, angles, hard_boundaries, *a, **k):
        self.calls.append((np.array(angles).copy(), [x for x in hard_boundaries]))
        return self.orig(angles, hard_boundaries, *a, **k)

    def __enter__(self):
        self.rot._rotamers = self
        return self

    def __exit__(self, *exc):
        self.rot._rotamers = self.orig
        return False


def model_shift(shift, a):
    """Model.Rotamer.shiftAngle on exact numbers"""
    x = a - shift
    return x + 360 if x < 0 else x


def seam_scope(ctx, sets, shifts, sseed, thorough):
    """the wrappers' angle preparation at the seam: `dihedral_angles` is replaced by a synthetic one that
    delivers EXACT degrees (values that land on 0/360, on a boundary or next to them after the wrapper's
    shift), `_rotamers` by a recording pass-through.  Predicate: every angle handed to `_rotamers` lies in
    [0, 360) and equals shiftAngle(shift, angle); the returned states are the automaton on those angles."""
    from enspara.geometry import rotamer
    rng = np.random.default_rng(sseed)
    ident = {'sseed': int(sseed), 'thorough': bool(thorough)}
    orig_dih = rotamer.dihedral_angles
    reqs, pend = [], []
    for kind, fn in (('phi', rotamer.phi_rotamers), ('psi', rotamer.psi_rotamers), ('chi', rotamer.chi_rotamers)):
        hb = [F(v) for v in sets[kind]]
        nbas = len(hb) - 1
        s = F(shifts[kind])
        seam = set()
        for v in hb:                                        # dihedrals that land on 0/360 or a boundary after the shift
            for off in (0, Q, -Q, 2 * Q, -2 * Q):
                seam.add((v + s + off) % 360)
        for k in range(-2, 3):
            seam.add((s + 180 * k) % 360)
        seam |= {Fraction(0), Q, Fraction(180), Fraction(719, 2), Fraction(359), Fraction(1437, 4)}
        seam = sorted(a for a in seam if 0 <= a <= Fraction(719, 2))      # dihedral_angles delivers [0, 359.5]
        for dtype in ('float32', 'float64'):
            for bw in ([15, 0, 30.25] if not thorough else [15, 0, 30.25, 60, 0.25, 79.75]):
                b = Fraction(bw)
                if not (0 <= b < Fraction(360, nbas)):
                    continue
                ncol, nfr = (3, 14) if not thorough else (6, 30)
                cols_by_call = []

                def fake_dih(traj, which, _c=cols_by_call, _dt=dtype, _n=ncol, _f=nfr):
                    cols = []
                    for _ in range(_n):
                        col = [seam[int(rng.integers(0, len(seam)))] if rng.random() < 0.7
                               else Fraction(int(rng.integers(0, 1439)), 4) for _ in range(_f)]
                        cols.append(col)
                    _c.append(cols)
                    arr = np.array([[float(cols[c][f]) for c in range(_n)] for f in range(_f)], dtype=_dt)
                    return arr, np.zeros((_n, 4), dtype=int)
                rotamer.dihedral_angles = fake_dih
                err, rots = None, None
                try:
                    with _Recorder(rotamer) as rec:
                        try:
                            rots, inds, n_states = fn(None, buffer_width=bw)
                        except Exception as e:  # noqa
                            err = type(e).__name__
                finally:
                    rotamer.dihedral_angles = orig_dih
                given = [col for call in cols_by_call for col in call]          # in column order of the wrapper
                base = dict(ident, t='seam', kind=kind, dtype=dtype, b=rat(b), shift=num(s))
                ctx.tag('seam:%s:%s' % (kind, dtype))
                # (i) the angles handed to _rotamers, whatever happened afterwards
                bad = None
                for c, (passed, hb_used) in enumerate(rec.calls):
                    if c >= len(given):
                        break
                    exp = [model_shift(s, a) for a in given[c]]
                    got = [Fraction(float(x)) for x in passed]
                    ctx.evaluations += 1
                    for f, (g, e, a) in enumerate(zip(got, exp, given[c])):
                        if not (0 <= g < 360):
                            bad = ('%s_rotamers hands the angle %s to _rotamers for the dihedral %s degrees: outside '
                                   '[0, 360)' % (kind, float(g), float(a)), c, f)
                        elif g != e:
                            bad = ('%s_rotamers hands %s to _rotamers for the dihedral %s degrees, expected %s'
                                   % (kind, float(g), float(a), float(e)), c, f)
                        if bad:
                            break
                    if bad:
                        break
                if bad:
                    ctx.violation(bad[0], dict(base, column=bad[1], frame=bad[2], dihedrals=[rat(a) for a in given[bad[1]]]))
                    continue
                if err is not None:
                    ctx.violation('%s_rotamers raised %s on dihedrals inside [0, 359.5]' % (kind, err), base)
                    continue
                if len(rec.calls) != len(given) or np.shape(rots) != (nfr, len(given)):
                    ctx.violation('%s_rotamers: number of _rotamers calls / shape of the result does not match the '
                                  'dihedrals' % kind, base)
                    continue
                # (ii) states = automaton on the shifted angles (columns touching a gate value: validity only)
                gates = gate_values(hb, b)
                for c in range(len(given)):
                    exp = [model_shift(s, a) for a in given[c]]
                    st = [int(x) for x in rots[:, c]]
                    recd = dict(base, column=c, dihedrals=[rat(a) for a in given[c]], got=st)
                    if any(x < 0 or x >= nbas for x in st):
                        ctx.violation('%s_rotamers: invalid basin index in the result' % kind, recd)
                        break
                    if any(a in gates for a in exp):
                        ctx.tag('seam-column-on-gate')
                    else:
                        pr = rot_problem(hb, b, exp, st)
                        if pr is not None:
                            ctx.violation('%s_rotamers at the seam: %s' % (kind, pr[0]), recd, key=pr[1])
                            if pr[1] is None:
                                break
                    reqs.append({'op': 'C20.rotamers', 'angles': [rat(a) for a in exp], 'hb': [rat(v) for v in hb],
                                 'b': rat(b)})
                    pend.append((recd, st))
    resp = ctx.driver(reqs)
    badm = 0
    for (recd, st), r in zip(pend, resp):
        if r.get('ok') != st:
            badm += 1
            if badm <= 2:
                ctx.disagreement('Model.Rotamer.rotamers (on shiftAngle of the dihedrals) vs %s_rotamers' % recd['kind'],
                                 dict(recd, model=r))
    ctx.note('seam_scope', {'columns': len(pend), 'model_mismatches': badm})


def _stage_data_dir():
    import enspara
    return os.path.join(os.path.dirname(enspara.__file__), 'test', 'cards_data')


def wrapper_scope(ctx, sets, shifts, wseed, thorough):
    """phi/psi/chi/all_rotamers on the bundled peptide: real frames and random coordinates.
    Uses its own generator (seed recorded in every replay record) so a recorded failure re-runs identically."""
    rng = np.random.default_rng(wseed)
    ident = {'wseed': int(wseed), 'thorough': bool(thorough)}
    try:
        import mdtraj as md
    except Exception as e:  # noqa
        ctx.skip('mdtraj not importable: %s' % type(e).__name__)
        return
    from enspara.geometry import rotamer
    base = _stage_data_dir()
    pdb = os.path.join(base, 'PROT_only.pdb')
    xtc = os.path.join(base, 'trj0.xtc')
    if not (os.path.exists(pdb) and os.path.getsize(pdb) > 0):
        ctx.skip('bundled peptide topology missing')
        return
    top = md.load(pdb)
    trajs = []
    nfr = 60 if thorough else 12
    xyz = rng.normal(size=(nfr, top.n_atoms, 3)).astype(np.float32)
    trajs.append(('random-coords', md.Trajectory(xyz, top.topology)))
    # a slowly drifting random structure: small moves, many dwell-in-buffer frames
    start = rng.normal(size=(1, top.n_atoms, 3))
    steps = rng.normal(scale=0.08, size=(nfr, top.n_atoms, 3))
    trajs.append(('random-drift', md.Trajectory((start + np.cumsum(steps, axis=0)).astype(np.float32), top.topology)))
    if thorough and os.path.exists(xtc) and os.path.getsize(xtc) > 0:
        real = md.load(xtc, top=top.topology)
        off = int(rng.integers(0, max(1, len(real) - 400)))
        trajs.append(('bundled-xtc', real[off:off + 400:4]))
    buffers = [15, 0, 30.25] if not thorough else [15, 0, 30.25, 60, 79.75, 100.5, 119.75]
    reqs, expect = [], []
    xyz_before = {tname: trj.xyz.tobytes() for tname, trj in trajs}
    for tname, trj in trajs:
        for bw in buffers:
            for kind, fn in (('phi', rotamer.phi_rotamers), ('psi', rotamer.psi_rotamers),
                             ('chi', rotamer.chi_rotamers)):
                hb = [F(v) for v in sets[kind]]
                nbas = len(hb) - 1
                b = Fraction(bw)
                if not (0 <= b < Fraction(360, nbas)):
                    continue
                try:
                    with _Recorder(rotamer) as wrec:
                        rots, got_inds, n_states = fn(trj, buffer_width=bw)
                except Exception as e:  # noqa
                    ctx.violation('%s_rotamers raised %s' % (kind, type(e).__name__),
                                  dict(ident, t='wrapper', traj=tname, kind=kind, b=rat(b)))
                    continue
                ctx.tag('wrapper:%s:%s' % (kind, tname))
                try:
                    again = fn(trj, buffer_width=bw)
                    same = (np.array_equal(again[0], rots) and np.array_equal(again[1], got_inds)
                            and trj.xyz.tobytes() == xyz_before[tname])
                except Exception:  # noqa
                    same = False
                if not same:
                    ctx.violation('%s_rotamers: second call on the same trajectory differs / coordinates modified' % kind,
                                  dict(ident, t='wrapper', traj=tname, kind=kind, b=rat(b)))
                    continue
                # the dihedral angles of the atom quadruples the wrapper reports, converted to [0, 360) with
                # the same float32 operations the library uses (so both sides bin bit-identical numbers)
                try:
                    deg = np.rad2deg(md.compute_dihedrals(trj, np.asarray(got_inds, dtype=int)))
                    deg[deg < 0] += 360
                    clamped = (deg > 359.5).any(axis=0)     # the library clamps these to 359.5: column left out
                    if shifts[kind]:
                        deg = deg - shifts[kind]
                        deg[deg < 0] += 360
                    ok_shape = (np.shape(rots) == deg.shape and len(n_states) == deg.shape[1]
                                and all(int(x) == nbas for x in n_states)
                                and np.issubdtype(np.asarray(rots).dtype, np.integer))
                except Exception as e:  # noqa
                    ok_shape = False
                if not ok_shape:
                    ctx.violation('%s_rotamers: states / atom indices / n_states do not fit together' % kind,
                                  dict(ident, t='wrapper', traj=tname, kind=kind, b=rat(b)))
                    continue
                angles = deg
                gates = gate_values(hb, b)
                if len(wrec.calls) != angles.shape[1]:
                    ctx.violation('%s_rotamers: %d calls of _rotamers for %d dihedrals' % (kind, len(wrec.calls), angles.shape[1]),
                                  dict(ident, t='wrapper', traj=tname, kind=kind, b=rat(b)))
                    continue
                for c in range(angles.shape[1]):
                    # the wrapper's OWN angles (as handed to _rotamers), not a recomputation
                    own = np.asarray(wrec.calls[c][0], dtype=float)
                    col = [Fraction(float(x)) for x in own]
                    if any(not (0 <= a < 360) for a in col):
                        ctx.violation('%s_rotamers hands an angle outside [0, 360) to _rotamers for a dihedral in '
                                      '[-180, 180]' % kind,
                                      dict(ident, t='wrapper', traj=tname, kind=kind, column=c, b=rat(b),
                                           angles=[rat(a) for a in col]))
                        continue
                    # they are the dihedrals of the reported atoms (mod 360, float32 accuracy; clamped columns aside)
                    if not clamped[c]:
                        diff = np.abs(((own - angles[:, c].astype(float)) + 180.0) % 360.0 - 180.0)
                        if diff.max() > 1e-3:
                            ctx.violation('%s_rotamers: the angles handed to _rotamers are not the (shifted) dihedrals of '
                                          'the reported atoms' % kind,
                                          dict(ident, t='wrapper', traj=tname, kind=kind, column=c, b=rat(b)))
                            continue
                    if any(a in gates for a in col):
                        ctx.skip('wrapper column with an angle exactly on a gate value')
                        continue
                    st = [int(x) for x in rots[:, c]]
                    rec = dict(ident, t='wrapper', traj=tname, kind=kind, column=c, hb=[num(v) for v in hb],
                               b=rat(b), angles=[rat(a) for a in col], got=st)
                    ctx.evaluations += 1
                    # predicate
                    wraps = self_wrapping_basins(hb, b)
                    if st[0] != basin_of(hb, col[0]) or any(s < 0 or s >= nbas for s in st):
                        ctx.violation('%s_rotamers: first frame / validity' % kind, rec)
                        continue
                    for i in range(1, len(st)):
                        exp = spec_step(hb, b, st[i - 1], col[i])
                        if st[i] != exp:
                            known = (nbas == 2 and st[i - 1] in wraps and in_widened(hb, b, st[i - 1], col[i])
                                     and st[i] != st[i - 1])
                            ctx.violation('%s_rotamers: frame %d of dihedral %d differs from the hysteresis '
                                          'automaton' % (kind, i, c), rec, key=K_F13 if known else None)
                            break
                    reqs.append({'op': 'C20.rotamers', 'angles': rec['angles'], 'hb': [rat(v) for v in hb],
                                 'b': rat(b)})
                    expect.append(rec)
            # all_rotamers = phi | psi | chi side by side
            if Fraction(bw) < 120:
                try:
                    allr, alli, alln = rotamer.all_rotamers(trj, buffer_width=bw)
                    p = rotamer.phi_rotamers(trj, buffer_width=bw)
                    q = rotamer.psi_rotamers(trj, buffer_width=bw)
                    r = rotamer.chi_rotamers(trj, buffer_width=bw)
                    ok = (np.array_equal(allr, np.concatenate([p[0], q[0], r[0]], axis=1))
                          and np.array_equal(alli, np.concatenate([p[1], q[1], r[1]], axis=0))
                          and np.array_equal(alln, np.concatenate([p[2], q[2], r[2]], axis=0)))
                except Exception as e:  # noqa
                    ok = False
                ctx.tag('wrapper:all')
                if not ok:
                    ctx.violation('all_rotamers is not phi|psi|chi side by side',
                                  dict(ident, t='wrapper', traj=tname, kind='all', b=rat(Fraction(bw))))
    resp = ctx.driver(reqs)
    bad = 0
    for rec, r in zip(expect, resp):
        if r.get('ok') != rec['got']:
            bad += 1
            if bad <= 2:
                ctx.disagreement('Model.Rotamer.rotamers vs %s_rotamers column' % rec['kind'], dict(rec, model=r))
    ctx.note('wrapper_scope', {'columns_checked': len(reqs), 'model_mismatches': bad,
                               'trajectories': [t[0] for t in trajs], 'buffers': [str(x) for x in buffers]})


# ----------------------------------------------------------------------------------------------
# call histories: one mutable boundaries object reused across calls and edited in place between them, and
# fresh equal-content objects in A(x), A(y), A(x) order (id recycling).  Every call is compared with the exact
# oracle for the CURRENT content (module-level caches keyed by identity / stale results show up here).

def random_set(rng, n_basins):
    """a shifted boundary list with the structure of the library's sets (0 … 360, 2 or 3 basins)"""
    if n_basins == 2:
        return [Fraction(0), Fraction(int(rng.integers(40, 321))), Fraction(360)]
    m1 = int(rng.integers(100, 141))
    m2 = int(rng.integers(220, 261))
    return [Fraction(0), Fraction(m1), Fraction(m2), Fraction(360)]


def max_buffer_for(hb):
    """largest buffer for which a basin touching neither end stays inside [0,360] (as for the library's
    three-basin set with every accepted buffer); the accepted range otherwise"""
    nb = len(hb) - 1
    lim = Fraction(360, nb)
    for i in range(1, nb - 1):
        lim = min(lim, hb[i] + Q, 360 - hb[i + 1] + Q)
    if nb >= 3:                                   # and no widened basin wraps onto itself (true for the library's set)
        for i in range(nb):
            lim = min(lim, (360 - (hb[i + 1] - hb[i])) / 2 + Q)
    return lim


def gen_hist_case(rng, sets):
    obj = ['list', 'ndarray-int64', 'ndarray-float64'][int(rng.integers(0, 3))]
    mode = 'inplace' if rng.random() < 0.7 else 'fresh'
    nb = int(rng.choice([2, 2, 3]))
    lib = [[F(v) for v in hb] for hb in sets.values() if len(hb) - 1 == nb]
    pool = lib + [random_set(rng, nb) for _ in range(2)]
    x = pool[int(rng.integers(0, len(pool)))]
    y = pool[int(rng.integers(0, len(pool)))]
    if y == x:
        y = random_set(rng, nb)
    z = pool[int(rng.integers(0, len(pool)))]
    order = [[x, y, x], [x, y, x, y], [x, x, y, y, x], [x, y, z, x]][int(rng.integers(0, 4))]
    same_b = rng.random() < 0.65
    lim = min(max_buffer_for(h) for h in order)
    pick_b = lambda: Fraction(int(rng.integers(0, int(lim * 4))), 4) if rng.random() < 0.8 else Fraction(0)  # noqa: E731
    b0 = pick_b()
    steps, prev = [], None
    for hb in order:
        b = b0 if same_b else pick_b()
        gates = gate_values(hb, b)
        old_gates = gate_values(prev[0], prev[1]) if prev else set()
        call = ['rotamers', 'rotamers', 'exit', 'gates'][int(rng.integers(0, 4))]
        # angles around the gates of the current AND of the previous content (the window where stale gates matter)
        pts = sorted(gates | old_gates | {v for v in hb if v < 360})
        ang = []
        for _ in range(int(rng.integers(6, 16))):
            if rng.random() < 0.7:
                g = pts[int(rng.integers(0, len(pts)))]
                ang.append((g + Fraction(int(rng.integers(-24, 25)), 4)) % 360)
            else:
                ang.append(Fraction(int(rng.integers(0, 1440)), 4))
        ang = fix_gates(ang, gates, rng)
        steps.append({'hb': [num(v) for v in hb], 'b': rat(b), 'call': call, 'angles': [rat(a) for a in ang]})
        prev = (hb, b)
    return {'t': 'hist', 'obj': obj, 'mode': mode, 'steps': steps}


def run_hist(case):
    """performs the calls of one history in order; returns the per-step observations"""
    from enspara.geometry import rotamer
    obj, mode = case['obj'], case['mode']

    def make(vals):
        if obj == 'list':
            return list(vals)
        return np.array(vals, dtype=obj.split('-')[1])
    B = None
    out = []
    for st in case['steps']:
        if mode == 'inplace' and B is not None and len(B) == len(st['hb']):
            B[:] = st['hb']                                   # edit the SAME object in place
        else:
            B = None                                          # refcount frees it: the next object may reuse its id
            B = make(st['hb'])                                # a fresh object (its id may be a recycled one)
        b = num(Fraction(*st['b']))
        ang = [float(Fraction(*a)) for a in st['angles']]
        nb = len(st['hb']) - 1
        try:
            if st['call'] == 'rotamers':
                r = rotamer._rotamers(np.array(ang), B, b)
                out.append({'ok': [int(v) for v in r]})
            elif st['call'] == 'gates':
                res = []
                for s in range(nb):
                    lo, up = rotamer.get_gates(s, B, b)
                    res.append([rat(lo), rat(up)])
                out.append({'ok': res})
            else:
                res = []
                for k, a in enumerate(ang):
                    res.append(bool(rotamer.is_buffered_transition(k % nb, a, B, b)))
                out.append({'ok': res})
        except Exception as e:  # noqa
            out.append({'error': type(e).__name__})
        content = [Fraction(v) for v in (B.tolist() if isinstance(B, np.ndarray) else B)]
        out[-1]['content_ok'] = content == [Fraction(v) for v in st['hb']]
    return out


def hist_requests(case):
    reqs = []
    for st in case['steps']:
        hbr = [rat(v) for v in st['hb']]
        nb = len(st['hb']) - 1
        if st['call'] == 'rotamers':
            reqs.append({'op': 'C20.rotamers', 'angles': st['angles'], 'hb': hbr, 'b': st['b']})
        elif st['call'] == 'gates':
            reqs += [{'op': 'C20.gates', 's': s, 'hb': hbr, 'b': st['b']} for s in range(nb)]
        else:
            reqs += [{'op': 'C20.exit', 's': k % nb, 'a': a, 'hb': hbr, 'b': st['b']}
                     for k, a in enumerate(st['angles'])]
    return reqs


def rot_problem(hb, b, ang, st):
    """the property's predicate on one state sequence: (what, key) of the first problem, or None"""
    nb = len(hb) - 1
    wraps = self_wrapping_basins(hb, b)
    if len(st) != len(ang) or any(s < 0 or s >= nb for s in st):
        return 'wrong length / invalid basin index', None
    if st[0] != basin_of(hb, ang[0]):
        return 'first frame is not the basin containing its angle', None
    known = None
    for i in range(1, len(st)):
        if st[i] != spec_step(hb, b, st[i - 1], ang[i]):
            prev = st[i - 1]
            if nb == 2 and prev in wraps and in_widened(hb, b, prev, ang[i]) and st[i] != prev:
                known = ('two-basin set, widened basin covers the circle, yet the state changed at frame %d' % i, K_F13)
            else:
                return 'state at frame %d differs from the hysteresis automaton' % i, None
    if b == 0 and st != [basin_of(hb, a) for a in ang]:
        return 'zero buffer is not plain binning', None
    return known


def check_hist(ctx, case, obs, resp):
    """obs = run_hist(case); resp = model answers for hist_requests(case)"""
    calls = [s['call'] for s in case['steps']]
    same_b = len({tuple(s['b']) for s in case['steps']}) == 1
    ctx.case(case, nontrivial=True,
             tags=['hist', 'hist-obj=%s' % case['obj'], 'hist-mode=%s' % case['mode'],
                   'hist-same-buffer' if same_b else 'hist-buffers-differ'] + ['hist-call=%s' % c for c in set(calls)])
    k = 0
    for idx, (st, ob) in enumerate(zip(case['steps'], obs)):
        hb = [F(v) for v in st['hb']]
        b = Fraction(*st['b'])
        ang = [Fraction(*a) for a in st['angles']]
        nb = len(hb) - 1
        n_req = 1 if st['call'] == 'rotamers' else (nb if st['call'] == 'gates' else len(ang))
        model = resp[k:k + n_req]
        k += n_req
        rec = dict(case, failing_step=idx)
        if 'error' in ob:
            ctx.violation('history step %d (%s) raised %s' % (idx, st['call'], ob['error']), rec)
            return
        if not ob.get('content_ok', True):
            ctx.violation('history step %d: the boundaries object was modified by the call' % idx, rec)
            return
        if st['call'] == 'rotamers':
            pr = rot_problem(hb, b, ang, ob['ok'])
            if pr is not None:
                ctx.violation('history step %d, _rotamers on the current content of the reused boundaries object: %s'
                              % (idx, pr[0]), dict(rec, got=ob['ok']), key=pr[1])
                if pr[1] is None:
                    return
            if model[0].get('ok') != ob['ok']:
                ctx.disagreement('Model.Rotamer.rotamers vs _rotamers in a call history', dict(rec, got=ob['ok'], model=model[0]))
                return
        elif st['call'] == 'exit':
            gates = gate_values(hb, b)
            wraps = self_wrapping_basins(hb, b)
            for j, a in enumerate(ang):
                s = j % nb
                got = ob['ok'][j]
                if a not in gates and got != (not in_widened(hb, b, s, a)):
                    known = nb == 2 and s in wraps and got
                    ctx.violation('history step %d: is_buffered_transition(%d, %s) on the current content says %s'
                                  % (idx, s, float(a), got), dict(rec, got=ob['ok']), key=K_F13 if known else None)
                    if not known:
                        return
                if model[j].get('ok') != got:
                    ctx.disagreement('Model.Rotamer.isBufferedTransition vs is_buffered_transition in a call history',
                                     dict(rec, got=ob['ok']))
                    return
        else:
            # gates are not named by the property: expected values straight from the definition of the widened
            # basin's ends as the code represents them are the model's business -> model comparison only
            if [m.get('ok') for m in model] != ob['ok']:
                ctx.disagreement('Model.Rotamer.getGates vs get_gates in a call history', dict(rec, got=ob['ok']))
                return


def hist_scope(ctx, sets):
    cases = [gen_hist_case(ctx.rng, sets) for _ in range(ctx.n(250, 1500))]
    # the reported scenario, literally: phi's list edited in place into psi's, same buffer, then back
    for obj in ('list', 'ndarray-int64'):
        for b in (0, 15):
            ang = [rat(Fraction(x)) for x in (10, 150.25, 165.25, 170.5, 176.25, 185.5, 200, 170.5, 150.25, 350.5, 5)]
            cases.append({'t': 'hist', 'obj': obj, 'mode': 'inplace', 'steps': [
                {'hb': [0, 180, 360], 'b': rat(b), 'call': 'rotamers', 'angles': ang},
                {'hb': [0, 160, 360], 'b': rat(b), 'call': 'rotamers', 'angles': ang},
                {'hb': [0, 180, 360], 'b': rat(b), 'call': 'exit', 'angles': ang},
                {'hb': [0, 160, 360], 'b': rat(b), 'call': 'gates', 'angles': ang}]})
    obs = [run_hist(c) for c in cases]                    # real calls first, in order, history by history
    reqs, spans = [], []
    for c in cases:
        r = hist_requests(c)
        spans.append((len(reqs), len(reqs) + len(r)))
        reqs += r
    resp = ctx.driver(reqs)
    for c, o, (lo, hi) in zip(cases, obs, spans):
        check_hist(ctx, c, o, resp[lo:hi])


# ----------------------------------------------------------------------------------------------
# transitions

DTYPES = ['int8', 'int16', 'int32', 'int64', 'uint8', 'uint16', 'uint32', 'uint64']


def dt_info(name):
    d = np.dtype(name)
    return {'bits': d.itemsize * 8, 'signed': d.kind == 'i'}


def gen_row(rng, n, dtype, style):
    info = np.iinfo(dtype)
    pool_kind = rng.random()
    if pool_kind < 0.6:
        pool = [0, 1, 2, 3][:int(rng.integers(2, 5))]
    elif pool_kind < 0.8:
        pool = [int(info.min), int(info.max), 0, 1]              # wrap-around in the subtraction
    else:
        pool = [int(info.max), int(info.max) - 1, int(info.min) + 1]
    if style == 'quiet':
        v = pool[int(rng.integers(0, len(pool)))]
        return [v] * n
    if style == 'busy':
        return [pool[int(rng.integers(0, len(pool)))] for _ in range(n)]
    # sticky: long quiet runs
    out, cur = [], pool[int(rng.integers(0, len(pool)))]
    for _ in range(n):
        if rng.random() < 0.25:
            cur = pool[int(rng.integers(0, len(pool)))]
        out.append(cur)
    return out


T1_VIEWS = ['plain', 'plain', 'strided', 'reversed']
T2_FORMS = ['c', 'c', 'f', 'transposed-view', 'reversed-rows-view', 'strided-cols-view', 'ragged']


def gen_t1(rng, n=None, style=None):
    dtype = DTYPES[int(rng.integers(0, len(DTYPES)))]
    if n is None:
        n = int(rng.choice([0, 1, 2, 3, 5, 9, 17, 30]))
    style = style or ['busy', 'sticky', 'quiet'][int(rng.choice([0, 0, 1, 1, 1, 1, 2]))]
    return {'t': 't1', 'dtype': dtype, 'xs': gen_row(rng, n, dtype, style),
            'view': T1_VIEWS[int(rng.integers(0, len(T1_VIEWS)))]}


def gen_t1_late(rng, n):
    """a long quiet array whose only transitions sit beyond positions 255 / 65535"""
    dtype = DTYPES[int(rng.integers(0, len(DTYPES)))]
    xs = [1] * n
    for pos in sorted({n - 1, n - 2, n - 7, n // 2 + 200}):
        if 0 < pos < n:
            xs[pos:] = [xs[pos - 1] ^ 1] * (n - pos)
    return {'t': 't1', 'dtype': dtype, 'xs': xs, 'view': 'plain'}


def gen_t2(rng, form=None, ntr=None, nf=None):
    dtype = DTYPES[int(rng.integers(0, len(DTYPES)))]
    form = form or T2_FORMS[int(rng.integers(0, len(T2_FORMS)))]
    if ntr is None:
        ntr = int(rng.choice([1, 2, 3, 4, 6]))
    pattern = int(rng.choice([0, 1, 2, 3, 4, 5, 5, 5, 5, 5, 1, 2, 3]))
    if form == 'ragged':
        lens = [int(rng.integers(2, 10)) for _ in range(ntr)]
        if rng.random() < 0.35:
            lens[int(rng.integers(0, ntr))] = int(rng.integers(0, 2))      # a 0/1-frame trajectory
        if ntr >= 2 and len(set(lens)) == 1:
            lens[0] += 1
        if nf is not None:
            lens = [max(2, nf - int(rng.integers(0, 3))) for _ in range(ntr)]
    else:
        if nf is None:
            nf = int(rng.choice([0, 1, 2, 3, 3, 5, 5, 8, 8, 12]))
        lens = [nf] * ntr
    rows = []
    for i, L in enumerate(lens):
        if pattern == 0:
            style = 'quiet'                                             # nothing anywhere
        elif pattern == 1:
            style = 'quiet' if i == 0 else 'busy'                       # quiet row at the start
        elif pattern == 2:
            style = 'quiet' if i == ntr - 1 else 'busy'                 # … at the end
        elif pattern == 3:
            style = 'quiet' if (0 < i < ntr - 1) else 'busy'            # … in the middle
        elif pattern == 4:
            style = 'busy' if i == ntr - 1 else 'quiet'                 # only the last row moves
        else:
            style = ['busy', 'sticky', 'quiet'][int(rng.integers(0, 3))]
        rows.append(gen_row(rng, L, dtype, style))
    return {'t': 't2', 'dtype': dtype, 'form': form, 'rows': rows}


def ref_transitions(xs):
    return [n for n in range(len(xs) - 1) if xs[n] != xs[n + 1]]


def call_t1(case):
    """two calls on the SAME array object (possibly a strided / reversed view); contents snapshotted"""
    from enspara.cards import disorder
    xs, dtype, view = case['xs'], case['dtype'], case.get('view', 'plain')
    if view == 'strided':
        base = np.zeros(2 * len(xs), dtype=dtype)
        base[::2] = xs
        a = base[::2]
    elif view == 'reversed':
        a = np.array(xs[::-1], dtype=dtype)[::-1]
    else:
        a = np.array(xs, dtype=dtype)
    before = a.tobytes()
    outs = []
    for _ in range(2):
        try:
            outs.append(disorder.transitions(a))
        except Exception as e:  # noqa
            return {'error': type(e).__name__}
    out = outs[0]
    return {'ok': [int(x) for x in out], 'ok2': [int(x) for x in outs[1]], 'ndim': int(np.ndim(out)),
            'unchanged': a.tobytes() == before}


def call_t2(case):
    """two calls on the SAME array object; contents snapshotted"""
    from enspara.cards import disorder
    from enspara import ra
    rows, dtype, form = case['rows'], case['dtype'], case['form']
    if form == 'ragged' and sum(len(r) for r in rows) == 0:
        return {'skipped': 'no data'}               # see check_t2
    if form == 'ragged':
        a = ra.RaggedArray([np.array(r, dtype=dtype) for r in rows])

        def snap():
            return a._data.tobytes()
    else:
        nf = len(rows[0]) if rows else 0
        base = np.array(rows, dtype=dtype).reshape(len(rows), nf)
        if form == 'f':
            a = np.asfortranarray(base)
        elif form == 'transposed-view':
            a = np.ascontiguousarray(base.T).T
        elif form == 'reversed-rows-view':
            a = np.ascontiguousarray(base[::-1])[::-1]
        elif form == 'strided-cols-view':
            big = np.zeros((len(rows), 2 * nf), dtype=dtype)
            big[:, ::2] = base
            a = big[:, ::2]
        else:
            a = base

        def snap():
            return a.tobytes()
    before = snap()
    res = []
    for _ in range(2):
        try:
            tt = disorder.transitions(a)
        except Exception as e:  # noqa
            return {'error': type(e).__name__}
        try:
            lengths = [int(x) for x in tt.lengths]
            res.append([[int(x) for x in tt[i]] for i in range(len(lengths))])
        except Exception as e:  # noqa
            return {'error': 'unreadable-result:' + type(e).__name__}
    return {'ok': res[0], 'ok2': res[1], 'lengths': lengths, 'unchanged': snap() == before}


def bool_probe(ctx):
    """bool arrays are not a state dtype (numpy refuses `-` on booleans): outside the quantifier.
    Probed so that the evidence says what happens; checked against the oracle if it ever returns."""
    from enspara.cards import disorder
    for a in (np.array([True, False, False, True]), np.array([[True, False, False], [False, False, True]])):
        try:
            tt = disorder.transitions(a)
        except TypeError:
            ctx.skip('bool state array: numpy refuses boolean subtraction (not a state dtype)')
            continue
        except Exception as e:  # noqa
            ctx.skip('bool state array raised %s' % type(e).__name__)
            continue
        rows = [a.tolist()] if a.ndim == 1 else a.tolist()
        got = [[int(x) for x in tt]] if a.ndim == 1 else [[int(x) for x in tt[i]] for i in range(len(rows))]
        ctx.tag('t-bool-returned')
        if got != [ref_transitions(r) for r in rows]:
            ctx.violation('transitions on a bool array returns wrong frames', {'t': 'bool', 'rows': rows, 'got': got})


def check_t1(ctx, case, got, model):
    xs = case['xs']
    ref = ref_transitions(xs)
    ctx.case(case, nontrivial=len(ref) > 0,
             tags=['t1', 'dtype=%s' % case['dtype'], 't1-view=%s' % case.get('view', 'plain'),
                   't1-len=%d' % len(xs) if len(xs) <= 30 else 't1-len>%d' % (65535 if len(xs) > 65535 else 255),
                   't1-quiet' if not ref else 't1-moves'])
    if 'error' in got:
        ctx.violation('transitions (1-D) raised %s' % got['error'], case)
        return
    if got.get('ok2', got['ok']) != got['ok'] or not got.get('unchanged', True):
        ctx.violation('transitions (1-D): second call on the same array differs / the array was modified', case)
        return
    if got['ok'] != ref or got['ndim'] != 1:
        ctx.violation('transitions (1-D) does not report exactly the frames whose successor differs',
                      dict(case, got=got['ok'], expected=ref))
        return
    if model.get('ok') != got['ok']:
        ctx.disagreement('Model.Rotamer.transitions1d vs disorder.transitions', dict(case, model=model, impl=got))


def check_t2(ctx, case, got, model):
    rows = case['rows']
    ref = [ref_transitions(r) for r in rows]
    quiet = all(len(r) == 0 for r in ref)
    short = case['form'] == 'ragged' and any(len(r) < 2 for r in rows)
    qpos = [i for i, r in enumerate(ref) if not r]
    where = []
    if qpos and not quiet:
        if 0 in qpos:
            where.append('quiet-row-first')
        if len(rows) - 1 in qpos:
            where.append('quiet-row-last')
        if any(0 < i < len(rows) - 1 for i in qpos):
            where.append('quiet-row-middle')
    if case['form'] == 'ragged' and sum(len(r) for r in rows) == 0:
        # a RaggedArray without any data cannot be handled by the RaggedArray machinery itself
        # (IndexError on a totally empty array): outside this property's quantifier
        ctx.skip('ragged input with zero frames in total')
        return
    ctx.case(case, nontrivial=not quiet,
             tags=['t2', 't2-form=%s' % case['form'], 'dtype=%s' % case['dtype'],
                   't2-ntraj=%d' % len(rows) if len(rows) <= 6 else 't2-ntraj>255',
                   ('t2-frames>%d' % (65535 if max(map(len, rows)) > 65535 else 255))
                   if rows and max(map(len, rows)) > 255 else 't2-frames<=255',
                   't2-all-quiet' if quiet else 't2-moves'] + where + (['t2-short-ragged-row'] if short else []))
    if 'error' in got:
        ctx.violation('transitions (%s, %d trajectories) raised %s' % (case['form'], len(rows), got['error']),
                      case)
        return
    if got.get('ok2', got['ok']) != got['ok'] or not got.get('unchanged', True):
        ctx.violation('transitions (2-D): second call on the same array differs / the array was modified', case)
        return
    if got['ok'] != ref or len(got['ok']) != len(rows):
        ctx.violation('transitions (2-D) is not the per-trajectory list of frames whose successor differs',
                      dict(case, got=got['ok'], expected=ref))
        return
    if model.get('ok') != got['ok']:
        ctx.disagreement('Model.Rotamer.transitions2d vs disorder.transitions', dict(case, model=model, impl=got))


def t_request(case):
    info = dt_info(case['dtype'])
    if case['t'] == 't1':
        return dict(info, op='C20.transitions1d', xs=case['xs'])
    return dict(info, op='C20.transitions2d', rows=case['rows'])


# ----------------------------------------------------------------------------------------------

def _staged_info(ctx):
    """boundary sets / buffers / shifts / guard flag of the STAGED library.  Never raises: dynamic extraction on
    the staged modules, then the source-tree extraction (child process, then AST), then the constants of the
    last Generated file (reported as a broken correspondence)."""
    errs = []
    try:
        from enspara.geometry import rotamer
        from enspara.cards import disorder
        info = _dynamic_extract(rotamer, disorder)
        try:
            from enspara import __file__ as ens_file
            st = _static_extract(os.path.dirname(os.path.dirname(ens_file)))
            info['extra_sets'], info['unresolved_call_sites'] = st['extra_sets'], st['unresolved_call_sites']
        except Exception as e:  # noqa
            info['unresolved_call_sites'] = ['static scan failed: %s' % str(e)[:200]]
        return info
    except Exception as e:  # noqa
        errs.append('dynamic: %s' % str(e)[:300])
    try:
        from enspara import __file__ as ens_file
        return _extract(os.path.dirname(os.path.dirname(ens_file)))
    except Exception as e:  # noqa
        errs.append('source tree: %s' % str(e)[:300])
    consts = ctx.driver([{'op': 'C20.consts'}])[0].get('ok', {})

    def val(q):
        f = Fraction(q[0], q[1])
        return int(f) if f.denominator == 1 else float(f)
    csets = [[val(v) for v in hb] for hb in consts.get('sets', [])]
    cb = [val(v) for v in consts.get('buffers', [15, 15, 15, 15])]
    cs = [val(v) for v in consts.get('shifts', [0, 100, 0])]
    ctx.disagreement('translator cannot read the boundary sets of the staged library (%s); continuing with the '
                     'constants of the last Generated file' % '; '.join(errs), {'t': 'consts', 'errors': errs})
    return {'sets': dict(zip(('phi', 'psi', 'chi'), csets[:3])),
            'extra_sets': [{'where': 'Generated', 'hb': hb} for hb in csets[3:]],
            'buffers': dict(zip(('phi', 'psi', 'chi', 'core'), cb)), 'shift': dict(zip(('phi', 'psi', 'chi'), cs)),
            'all_quiet_guard': bool(consts.get('all_quiet_guard')), 'static': None, 'unresolved_call_sites': []}


def run(ctx):
    info = _staged_info(ctx)
    ctx.note('extraction', {'static': info.get('static'), 'unresolved_call_sites': info.get('unresolved_call_sites', [])})
    sets, shifts = dict(info['sets']), info['shift']
    for i, e in enumerate(info['extra_sets']):                        # other `_rotamers(` call sites, if any
        sets['extra%d' % i] = e['hb']
    buffers = dict(info['buffers'])
    for k in sets:
        buffers.setdefault(k, info['buffers']['core'])
    # the generated Lean constants are the ones this run extracted from the staged source
    consts = ctx.driver([{'op': 'C20.consts'}])[0].get('ok', {})
    model_sets = [[Fraction(n, d) for n, d in s] for s in consts.get('sets', [])]
    if model_sets != [[F(v) for v in sets[k]] for k in sets]:
        ctx.disagreement('generated boundary sets in the Lean model differ from the staged source',
                         {'t': 'consts', 'model': consts, 'source': sets})
    ctx.note('boundary_sets', sets)
    ctx.note('default_buffers', info['buffers'])

    helper_scope(ctx, sets)

    # core routine
    cases = []
    for name in sets:                                                # the coordinator's witness, per set
        cases.append({'t': 'rot', 'set': name, 'hb': list(sets[name]), 'b': rat(100), 'angles': [rat(10), rat(200), rat(10)],
                      'kind': 'witness', 'container': 'float64', 'hb_as_array': False})
    cases += [gen_rot_case(ctx.rng, sets) for _ in range(ctx.n(5000, 40000))]
    # default buffers of the wrappers on every set
    for name in sets:
        for _ in range(ctx.n(20, 200)):
            c = gen_rot_case(ctx.rng, sets, force_set=name)
            hb = [F(v) for v in c['hb']]
            b = F(buffers[name])
            c['b'] = rat(b)
            c['angles'] = [rat(a) for a in fix_gates([Fraction(*a) for a in c['angles']], gate_values(hb, b), ctx.rng)]
            if b == F(info['buffers']['core']) and ctx.rng.random() < 0.5:
                c['b_form'] = 'omitted'                  # _rotamers(angles, hard_boundaries): default buffer_width
            if c.get('b_form') in ('np.float32', 'np.int64') and b.denominator != 1:
                c['b_form'] = 'py'
            if c['container'] in INT_CONTAINERS and any(Fraction(*a).denominator != 1 for a in c['angles']):
                c['container'] = 'float64'               # an angle was moved off a gate by a quarter degree
            cases.append(c)
    # sequences longer than 255 / 65535 frames (size boundaries), buffer-dwelling walks
    for n, cnt in ((300, ctx.n(6, 40)), (70000, ctx.n(1, 4))):
        for j in range(cnt):
            cases.append(gen_rot_case(ctx.rng, sets, force_kind=['walk', 'dwell', 'uniform'][j % 3], n=n))
    # every container / boundary form / buffer form at least a few times with the short degenerate shapes
    for kind in ('constant', 'edge', 'near-gate', 'integer'):
        for n in (1, 2, 3):
            for _ in range(ctx.n(6, 40)):
                cases.append(gen_rot_case(ctx.rng, sets, force_kind=kind, n=n))
    cases = [c for c in cases if Fraction(*c['b']) < Fraction(360, len(c['hb']) - 1)]
    errs = gen_err_cases(sets)
    resp = ctx.driver([rot_request(c) for c in cases + errs])
    for c, r in zip(cases, resp[:len(cases)]):
        check_rot(ctx, c, call_rotamers(c), r)
    for c, r in zip(errs, resp[len(cases):]):
        check_rot_err(ctx, c, call_rotamers(c), r)

    hist_scope(ctx, sets)

    seam_scope(ctx, {k: sets[k] for k in ('phi', 'psi', 'chi')}, shifts, int(ctx.rng.integers(0, 2 ** 31)), ctx.thorough)

    wrapper_scope(ctx, sets, shifts, int(ctx.rng.integers(0, 2 ** 31)), ctx.thorough)

    # transitions
    tcases = [gen_t1(ctx.rng) for _ in range(ctx.n(1500, 10000))]
    tcases += [gen_t2(ctx.rng) for _ in range(ctx.n(2500, 15000))]
    # size boundaries: positions beyond 255 / 65535, more than 255 trajectories, long rows
    for n, cnt in ((300, ctx.n(6, 40)), (70000, ctx.n(2, 6))):
        for j in range(cnt):
            tcases.append(gen_t1(ctx.rng, n=n, style=['sticky', 'busy'][j % 2]) if j % 3 else gen_t1_late(ctx.rng, n))
    for j in range(ctx.n(4, 24)):
        tcases.append(gen_t2(ctx.rng, form=T2_FORMS[j % len(T2_FORMS)], ntr=300, nf=int(ctx.rng.integers(2, 6))))
    for j in range(ctx.n(3, 14)):
        tcases.append(gen_t2(ctx.rng, form=T2_FORMS[j % len(T2_FORMS)], ntr=int(ctx.rng.integers(1, 4)), nf=300))
    for j in range(ctx.n(1, 3)):
        tcases.append(gen_t2(ctx.rng, form=['c', 'ragged', 'f'][j % 3], ntr=2, nf=70000))
    bool_probe(ctx)
    tcases += [{'t': 't2', 'dtype': 'int64', 'form': 'c', 'rows': []},
               {'t': 't2', 'dtype': 'int16', 'form': 'c', 'rows': [[0, 0, 0], [0, 1, 0], [2, 2, 2], [1, 1, 0], [0, 0, 0]]},
               {'t': 't2', 'dtype': 'uint8', 'form': 'c', 'rows': [[0, 255], [255, 255]]}]
    tresp = ctx.driver([t_request(c) for c in tcases])
    for c, r in zip(tcases, tresp):
        if c['t'] == 't1':
            check_t1(ctx, c, call_t1(c), r)
        else:
            check_t2(ctx, c, call_t2(c), r)


def replay(ctx, case):
    t = case.get('t')
    if t == 'rot':
        check_rot(ctx, case, call_rotamers(case), ctx.driver([rot_request(case)])[0])
    elif t == 'rot-err':
        check_rot_err(ctx, case, call_rotamers(case), ctx.driver([rot_request(case)])[0])
    elif t == 'wrapper':
        info = _staged_info(ctx)
        wrapper_scope(ctx, info['sets'], info['shift'], case['wseed'], case['thorough'])
    elif t == 'seam':
        info = _staged_info(ctx)
        seam_scope(ctx, {k: info['sets'][k] for k in ('phi', 'psi', 'chi')}, info['shift'], case['sseed'], case['thorough'])
    elif t == 'hist':
        c = {k: v for k, v in case.items() if k not in ('failing_step', 'got', 'model')}
        check_hist(ctx, c, run_hist(c), ctx.driver(hist_requests(c)))
    elif t == 't1':
        check_t1(ctx, case, call_t1(case), ctx.driver([t_request(case)])[0])
    elif t == 't2':
        check_t2(ctx, case, call_t2(case), ctx.driver([t_request(case)])[0])
    elif t == 'helper':
        from enspara.geometry import rotamer
        rq = case['req']
        hb = [num(Fraction(*v)) for v in rq['hb']]
        b = num(Fraction(*rq['b']))
        if rq['op'] == 'C20.gates':
            lo, up = rotamer.get_gates(rq['s'], hb, b)
            im = [rat(lo), rat(up)]
        else:
            im = bool(rotamer.is_buffered_transition(rq['s'], float(Fraction(*rq['a'])), hb, b))
        r = ctx.driver([rq])[0]
        if r.get('ok') != im:
            ctx.disagreement('Model.Rotamer helper vs rotamer helper', dict(case, impl_now=im, model=r))
        if rq['op'] == 'C20.exit':
            hbf = [Fraction(*v) for v in rq['hb']]
            bf, af = Fraction(*rq['b']), Fraction(*rq['a'])
            if af not in gate_values(hbf, bf) and im != (not in_widened(hbf, bf, rq['s'], af)):
                known = len(hbf) == 3 and rq['s'] in self_wrapping_basins(hbf, bf) and im
                ctx.violation('is_buffered_transition disagrees with widened-basin membership', case,
                              key=K_F13 if known else None)
    elif t == 'consts':
        run(ctx)
    else:
        raise ValueError('unknown replay record %r' % t)
