"""C14 - MPI-striped clustering and reductions equal their serial counterparts.

The real `enspara.mpi.ops` / `enspara.mpi.io` functions and the real distributed
k-centers / k-medoids / hybrid code run on thread-simulated ranks (harness/mpi_stub); the
serial run on the concatenated data is the oracle; the Lean models (Model/Mpi.lean,
Model/MpiPam.lean for the distributed PAM sweep) are compared with both.
"""
import os
import shutil
import tempfile
import threading
import time
from fractions import Fraction

import numpy as np

RULE = ('world sizes 1..8; trajectory length vectors with 1..6 frames per trajectory and w..w+6 '
        'trajectories (so ranks owning exactly one trajectory, ranks owning several equal-length '
        'trajectories and, separately, more ranks than trajectories = empty ranks, which the code '
        'rejects); tie-free symmetric integer distance tables (all off-diagonal distances distinct) '
        'driven through a table metric on data holding global frame ids; n_clusters 1..N+1 and/or a '
        'radius cutoff; a random sleep before every collective varies the arrival order of ranks; '
        'ops/io functions get packed and non-packed layouts, empty local arrays, error inputs; '
        'randind is enumerated over every value of the RNG draw; .h5/.npy fixtures are written to a '
        'temp dir. pam-model cases: distributed _kmedoids_pam_update / kmedoids (warm start, centers as '
        '(trajectory, frame) pairs or flat ids) for 1-2 sweeps from a k-centers state or from arbitrary labels / '
        'distances, with explicit (rank, index) proposals (cluster members or any frame), randind proposals '
        '(draws recorded) or invalid proposals (owner >= w, index past the owner\'s frames, wrong length), compared '
        'exactly with Model/MpiPam.lean per rank and per sweep (labels, distances, medoid pairs, broadcast medoid '
        'frames, accept flags, global costs) and with the serial sweep on the concatenated data. '
        'Blind-spot families (predicate only, tagged model-skipped-*): local arrays with > 255 and > 65535 '
        'frames and > 255 clusters through a tie-free functional (hashed pair) metric; world size equal to / one '
        'less than the number of trajectories; data ids as float64/float32/int64/int32; lengths as '
        'ndarray/list/tuple/int32; tables scaled by 2**-30 / 2**30 and shifted by 2**20 / 2**30 (near-ties); '
        'use_triangle_inequality=True; every ops function on int16/int32/int64/uint8/float32/float64/bool data '
        'that is mixed-sign, all-negative or all-equal, with index arguments as tuples/lists/int64/int32 ndarrays, '
        'called twice with the SAME objects (arguments must stay unchanged); k-medoids warm-started under MPI from '
        'the very arrays distributed k-centers returned; 12 and 101 files, strides up to 5, float32/int32 files; '
        'arrival orders: random sleeps, highest-rank-first staggering, one straggler; init_centers under MPI. '
        'A case is non-trivial when more than one rank holds data (w >= 2) and the '
        'call succeeds; distinct by canonical input')
ASSUMPTIONS = [
    'the mpi4py stand-in (harness/mpi_stub) is NOT an MPI library: ranks are threads of one process, '
    'collectives return a function of all contributions; real message passing, process boundaries, '
    'pickling of bcast objects and Bcast buffer/dtype semantics are outside this check',
    'arrival order of ranks at a collective cannot influence its result (the MPI contract; exercised '
    'with random sleeps before every collective but not modelled)',
    'trajectory lengths are >= 1 for clustering cases (the library\'s own loader rejects lengths <= 0); '
    'every rank owns >= 1 trajectory (the code raises otherwise; checked as an error case)',
    'distance tables hold small integers, so float64 sums of squares are exact and the PAM cost '
    'comparison is rounding-free',
    'distributed PAM (Model/MpiPam.lean): medoid_inds, medoid_coords, both costs and the accept decision are '
    'single values of the model because they come out of collectives (same value on every rank by the MPI '
    'contract); that the real ranks agree is checked here rank by rank. Frames are identified with their '
    'global frame id (the data array holds the id, the metric is a table on ids). Random proposals: the '
    'integers rank 0 draws in randind (recorded through a RandomState subclass) are the model\'s oracle',
    'for inputs outside the property (wrong local array length) only the coarse outcome (length error vs '
    'success) of assemble_striped_ragged_array is compared with the model',
]
TRUSTED_EXTRA = ['thread-simulated mpi4py stand-in harness/mpi_stub/mpi4py/MPI.py (collectives = '
                 'functions of all ranks\' contributions)']

KIND = {'IndexError': 'index-error', 'ValueError': 'value-error',
        'ImproperlyConfigured': 'improperly-configured', 'AssertionError': 'assertion',
        'DataInvalid': 'data-invalid', 'AttributeError': 'attribute-error',
        'NotImplementedError': 'not-implemented', 'UnboundLocalError': 'unbound-local',
        'TypeError': 'type-error'}


# ----------------------------------------------------------------------------- simulated ranks

class Outcome:
    def __init__(self, results, errors, hung):
        self.results, self.errors, self.hung = results, errors, hung
        self.kinds = sorted({KIND.get(type(e).__name__, type(e).__name__) for e in errors
                             if e is not None and not _is_abort(e)})

    @property
    def ok(self):
        return not self.hung and all(e is None for e in self.errors)

    @property
    def deadlock(self):
        """ranks were left waiting in a collective although no rank raised"""
        return self.hung or (not self.ok and not self.kinds)

    def describe(self):
        if self.ok:
            return 'ok'
        return 'deadlock' if self.deadlock else 'error:' + ','.join(self.kinds)


def raised_in(outcome, funcname):
    """True when every genuine error of the outcome was raised below `funcname`"""
    import traceback
    errs = [e for e in outcome.errors if e is not None and not _is_abort(e)]
    if not errs:
        return False
    return all(any(fr.name == funcname for fr in traceback.extract_tb(e.__traceback__)) for e in errs)


def equal_rows_key(w, L, outcome):
    """the remaining RaggedArray slice-assignment defect: all trajectories have the same length, some
    rank owns >= 2 of them, and assemble_striped_ragged_array raises ValueError"""
    if len(set(L)) == 1 and len(L) >= w and any(len(L[r::w]) >= 2 for r in range(w)) and w >= 2 \
            and outcome.kinds == ['value-error'] and raised_in(outcome, 'assemble_striped_ragged_array'):
        return 'assemble-ragged-all-equal-lengths'
    return None


JIT_MODES = {}
PRIVATE_REPORTED = {}


def _is_abort(e):
    return isinstance(e, RuntimeError) and 'mpi stub aborted' in str(e)


def run_ranks(w, fn, jit_seed=None, timeout=20.0):
    """fn(rank) on w thread-simulated ranks.  A rank that raises aborts the waiters; ranks left
    waiting in a collective for `timeout` seconds are aborted too (reported as deadlock)."""
    from mpi4py import MPI
    W = MPI.WORLD
    jitter = None
    if jit_seed is not None and w > 1:
        gens = [np.random.default_rng([int(jit_seed), r]) for r in range(w)]
        mode = {6: 2, 7: 3}.get(int(jit_seed) % 8, 0)   # arrival orders: random, 2 highest rank first, 3 one straggler
        JIT_MODES[mode] = JIT_MODES.get(mode, 0) + 1
        straggler = (int(jit_seed) // 8) % w

        def jitter(r):
            if mode == 2:
                time.sleep((w - 1 - r) * 2e-5)
            elif mode == 3:
                if r == straggler:
                    time.sleep(1.5e-4)
            else:
                g = gens[r]
                u = g.random()
                if u < 0.35:
                    time.sleep(u * 6e-4)
    W.size = w
    W.slots = {}
    W.jitter = jitter
    W.aborted = False
    results, errors = [None] * w, [None] * w

    def worker(r):
        MPI._tls.rank = r
        try:
            results[r] = fn(r)
        except BaseException as e:  # noqa
            errors[r] = e
            with W.cv:
                W.aborted = True
                W.cv.notify_all()

    threads = [threading.Thread(target=worker, args=(r,), daemon=True) for r in range(w)]
    for t in threads:
        t.start()
    deadline = time.time() + timeout
    hung = False
    for t in threads:
        t.join(max(0.0, deadline - time.time()))
    if any(t.is_alive() for t in threads):
        hung = True
        with W.cv:
            W.aborted = True
            W.cv.notify_all()
        for t in threads:
            t.join(5.0)
    W.size = 1
    W.jitter = None
    W.slots = {}
    W.aborted = False
    MPI._tls.rank = 0
    return Outcome(results, errors, hung)


# ----------------------------------------------------------------------------- helpers

def table(n, dseed):
    """tie-free symmetric integer table, zero diagonal, all off-diagonal values distinct"""
    g = np.random.default_rng([int(dseed), int(n)])
    D = np.zeros((n, n))
    iu = np.triu_indices(n, 1)
    D[iu] = g.permutation(n * (n - 1) // 2) + 1
    return D + D.T


def case_table(case, n):
    """the case's table: tie-free integers, optionally shifted by `offset` (near-ties: values differ by a
    relative 1/offset) and scaled by 2**scale_exp (exact in float64)"""
    D = table(n, case['dseed'])
    off, se = case.get('offset', 0), case.get('scale_exp', 0)
    if off or se:
        D = np.where(D > 0, (D + off) * 2.0 ** se, 0.0)
    return D


def case_cutoff(case):
    c = case.get('cutoff', 0)
    if not c:
        return 0
    return (c + case.get('offset', 0)) * 2.0 ** case.get('scale_exp', 0)


def lens_container(L, form):
    if form == 'list':
        return list(L)
    if form == 'tuple':
        return tuple(L)
    if form == 'int32':
        return np.array(L, dtype=np.int32)
    return np.array(L, dtype=int)


def make_metric(D):
    def metric(X, y):
        return D[np.asarray(X)[:, 0].astype(int), int(np.asarray(y).ravel()[0])]
    return metric


def offsets(L):
    return np.concatenate([[0], np.cumsum(L)]).astype(int)


def local_ids(w, L, r):
    """global frame ids owned by rank r (plain python: the serial definition of the layout)"""
    off = offsets(L)
    out = []
    for t in range(r, len(L), w):
        out.extend(range(off[t], off[t + 1]))
    return out


def stripe_local(w, L, r, arr):
    ids = local_ids(w, L, r)
    return np.asarray(arr)[ids] if len(ids) else np.asarray(arr)[:0]


def to_int_list(a):
    return [int(x) for x in a]


def rat(x):
    f = Fraction(float(x))
    return [f.numerator, f.denominator]


def dist_json(x):
    x = float(x)
    return None if np.isinf(x) else rat(x)


def from_dist(j):
    return float('inf') if j is None else j[0] / j[1]


def quiet():
    import logging
    logging.disable(logging.CRITICAL)


def model_matches(resp, outcome, value=None):
    """ok <-> ok (value compared by the caller), error kind must be among the observed kinds"""
    if 'ok' in resp:
        return outcome.ok
    if outcome.ok or outcome.deadlock:
        return False
    return resp.get('error') in outcome.kinds


# ----------------------------------------------------------------------------- k-centers

def gen_lengths(rng, w, extra_max=6, lmax=6, mode=None):
    mode = mode or rng.choice(['random', 'one-each', 'equal-on-rank', 'ones'], p=[.55, .2, .15, .1])
    if mode == 'one-each':
        T = w
    else:
        T = w + int(rng.integers(0, extra_max + 1))
    if mode == 'ones':
        L = [1] * T
    elif mode == 'equal-on-rank':
        per = [int(rng.integers(1, lmax + 1)) for _ in range(w)]
        L = [per[t % w] for t in range(T)]
    else:
        L = [int(rng.integers(1, lmax + 1)) for _ in range(T)]
    return L, str(mode)


def gen_kcenters(rng, w=None):
    w = int(rng.integers(1, 9)) if w is None else w
    L, mode = gen_lengths(rng, w)
    N = sum(L)
    dseed = int(rng.integers(0, 2 ** 31))
    u = rng.random()
    if u < 0.6:
        k, cutoff = int(rng.integers(1, min(N, 9) + 1)), 0
    elif u < 0.7:
        k, cutoff = N + int(rng.integers(0, 2)), 0          # every frame becomes a center
    elif u < 0.85:
        k, cutoff = None, int(rng.integers(1, max(2, N * (N - 1) // 2)))   # radius mode
    else:
        k, cutoff = int(rng.integers(1, min(N, 9) + 1)), int(rng.integers(1, max(2, N * (N - 1) // 4)))
    api = 'func' if rng.random() < 0.75 else 'class'
    case = {'kind': 'kcenters', 'w': w, 'L': L, 'dseed': dseed, 'k': k, 'cutoff': cutoff,
            'api': api, 'jit': int(rng.integers(0, 2 ** 31)), 'mode': mode}
    if rng.random() < 0.4:                       # dtype / container / scale / near-tie / keyword variety
        v = rng.random()
        if v < 0.25:
            case['xdtype'] = str(rng.choice(['float32', 'int64', 'int32']))
        elif v < 0.45:
            case['lens'] = str(rng.choice(['list', 'int32', 'tuple']))
        elif v < 0.65:
            case['scale_exp'] = int(rng.choice([-30, 30]))
        elif v < 0.85:
            case['offset'] = int(rng.choice([1 << 20, 1 << 30]))
        else:
            case['tri'] = True
            case['api'] = 'func'
    return case


def real_kcenters_serial(N, metric, k, cutoff, xdtype='float64', tri=False):
    from enspara.cluster import kcenters
    X = np.arange(N, dtype=xdtype).reshape(-1, 1)
    return kcenters.kcenters(X, metric, n_clusters=(np.inf if k is None else k), dist_cutoff=cutoff,
                             use_triangle_inequality=tri)


def prep_kcenters(ctx, case):
    quiet()
    from enspara.cluster import kcenters
    from enspara import mpi
    w, L, k = case['w'], case['L'], case['k']
    cutoff = case_cutoff(case)
    N = sum(L)
    D = case_table(case, N)
    metric = make_metric(D)
    xdtype, tri = case.get('xdtype', 'float64'), bool(case.get('tri', False))
    X = np.arange(N, dtype=xdtype).reshape(-1, 1)
    Larr = lens_container(L, case.get('lens', 'ndarray'))
    ser = None
    if N > 0:
        ser = real_kcenters_serial(N, metric, k, cutoff, xdtype, tri)

    def fn(r):
        loc = X[local_ids(w, L, r)].copy()
        if case.get('api') == 'class':
            c = kcenters.KCenters(metric, n_clusters=k, cluster_radius=(cutoff if cutoff else None),
                                  mpi_mode=(True if w == 1 else None))
            res = c.fit(loc).result_
        else:
            res = kcenters.kcenters(loc, metric, n_clusters=(np.inf if k is None else k),
                                    dist_cutoff=cutoff, mpi_mode=True, use_triangle_inequality=tri)
        raw = {'ctrs': [[int(a), int(b)] for a, b in res.center_indices],
               'dist': [float(x) for x in res.distances], 'assign': to_int_list(res.assignments),
               'centers': [float(np.asarray(c).ravel()[0]) for c in res.centers]}
        d = mpi.ops.assemble_striped_ragged_array(res.distances, Larr)
        a = mpi.ops.assemble_striped_ragged_array(res.assignments, Larr)
        c = mpi.ops.convert_local_indices(res.center_indices, Larr)
        return raw, to_int_list(c), to_int_list(a), [float(x) for x in d], str(a.dtype)

    out = run_ranks(w, fn, jit_seed=case['jit'])
    Dj = [[dist_json(x) for x in row] for row in D]
    reqs = [{'op': 'C14.kcenters_serial', 'n': N, 'D': Dj, 'k': k, 'cutoff': rat(cutoff)},
            {'op': 'C14.kcenters_mpi', 'n': N, 'D': Dj, 'k': k, 'cutoff': rat(cutoff),
             'X': [local_ids(w, L, r) for r in range(w)]},
            {'op': 'C14.local_frames', 'w': w, 'L': L}]

    def finish(resps):
        ms, mm, lf = resps
        empty_rank = len(L) < w
        tags = ['kcenters', 'w=%d' % w, 'lengths:' + case.get('mode', '?'),
                'radius-mode' if k is None else ('k>=N' if k >= N else 'k<N'),
                'api:' + case.get('api', 'func')]
        if len(L) == w:
            tags.append('world=number-of-trajectories')
        if len(L) == w + 1:
            tags.append('world=number-of-trajectories-1')
        for key in ('xdtype', 'lens', 'scale_exp', 'offset'):
            if case.get(key):
                tags.append('kcenters-%s:%s' % (key, case[key]))
        if tri:
            tags.append('kcenters-triangle-shortcut')
        if any(len(local_ids(w, L, r)) == L[r] for r in range(min(w, len(L)))) and not empty_rank:
            tags.append('rank-with-one-trajectory')
        ctx.case(case, nontrivial=(w >= 2 and out.ok), tags=tags)
        if lf.get('ok') != [local_ids(w, L, r) for r in range(w)]:
            ctx.disagreement('Model.Mpi.localFrames vs round-robin layout', case)
            return
        if empty_rank:
            ctx.tag('empty-rank-rejected')
            if out.ok:
                ctx.disagreement('kcenters(mpi_mode=True) accepted a rank without data', case)
            elif out.deadlock:
                ctx.violation('kcenters(mpi_mode=True) with an empty rank left ranks waiting (deadlock)', case)
            elif not model_matches(mm, out):
                ctx.disagreement('model vs kcenters(mpi_mode=True) on an empty rank: %s vs %s'
                                 % (mm, out.describe()), case)
            return
        if not out.ok:
            ctx.violation('kcenters(mpi_mode=True) + reassembly failed on %d ranks: %s'
                          % (w, out.describe()), case, key=equal_rows_key(w, L, out))
            return
        # --- the property: reassembled distributed result == serial result on every rank
        sc = to_int_list(ser.center_indices)
        sa = to_int_list(ser.assignments)
        sd = [float(x) for x in ser.distances]
        for r, (raw, c, a, d, dt) in enumerate(out.results):
            if c != sc:
                ctx.violation('rank %d: distributed k-centers centers (global) %s != serial %s' % (r, c, sc), case)
                return
            if a != sa:
                ctx.violation('rank %d: reassembled labels differ from the serial labels' % r, case)
                return
            if d != sd:
                ctx.violation('rank %d: reassembled distances differ from the serial distances' % r, case)
                return
            if raw['centers'] != [float(g) for g in sc]:
                ctx.violation('rank %d: center frames differ from the frames at the serial center indices' % r, case)
                return
        owners = [p[0] for p in out.results[0][0]['ctrs']]
        if any(a != b for a, b in zip(owners, owners[1:])):
            ctx.tag('farthest-point-changes-owner')
        ctx.tag('centers=%d' % min(len(sc), 9))
        if tri:
            ctx.tag('model-skipped-triangle-shortcut')   # the shortcut is not modelled (the table is not a metric)
            return
        # --- correspondence with the model
        if 'ok' not in ms or ms['ok']['ctrs'] != sc or ms['ok']['assign'] != sa or \
                [from_dist(x) for x in ms['ok']['dist']] != sd:
            ctx.disagreement('Model.Mpi.serialKcenters vs kcenters (serial)', case)
            return
        if 'ok' not in mm:
            ctx.disagreement('Model.Mpi.mpiKcenters errs (%s) where the code succeeds' % mm, case)
            return
        for r, (raw, c, a, d, dt) in enumerate(out.results):
            if raw['ctrs'] != mm['ok']['ctrs'] or raw['assign'] != mm['ok']['assign'][r] or \
                    raw['dist'] != [from_dist(x) for x in mm['ok']['dist'][r]]:
                ctx.disagreement('Model.Mpi.mpiKcenters vs kcenters(mpi_mode=True) on rank %d' % r, case)
                return
    return reqs, finish


# ----------------------------------------------------------------------------- hybrid / k-medoids

def consistent(ctx, case, D, c, a, d, k, what):
    """Consistent(result): k distinct centers inside the data, every frame labelled with its nearest
    center at exactly that distance, every center labelled with itself at distance 0."""
    N = D.shape[0]
    if len(c) != k:
        ctx.violation('%s: %d centers, expected %d' % (what, len(c), k), case)
        return False
    if any(g < 0 or g >= N for g in c):
        ctx.violation('%s: a center index is outside the data' % what, case)
        return False
    if len(set(c)) != len(c):
        ctx.violation('%s: duplicate centers %s' % (what, c), case)
        return False
    if len(a) != N or len(d) != N:
        ctx.violation('%s: reassembled arrays have the wrong length' % what, case)
        return False
    for g in range(N):
        if not (0 <= a[g] < k):
            ctx.violation('%s: label %s of frame %d is not a center number' % (what, a[g], g), case)
            return False
        if d[g] != D[g, c[a[g]]]:
            ctx.violation('%s: distance of frame %d is not its distance to its center' % (what, g), case)
            return False
        if d[g] != min(D[g, cc] for cc in c):
            ctx.violation('%s: frame %d is not assigned to its nearest center' % (what, g), case)
            return False
    for j, g in enumerate(c):
        if a[g] != j or d[g] != 0:
            ctx.violation('%s: center %d is not labelled with itself at distance 0' % (what, j), case)
            return False
    return True


def gen_hybrid(rng):
    w = int(rng.integers(1, 9))
    L, mode = gen_lengths(rng, w, extra_max=4, lmax=5)
    N = sum(L)
    return {'kind': 'hybrid', 'w': w, 'L': L, 'dseed': int(rng.integers(0, 2 ** 31)),
            'k': int(rng.integers(1, min(N, 6) + 1)), 'iters': int(rng.integers(1, 4)),
            'rseed': int(rng.integers(0, 2 ** 31)), 'jit': int(rng.integers(0, 2 ** 31)),
            'rs': 'object' if rng.random() < 0.7 else 'int', 'mode': mode,
            'api': 'func' if rng.random() < 0.8 else 'class',
            'scale_exp': int(rng.choice([0, 0, 0, -30, 30])), 'offset': int(rng.choice([0, 0, 0, 1 << 20]))}


def prep_hybrid(ctx, case):
    quiet()
    from enspara.cluster import hybrid
    from enspara import mpi
    w, L, k = case['w'], case['L'], case['k']
    N = sum(L)
    D = case_table(case, N)
    metric = make_metric(D)
    X = np.arange(N, dtype=float).reshape(-1, 1)
    Larr = np.array(L, dtype=int)
    runs = []
    for it in range(case['iters'] + 1):
        def fn(r, it=it):
            loc = X[local_ids(w, L, r)].copy()
            # rank 0's generator decides, the others receive: different seeds per rank
            rseed = (case['rseed'] + 7919 * r) % (2 ** 31)
            rs = np.random.RandomState(rseed) if case['rs'] == 'object' else rseed
            if case.get('api') == 'class':
                res = hybrid.KHybrid(metric, n_clusters=k, kmedoids_updates=it, random_state=rs,
                                     mpi_mode=(True if w == 1 else None)).fit(loc).result_
            else:
                res = hybrid.hybrid(loc, metric, n_iters=it, n_clusters=k, mpi_mode=True, random_state=rs)
            d = mpi.ops.assemble_striped_ragged_array(res.distances, Larr)
            a = mpi.ops.assemble_striped_ragged_array(res.assignments, Larr)
            c = mpi.ops.convert_local_indices(res.center_indices, Larr)
            ctr_frames = [float(np.asarray(f).ravel()[0]) for f in res.centers]
            loc_ok = all(0 <= int(i) < len(loc) for rr, i in res.center_indices if int(rr) == r)
            return to_int_list(c), to_int_list(a), [float(x) for x in d], ctr_frames, loc_ok
        runs.append(run_ranks(w, fn, jit_seed=case['jit'] + it))

    def finish(resps):
        ctx.case(case, nontrivial=(w >= 2 and all(o.ok for o in runs)),
                 tags=['hybrid', 'w=%d' % w, 'pam-sweeps=%d' % case['iters'], 'rs:' + case['rs']] +
                      ['hybrid-%s:%s' % (key, case[key]) for key in ('scale_exp', 'offset') if case.get(key)])
        costs = []
        for it, out in enumerate(runs):
            what = 'hybrid(mpi_mode=True, n_iters=%d) on %d ranks' % (it, w)
            if not out.ok:
                ctx.violation('%s failed: %s' % (what, out.describe()), case, key=equal_rows_key(w, L, out))
                return
            c, a, d, fr, loc_ok = out.results[0]
            for r, res in enumerate(out.results):
                if res[:3] != (c, a, d):
                    ctx.violation('%s: rank %d reassembles a different result than rank 0' % (what, r), case)
                    return
                if res[3] != [float(g) for g in c] or not res[4]:
                    ctx.violation('%s: rank %d holds center frames that are not the data at the center indices'
                                  % (what, r), case)
                    return
            if not consistent(ctx, case, D, c, a, d, k, what):
                return
            costs.append(float(np.mean(np.square(d))))
        for i in range(1, len(costs)):
            if costs[i] > costs[i - 1]:
                ctx.violation('distributed k-medoids increased the cost: %r -> %r (sweep %d)'
                              % (costs[i - 1], costs[i], i), case)
                return
        if len(costs) > 1 and costs[-1] < costs[0]:
            ctx.tag('pam-improved-cost')
        # n_iters = 0 is plain distributed k-centers: must equal the serial run
        ser = real_kcenters_serial(N, metric, k, 0)
        c, a, d = runs[0].results[0][:3]
        if c != to_int_list(ser.center_indices) or a != to_int_list(ser.assignments) \
                or d != [float(x) for x in ser.distances]:
            ctx.violation('hybrid(mpi_mode=True, n_iters=0) differs from serial k-centers', case)
    return [], finish


def gen_pam(rng):
    w = int(rng.integers(2, 9))
    L, mode = gen_lengths(rng, w, extra_max=4, lmax=5)
    N = sum(L)
    k = int(rng.integers(1, min(N, 6) + 1))
    return {'kind': 'pam', 'w': w, 'L': L, 'dseed': int(rng.integers(0, 2 ** 31)), 'k': k,
            'iters': int(rng.integers(1, 3)), 'pseed': int(rng.integers(0, 2 ** 31)),
            'form': 'pairs' if rng.random() < 0.7 else 'flat',
            'props': 'member' if rng.random() < 0.75 else 'any',
            'jit': int(rng.integers(0, 2 ** 31)), 'mode': mode}


def global_to_local(w, L, g):
    """(rank, local index) of global frame g -- plain python"""
    for r in range(w):
        ids = local_ids(w, L, r)
        if g in ids:
            return (r, ids.index(g))
    raise ValueError(g)


def prep_pam(ctx, case):
    """distributed PAM with explicit proposals == serial PAM with the same proposals"""
    quiet()
    from enspara.cluster import kmedoids
    from enspara import mpi
    w, L, k = case['w'], case['L'], case['k']
    N = sum(L)
    D = table(N, case['dseed'])
    metric = make_metric(D)
    X = np.arange(N, dtype=float).reshape(-1, 1)
    Larr = np.array(L, dtype=int)
    start = real_kcenters_serial(N, metric, k, 0)
    c0, a0, d0 = to_int_list(start.center_indices), np.array(start.assignments), np.array(start.distances)
    g = np.random.default_rng(case['pseed'])
    props = []
    for j in range(k):
        pool = np.where(a0 == j)[0] if case['props'] == 'member' else np.arange(N)
        props.append(int(g.choice(pool)))
    ser = kmedoids.kmedoids(X, metric, n_iters=case['iters'], assignments=a0.copy(), distances=d0.copy(),
                            cluster_center_inds=list(c0), proposals=list(props))
    off = offsets(L)
    traj_of = lambda gl: int(np.searchsorted(off, gl, side='right') - 1)
    pairs = [(traj_of(gl), int(gl - off[traj_of(gl)])) for gl in c0]

    def fn(r):
        ids = local_ids(w, L, r)
        cci = [list(p) for p in pairs] if case['form'] == 'pairs' else list(c0)
        res = kmedoids.kmedoids(X[ids].copy(), metric, n_iters=case['iters'], assignments=a0[ids].copy(),
                                distances=d0[ids].copy(), cluster_center_inds=cci, X_lengths=list(L),
                                proposals=[global_to_local(w, L, p) for p in props])
        d = mpi.ops.assemble_striped_ragged_array(res.distances, Larr)
        a = mpi.ops.assemble_striped_ragged_array(res.assignments, Larr)
        c = mpi.ops.convert_local_indices(res.center_indices, Larr)
        return to_int_list(c), to_int_list(a), [float(x) for x in d]
    out = run_ranks(w, fn, jit_seed=case['jit'])

    def finish(resps):
        ctx.case(case, nontrivial=out.ok, tags=['pam-with-proposals', 'w=%d' % w, 'center-form:' + case['form'],
                                                'proposals:' + case['props']])
        if not out.ok:
            ctx.violation('kmedoids under MPI (warm start, proposals) failed: %s' % out.describe(), case,
                          key=equal_rows_key(w, L, out))
            return
        exp = (to_int_list(ser.center_indices), to_int_list(ser.assignments), [float(x) for x in ser.distances])
        for r, res in enumerate(out.results):
            if res != exp:
                ctx.violation('rank %d: distributed PAM with given proposals differs from serial PAM with the '
                              'same proposals' % r, case)
                return
        if exp[0] != c0:
            ctx.tag('pam-accepted-a-proposal')
    return [], finish


# ----------------------------------------------------------------------------- distributed PAM vs Model/MpiPam

def gen_pam_model(rng):
    """distributed PAM compared exactly with Model/MpiPam.lean (per-rank labels, distances, medoid pairs,
    broadcast medoid frames, accept flags, costs) and with the serial sweep on the concatenated data"""
    w = int(rng.integers(1, 9))
    L, mode = gen_lengths(rng, w, extra_max=4, lmax=5)
    N = sum(L)
    k = int(rng.integers(1, min(N, 6) + 1))
    u = rng.random()
    props = 'member' if u < 0.45 else ('any' if u < 0.7 else ('random' if u < 0.88 else
                                       str(rng.choice(['bad-owner', 'bad-index', 'bad-length']))))
    return {'kind': 'pam-model', 'w': w, 'L': L, 'dseed': int(rng.integers(0, 2 ** 31)), 'k': k,
            'iters': int(rng.integers(1, 3)), 'pseed': int(rng.integers(0, 2 ** 31)),
            'form': 'pairs' if rng.random() < 0.6 else 'flat',
            'start': 'kcenters' if rng.random() < 0.7 else 'arbitrary',
            'props': props, 'jit': int(rng.integers(0, 2 ** 31)), 'mode': mode}


class PrivateAPIChanged(Exception):
    """a private helper the harness drives no longer has the parameters it is called with"""


def private_params(fn, names):
    """check (inspect.signature) that the private helper takes every name as a keyword"""
    import inspect
    try:
        params = inspect.signature(fn).parameters
    except (TypeError, ValueError) as e:
        raise PrivateAPIChanged('%s has no inspectable signature: %s' % (getattr(fn, '__name__', fn), e))
    if any(p.kind == p.VAR_KEYWORD for p in params.values()):
        return
    miss = [n for n in names if n not in params or params[n].kind == params[n].POSITIONAL_ONLY]
    if miss:
        raise PrivateAPIChanged('%s no longer takes %s (signature %s)'
                                % (fn.__name__, miss, list(params)))


PAM_PARAMS = ('X', 'metric', 'medoid_inds', 'assignments', 'distances', 'proposals', 'cost', 'random_state')


def _recording_random_state(seed):
    class Rec(np.random.RandomState):
        """records every randint draw (rank 0's draws are the model's oracle)"""
        def randint(self, *a, **kw):
            v = super().randint(*a, **kw)
            self.draws.append(int(v))
            return v
    rs = Rec(seed)
    rs.draws = []
    return rs


def prep_pam_model(ctx, case):
    quiet()
    from enspara.cluster import kmedoids
    from enspara import mpi
    w, L, k, iters = case['w'], case['L'], case['k'], case['iters']
    N = sum(L)
    D = table(N, case['dseed'])
    metric = make_metric(D)
    X = np.arange(N, dtype=float).reshape(-1, 1)
    Larr = np.array(L, dtype=int)
    g = np.random.default_rng(case['pseed'])
    if case['start'] == 'kcenters':
        start = real_kcenters_serial(N, metric, k, 0)
        c0 = to_int_list(start.center_indices)
        a0, d0 = np.array(start.assignments), np.array(start.distances)
    else:
        # any labels / distances (the refinement needs no consistency); centers at distance 0 so that the
        # warm-start assert of kmedoids() passes
        c0 = to_int_list(g.choice(N, size=k, replace=False))
        a0 = g.integers(0, k, size=N)
        d0 = g.integers(0, max(2, N * (N - 1) // 2), size=N).astype(float)
        d0[c0] = 0.0
    k = len(c0)
    ids = [local_ids(w, L, r) for r in range(w)]
    off = offsets(L)
    traj_of = lambda gl: int(np.searchsorted(off, gl, side='right') - 1)
    tf_pairs = [[traj_of(gl), int(gl - off[traj_of(gl)])] for gl in c0]
    ctrs0 = [list(global_to_local(w, L, gl)) for gl in c0]
    pm = case['props']
    gprops, lprops = None, None
    if pm != 'random':
        gprops = []
        for j in range(k):
            pool = np.where(a0 == j)[0] if pm == 'member' and np.any(a0 == j) else np.arange(N)
            gprops.append(int(g.choice(pool)))
        lprops = [list(global_to_local(w, L, p)) for p in gprops]
        j = int(g.integers(0, k))
        if pm == 'bad-owner':
            lprops[j] = [w + int(g.integers(0, 2)), 0]
        elif pm == 'bad-index':
            lprops[j] = [lprops[j][0], len(ids[lprops[j][0]]) + int(g.integers(0, 2))]
        elif pm == 'bad-length':
            lprops = lprops + [lprops[0]] if g.random() < 0.5 or k == 1 else lprops[:-1]
    valid = pm in ('member', 'any', 'random')
    drawlog = {}
    try:
        pam_update = getattr(kmedoids, '_kmedoids_pam_update', None)
        if pam_update is None:
            raise PrivateAPIChanged('enspara.cluster.kmedoids._kmedoids_pam_update does not exist')
        private_params(pam_update, PAM_PARAMS)
    except PrivateAPIChanged as e:
        msg = str(e)

        def gone(resps):
            ctx.case(case, nontrivial=False, tags=['pam-model', 'private-helper-changed'])
            if not PRIVATE_REPORTED.get('pam'):
                PRIVATE_REPORTED['pam'] = True
                ctx.disagreement('the private PAM sweep cannot be driven any more: %s' % msg, case)
        return [], gone

    def fn(r):
        loc = X[ids[r]].copy()
        cci = [list(p) for p in tf_pairs] if case['form'] == 'pairs' else list(c0)
        # the conversion kmedoids() itself applies to the warm-start centers
        inds = [(int(a), int(b)) for a, b in kmedoids.ctr_ids_mpi(cci, list(L))]
        a, d = a0[ids[r]].copy(), d0[ids[r]].copy()
        # rank 0's generator decides the proposals, the other ranks receive them: different seeds per rank
        rs = _recording_random_state((case['pseed'] + 7919 * r) % (2 ** 31)) if pm == 'random' else None
        if rs is not None:
            drawlog[r] = rs.draws          # kept even when the call raises (an empty cluster has no member)
        sweeps, costs = [], []

        def cost(x):
            # `_msq` = the striped mean of the squares (public op); the recorded values are used for model
            # correspondence only -- how often and in which order the sweep evaluates the cost is its own business
            c = mpi.ops.striped_array_mean(np.square(x))
            costs.append(float(c))
            return c
        for it in range(iters):
            inds, d, a, coords = pam_update(
                X=loc, metric=metric, medoid_inds=inds, assignments=a, distances=d,
                proposals=(None if lprops is None else [tuple(p) for p in lprops]),
                cost=cost, random_state=rs)
            sweeps.append({'ctrs': [[int(x), int(y)] for x, y in inds], 'dist': [float(x) for x in d],
                           'assign': to_int_list(a), 'adtype': str(np.asarray(a).dtype),
                           'coords': [float(np.asarray(c).ravel()[0]) for c in coords]})
        # one more sweep with the library's DEFAULT cost (keyword left out): `_msq` itself is exercised
        if rs is not None:
            drawlog[r] = list(rs.draws)      # the model's oracle: rank 0's draws of the sweeps above only
        try:
            xi, xd, xa, xc = pam_update(X=loc, metric=metric, medoid_inds=inds, assignments=a, distances=d,
                                        proposals=(None if lprops is None else [tuple(p) for p in lprops]),
                                        random_state=rs)
            extra = {'ctrs': [[int(x), int(y)] for x, y in xi], 'dist': [float(x) for x in xd],
                     'assign': to_int_list(xa), 'coords': [float(np.asarray(c).ravel()[0]) for c in xc]}
        except Exception as e:  # noqa
            extra = {'error': KIND.get(type(e).__name__, type(e).__name__)}
        full = None
        if w >= 2 and pm != 'random':
            res = kmedoids.kmedoids(loc.copy(), metric, n_iters=iters, assignments=a0[ids[r]].copy(),
                                    distances=d0[ids[r]].copy(), cluster_center_inds=cci, X_lengths=list(L),
                                    proposals=[tuple(p) for p in lprops])
            full = {'ctrs': [[int(x), int(y)] for x, y in res.center_indices],
                    'dist': [float(x) for x in res.distances], 'assign': to_int_list(res.assignments),
                    'coords': [float(np.asarray(c).ravel()[0]) for c in res.centers],
                    'rd': [float(x) for x in mpi.ops.assemble_striped_ragged_array(res.distances, Larr)],
                    'ra': to_int_list(mpi.ops.assemble_striped_ragged_array(res.assignments, Larr)),
                    'rc': to_int_list(mpi.ops.convert_local_indices(res.center_indices, Larr))}
        return {'sweeps': sweeps, 'costs': costs, 'draws': (drawlog[r] if rs is not None else None), 'full': full,
                'extra': extra}

    out = run_ranks(w, fn, jit_seed=case['jit'])
    base = {'op': 'C14.mpi_pam', 'w': w, 'L': L, 'D': [[int(x) for x in row] for row in D],
            'arrs': [{'dist': [rat(x) for x in d0[ids[r]]], 'assign': to_int_list(a0[ids[r]])} for r in range(w)],
            'iters': iters, 'props': lprops}
    if pm == 'random':
        base['orc'] = list(drawlog.get(0, []))
    reqs = [dict(base, entry='iterations', ctrs=ctrs0),
            dict(base, entry='kmedoids', **({'centers': tf_pairs} if case['form'] == 'pairs' else {'centers_flat': c0}))]

    def finish(resps):
        mi, mk = resps
        tags = ['pam-model', 'w=%d' % w, 'start:' + case['start'], 'proposals:' + pm,
                'center-form:' + case['form'], 'pam-sweeps=%d' % iters]
        ctx.case(case, nontrivial=(out.ok and w >= 2), tags=tags)
        if not valid:
            # error inputs: the call must fail on the real ranks and the model must name an observed kind
            if out.ok:
                ctx.disagreement('_kmedoids_pam_update accepted invalid proposals (%s)' % pm, case)
            elif out.deadlock:
                ctx.violation('_kmedoids_pam_update with invalid proposals left ranks waiting (deadlock)', case)
            elif not model_matches(mi, out):
                ctx.disagreement('Model.MpiPam vs _kmedoids_pam_update on invalid proposals: %s vs %s'
                                 % (mi, out.describe()), case)
            else:
                ctx.tag('pam-model-error:' + mi.get('error', '?'))
            return
        if not out.ok and pm == 'random' and out.kinds == ['data-invalid'] and raised_in(out, 'randind') \
                and case['start'] == 'arbitrary':
            # arbitrary labels: a cluster without members (from the start, or emptied by an accepted step) --
            # randind has nothing to choose from, on every rank; from a consistent start this cannot happen
            if out.deadlock or not model_matches(mi, out):
                ctx.disagreement('Model.MpiPam vs randind on an empty cluster: %s vs %s' % (mi, out.describe()), case)
            else:
                ctx.tag('pam-model-empty-cluster-rejected')
            return
        if not out.ok:
            ctx.violation('distributed _kmedoids_pam_update / kmedoids (warm start) failed on %d ranks: %s'
                          % (w, out.describe()), case, key=equal_rows_key(w, L, out))
            return
        frac = lambda q: Fraction(q[0], q[1])
        R0 = out.results[0]

        # --- (P1) every rank returns the same medoid pairs and medoid frames after every sweep (observable
        # outputs only; which decisions were taken shows in the medoids: step j only ever changes medoid j)
        for r, res in enumerate(out.results):
            if [sw['ctrs'] for sw in res['sweeps']] != [sw['ctrs'] for sw in R0['sweeps']] or \
                    [sw['coords'] for sw in res['sweeps']] != [sw['coords'] for sw in R0['sweeps']]:
                ctx.violation('distributed PAM: rank %d and rank 0 hold different medoids after a sweep' % r, case)
                return

        def reassembled(it):
            ra = np.empty(N, dtype=int)
            rd = np.empty(N)
            for rr in range(w):
                # every rank holds only its slice; the serial definition of the layout puts them back
                ra[ids[rr]] = out.results[rr]['sweeps'][it]['assign']
                rd[ids[rr]] = out.results[rr]['sweeps'][it]['dist']
            return ra, rd

        # --- (P4) the global cost (serial definition, on the reassembled outputs) never increases from sweep to sweep
        hist = [float(np.sum(np.square(d0)) / N)] + \
               [float(np.sum(np.square(reassembled(it)[1])) / N) for it in range(iters)]
        if any(hist[i + 1] > hist[i] for i in range(len(hist) - 1)):
            ctx.violation('distributed PAM raised the global cost of the reassembled state from sweep to sweep: %s'
                          % hist, case)
            return

        # --- (P3) from a consistent start the REASSEMBLED DISTRIBUTED outputs are consistent after every sweep,
        # whatever the proposals were and whatever the serial comparison below says
        if case['start'] == 'kcenters':
            for it in range(iters):
                ra, rd = reassembled(it)
                rc = [ids[p[0]][p[1]] for p in R0['sweeps'][it]['ctrs']]
                if not consistent(ctx, case, D, to_int_list(rc), to_int_list(ra), [float(x) for x in rd], k,
                                  'distributed PAM sweep %d on %d ranks' % (it, w)):
                    return

        # --- the extra sweep with the library's default cost: same medoids on every rank, the recomputed
        # global cost does not rise, consistency is kept
        ex0 = R0['extra']
        if any(('error' in res['extra']) != ('error' in ex0) for res in out.results):
            ctx.violation('distributed PAM with the default cost: some ranks raised, others did not (%s)'
                          % [res['extra'].get('error') for res in out.results], case)
            return
        if 'error' in ex0:
            if not (pm == 'random' and case['start'] == 'arbitrary' and ex0['error'] == 'data-invalid'):
                ctx.violation('distributed PAM with the default cost raised %s'
                              % sorted({res['extra']['error'] for res in out.results}), case)
                return
        else:
            for r, res in enumerate(out.results):
                if res['extra']['ctrs'] != ex0['ctrs'] or res['extra']['coords'] != ex0['coords']:
                    ctx.violation('distributed PAM with the default cost: rank %d and rank 0 hold different medoids '
                                  '(%s vs %s)' % (r, res['extra']['ctrs'], ex0['ctrs']), case)
                    return
            xa, xd = np.empty(N, dtype=int), np.empty(N)
            for rr in range(w):
                xa[ids[rr]] = out.results[rr]['extra']['assign']
                xd[ids[rr]] = out.results[rr]['extra']['dist']
            xcost = float(np.sum(np.square(xd)) / N)
            if xcost > hist[-1]:
                ctx.violation('distributed PAM with the default cost raised the global cost of the reassembled state: '
                              '%r -> %r' % (hist[-1], xcost), case)
                return
            xc = [ids[p[0]][p[1]] for p in ex0['ctrs']]
            if ex0['coords'] != [float(x) for x in xc]:
                ctx.violation('distributed PAM with the default cost: the medoid frames are not the data at the medoid '
                              'pairs', case)
                return
            if case['start'] == 'kcenters' and not consistent(
                    ctx, case, D, to_int_list(xc), to_int_list(xa), [float(x) for x in xd], k,
                    'distributed PAM sweep with the default cost on %d ranks' % w):
                return

        def refines_serial(ys_per_sweep, report):
            """(P2) the serial sweeps on the concatenated data, handed the global frames of the proposals the
            ranks used, give the reassembled distributed state after every sweep; (P3) Consistent from a
            consistent start.  `report` is ctx.violation when the proposals are the ones the harness passed in,
            ctx.disagreement when they are known through the model and recorded RNG draws only."""
            a, d, c = a0.copy(), d0.copy(), list(c0)
            for it in range(iters):
                try:
                    c, d, a, _ = pam_update(X=X, metric=metric, medoid_inds=list(c), assignments=a, distances=d,
                                            proposals=list(ys_per_sweep[it]),
                                            cost=lambda x: float(np.sum(np.square(x)) / len(x)),
                                            random_state=None)
                except Exception as e:  # noqa
                    ctx.disagreement('the serial PAM sweep (private helper, same proposals) raised %s: %s'
                                     % (type(e).__name__, str(e)[:160]), case)
                    return False
                ra, rd = reassembled(it)
                rc = [ids[p[0]][p[1]] for p in R0['sweeps'][it]['ctrs']]
                if rc != to_int_list(c) or to_int_list(ra) != to_int_list(a) or \
                        [float(x) for x in rd] != [float(x) for x in d]:
                    report('sweep %d: the distributed PAM sweep differs from the serial sweep with the same '
                           'proposals on the concatenated data' % it, case)
                    return False
                if R0['sweeps'][it]['coords'] != [float(x) for x in rc]:
                    ctx.violation('sweep %d: the broadcast medoid frames are not the data at the medoid pairs' % it, case)
                    return False
            if R0['full'] is not None:
                for r, res in enumerate(out.results):
                    f = res['full']
                    if f['rc'] != to_int_list(c) or f['ra'] != to_int_list(a) or f['rd'] != [float(x) for x in d]:
                        report('rank %d: kmedoids() under MPI (warm start, proposals) + reassembly differs from '
                               'the serial sweeps' % r, case)
                        return False
            return True

        if gprops is not None and not refines_serial([gprops] * iters, ctx.violation):
            return
        # --- exact per-rank correspondence with the model, sweep by sweep
        if 'ok' not in mi:
            ctx.disagreement('Model.MpiPam.mpiKmedoidsIterations errs (%s) where the code succeeds' % mi, case)
            return
        m = mi['ok']
        steps = m['trace']
        if len(m['sweeps']) != iters or len(steps) != iters * k:
            ctx.disagreement('Model.MpiPam: wrong number of sweeps / steps', case)
            return
        for r, res in enumerate(out.results):
            for it, (real, mod) in enumerate(zip(res['sweeps'], m['sweeps'])):
                what = 'rank %d sweep %d' % (r, it)
                if real['ctrs'] != mod['ctrs']:
                    ctx.disagreement('Model.MpiPam vs _kmedoids_pam_update, %s: medoid pairs %s vs %s'
                                     % (what, mod['ctrs'], real['ctrs']), case)
                    return
                if real['coords'] != [float(c) for c in mod['coords']]:
                    ctx.disagreement('Model.MpiPam vs _kmedoids_pam_update, %s: medoid frames' % what, case)
                    return
                if real['assign'] != mod['assign'][r]:
                    ctx.disagreement('Model.MpiPam vs _kmedoids_pam_update, %s: local labels' % what, case)
                    return
                if [Fraction(x) for x in real['dist']] != [frac(q) for q in mod['dist'][r]]:
                    ctx.disagreement('Model.MpiPam vs _kmedoids_pam_update, %s: local distances' % what, case)
                    return
            # accept flags from the OBSERVABLE medoids: step j of a sweep only ever replaces medoid j, by its
            # proposal; so a changed medoid j means "accepted", and "rejected" means it is unchanged
            prev = ctrs0
            for it in range(iters):
                now = res['sweeps'][it]['ctrs']
                for j in range(k):
                    st = steps[it * k + j]
                    changed = list(now[j]) != list(prev[j])
                    if changed and not st['acc'] or (st['acc'] and not changed and list(st['p']) != list(prev[j])):
                        ctx.disagreement('Model.MpiPam vs _kmedoids_pam_update, rank %d sweep %d center %d: model '
                                         'accept flag %s, medoid %s -> %s' % (r, it, j, st['acc'], prev[j], now[j]), case)
                        return
                prev = now
            # every cost the sweep evaluated through its `cost` hook is one of the model's global costs (how
            # many of them it evaluates, and in which order, is not compared)
            mcosts = [float(frac(st[key])) for st in steps for key in ('old', 'new')]
            for x in res['costs']:
                if not any(abs(x - y) <= 1e-9 * max(1.0, abs(y)) for y in mcosts):
                    ctx.disagreement('Model.MpiPam vs _kmedoids_pam_update, rank %d: the sweep evaluated a global '
                                     'cost %r that is none of the model\'s %s' % (r, x, sorted(set(mcosts))), case)
                    return
        if lprops is not None and [st['p'] for st in steps] != lprops * iters:
            ctx.disagreement('Model.MpiPam: trace proposals differ from the given proposals', case)
            return
        ys = [[st['y'] for st in steps[it * k:(it + 1) * k]] for it in range(iters)]
        if gprops is not None and ys != [gprops] * iters:
            ctx.disagreement('Model.MpiPam: broadcast proposal frames %s differ from the global frames %s of the '
                             'given proposals' % (ys, gprops), case)
            return
        if any(st['acc'] for st in steps):
            ctx.tag('pam-model-accepted')
        if any(not st['acc'] for st in steps):
            ctx.tag('pam-model-rejected')
        if any(st['p'][0] != 0 for st in steps):
            ctx.tag('pam-model-proposal-off-rank-0')
        if pm == 'random':
            ctx.tag('pam-model-randind-draws=%d' % min(len(base['orc']), 12))
            if m['oracle']:
                ctx.disagreement('Model.MpiPam: recorded draws left over (%s)' % m['oracle'], case)
                return
            # the proposals the ranks drew are known through the model only (it agrees with every rank's state)
            if not refines_serial(ys, ctx.disagreement):
                return
        # --- kmedoids() itself (warm start through ctr_ids_mpi) against the model's kmedoids entry
        if R0['full'] is not None:
            if 'ok' not in mk:
                ctx.disagreement('Model.MpiPam.mpiKmedoids errs (%s) where kmedoids() succeeds' % mk, case)
                return
            fin, rea = mk['ok']['final'], mk['ok']['reassembled']
            if 'ok' not in rea:
                ctx.disagreement('Model.MpiPam.reassemble errs (%s) where the library reassembles' % rea, case)
                return
            for r, res in enumerate(out.results):
                f = res['full']
                if f['ctrs'] != fin['ctrs'] or f['assign'] != fin['assign'][r] or \
                        [Fraction(x) for x in f['dist']] != [frac(q) for q in fin['dist'][r]] or \
                        f['coords'] != [float(c) for c in fin['coords']]:
                    ctx.disagreement('Model.MpiPam.mpiKmedoids vs kmedoids() on rank %d' % r, case)
                    return
                if f['rc'] != rea['ok']['ctrs'] or f['ra'] != rea['ok']['assign'] or \
                        [Fraction(x) for x in f['rd']] != [frac(q) for q in rea['ok']['dist']]:
                    ctx.disagreement('Model.MpiPam.reassemble vs assemble_striped_ragged_array / '
                                     'convert_local_indices on rank %d' % r, case)
                    return
    return reqs, finish


def prep_cold(ctx, case):
    """k-medoids from scratch under MPI (no warm start)"""
    quiet()
    from enspara.cluster import kmedoids
    from enspara import mpi
    w, L, k = case['w'], case['L'], case['k']
    N = sum(L)
    D = table(N, case['dseed'])
    metric = make_metric(D)
    X = np.arange(N, dtype=float).reshape(-1, 1)
    Larr = np.array(L, dtype=int)

    def fn(r):
        ids = local_ids(w, L, r)
        res = kmedoids.kmedoids(X[ids].copy(), metric, n_clusters=k, n_iters=1,
                                random_state=case['rseed'])
        d = mpi.ops.assemble_striped_ragged_array(res.distances, Larr)
        a = mpi.ops.assemble_striped_ragged_array(res.assignments, Larr)
        c = mpi.ops.convert_local_indices(res.center_indices, Larr)
        return to_int_list(c), to_int_list(a), [float(x) for x in d]
    out = run_ranks(w, fn, jit_seed=case['jit'])

    def finish(resps):
        ctx.case(case, nontrivial=out.ok, tags=['kmedoids-cold-start', 'w=%d' % w])
        if not out.ok:
            if set(out.kinds) <= {'attribute-error', 'type-error', 'value-error'} and out.kinds:
                ctx.violation('kmedoids(n_clusters=k) from scratch under MPI raises %s '
                              '(_kmedoids_inputs_tree_mpi appends to None / np.arange(X))' % out.kinds,
                              case, key='kmedoids-mpi-cold-start')
            else:
                ctx.violation('kmedoids from scratch under MPI failed: %s' % out.describe(), case)
            return
        c, a, d = out.results[0]
        for r, res in enumerate(out.results):
            if res != (c, a, d):
                ctx.violation('kmedoids from scratch under MPI: rank %d disagrees with rank 0' % r, case)
                return
        consistent(ctx, case, D, c, a, d, k, 'kmedoids from scratch on %d ranks' % w)
    return [], finish


# ----------------------------------------------------------------------------- ops

def prep_assemble_array(ctx, case):
    quiet()
    from enspara import mpi
    parts = [np.array(p, dtype=int) for p in case['parts']]
    w = len(parts)
    out = run_ranks(w, lambda r: to_int_list(mpi.ops.assemble_striped_array(parts[r])), jit_seed=case['jit'])
    reqs = [{'op': 'C14.assemble_array', 'parts': case['parts']}]

    def finish(resps):
        m = resps[0]
        total = sum(len(p) for p in parts)
        packed = all(len(parts[r]) == len(range(r, total, w)) for r in range(w))
        positive = all((p > 0).all() for p in parts)
        ctx.case(case, nontrivial=(w >= 2 and out.ok),
                 tags=['assemble_striped_array', 'w=%d' % w, 'packed' if packed else 'not-packed',
                       'positive' if positive else 'nonpositive-entry'])
        if out.deadlock:
            ctx.violation('assemble_striped_array left ranks waiting (deadlock)', case)
            return
        if packed and (positive or w == 1):
            # serial definition: element i of the global array lives on rank i % w at position i // w
            exp = [int(parts[i % w][i // w]) for i in range(total)]
            if not out.ok:
                ctx.violation('assemble_striped_array failed on a packed positive layout: %s' % out.describe(), case)
                return
            for r, res in enumerate(out.results):
                if res != exp:
                    ctx.violation('assemble_striped_array: rank %d got %s, expected %s' % (r, res, exp), case)
                    return
        if not model_matches(m, out) or ('ok' in m and any(res != m['ok'] for res in out.results)):
            ctx.disagreement('Model.Mpi.assembleStripedArray (%s) vs assemble_striped_array (%s)'
                             % (m, out.describe()), case)
    return reqs, finish


def gen_assemble_array(rng):
    w = int(rng.integers(1, 9))
    n = int(rng.integers(0, 3 * w + 3))
    a = [int(x) for x in rng.integers(1, 50, size=n)]
    parts = [a[r::w] for r in range(w)]
    u = rng.random()
    if u < 0.15 and n:
        r = int(rng.integers(0, w))
        if parts[r]:
            parts[r][int(rng.integers(0, len(parts[r])))] = int(rng.integers(-2, 1))
    elif u < 0.35:
        r = int(rng.integers(0, w))
        if rng.random() < 0.5 and parts[r]:
            parts[r] = parts[r][:-1]
        else:
            parts[r] = parts[r] + [int(rng.integers(1, 50))]
    return {'kind': 'assemble-array', 'parts': parts, 'jit': int(rng.integers(0, 2 ** 31))}


def gen_assemble_ragged(rng):
    w = int(rng.integers(1, 9))
    u = rng.random()
    if u < 0.12:
        T = int(rng.integers(1, w + 1))                     # possibly fewer trajectories than ranks
    else:
        T = w + int(rng.integers(0, 8))
    L = [int(rng.integers(1, 7)) for _ in range(T)]
    if rng.random() < 0.2:
        per = [int(rng.integers(1, 6)) for _ in range(w)]
        L = [per[t % w] for t in range(T)]
    dtype = 'int' if rng.random() < 0.5 else 'float'
    N = sum(L)
    xs = [int(x) for x in rng.integers(0, 100, size=N)]
    if dtype == 'float':
        xs = [x / 4.0 for x in xs]
    bad = None
    if rng.random() < 0.2:
        bad = {'rank': int(rng.integers(0, w)), 'delta': int(rng.choice([-1, 1, 2]))}
    return {'kind': 'assemble-ragged', 'w': w, 'L': L, 'xs': xs, 'dtype': dtype, 'bad': bad,
            'jit': int(rng.integers(0, 2 ** 31))}


def prep_assemble_ragged(ctx, case):
    quiet()
    from enspara import mpi
    w, L, xs = case['w'], case['L'], case['xs']
    dt = int if case['dtype'] == 'int' else float
    arr = np.array(xs, dtype=dt)
    locs = [np.array(stripe_local(w, L, r, arr), dtype=dt) for r in range(w)]
    bad = case.get('bad')
    if bad:
        r = bad['rank']
        if bad['delta'] < 0:
            locs[r] = locs[r][:max(0, len(locs[r]) + bad['delta'])]
        else:
            locs[r] = np.concatenate([locs[r], np.array([7] * bad['delta'], dtype=dt)])
    Larr = np.array(L, dtype=int)

    def fn(r):
        res = mpi.ops.assemble_striped_ragged_array(locs[r], Larr)
        return [float(x) for x in res], str(res.dtype)
    out = run_ranks(w, fn, jit_seed=case['jit'])
    reqs = [{'op': 'C14.assemble_ragged', 'w': w, 'L': L,
             'locals': [[rat(x) for x in l] for l in locs]}]

    def finish(resps):
        m = resps[0]
        T = len(L)
        valid = not bad or all(len(locs[r]) == len(local_ids(w, L, r)) for r in range(w))
        tags = ['assemble_striped_ragged_array', 'w=%d' % w, 'dtype:' + case['dtype'],
                'valid-input' if valid else 'wrong-local-length']
        if T < w:
            tags.append('fewer-trajectories-than-ranks')
        if any(len(set(L[r::w])) == 1 and len(L[r::w]) >= 2 for r in range(w)):
            tags.append('rank-owns-equal-length-trajectories')
        ctx.case(case, nontrivial=(w >= 2 and out.ok), tags=tags)
        if out.deadlock:
            ctx.violation('assemble_striped_ragged_array left ranks waiting (deadlock)', case)
            return
        if valid and T >= w:
            if not out.ok:
                ctx.violation('assemble_striped_ragged_array failed on a valid striped input: %s'
                              % out.describe(), case, key=equal_rows_key(w, L, out))
                return
            for r, (res, dtn) in enumerate(out.results):
                if res != [float(x) for x in xs]:
                    ctx.violation('assemble_striped_ragged_array: rank %d does not get the global array back' % r, case)
                    return
                if np.dtype(dtn) != arr.dtype:
                    ctx.violation('assemble_striped_ragged_array: dtype %s, expected %s' % (dtn, arr.dtype), case)
                    return
        if not valid:
            # wrong local length is outside the property; which exception numpy / RaggedArray raise (or
            # whether a single equal-length row is silently broadcast) depends on the layout: compare
            # coarsely -- both fail with a length error, or both succeed with the same array
            if 'error' in m and not out.ok:
                ok = m['error'] == 'index-error' and 'index-error' in out.kinds or \
                    m['error'] == 'data-invalid' and bool(set(out.kinds) & {'data-invalid', 'value-error'})
            elif 'ok' in m and out.ok:
                ok = all(res == [j[0] / j[1] for j in m['ok']] for res, _ in out.results)
            else:
                ctx.skip('wrong local length: model and numpy detect it differently')
                return
        else:
            ok = model_matches(m, out)
            if ok and 'ok' in m:
                mv = [j[0] / j[1] for j in m['ok']]
                ok = all(res == mv for res, _ in out.results)
        if not ok:
            ctx.disagreement('Model.Mpi.assembleStripedRagged (%s) vs assemble_striped_ragged_array (%s)'
                             % (str(m)[:200], out.describe()), case)
    return reqs, finish


def gen_convert(rng):
    w = int(rng.integers(1, 9))
    T = w + int(rng.integers(0, 7)) if rng.random() < 0.85 else int(rng.integers(1, w + 1))
    L = [int(rng.integers(1, 7)) for _ in range(T)]
    return {'kind': 'convert', 'w': w, 'L': L, 'jit': int(rng.integers(0, 2 ** 31)),
            'extra': [[int(rng.integers(0, w)), int(rng.integers(0, 40))] for _ in range(2)]}


def prep_convert(ctx, case):
    """convert_local_indices on every valid (rank, local) pair, ctr_ids_mpi on every (traj, frame) pair
    and on flat ids, and that the two are inverse to each other"""
    quiet()
    from enspara import mpi
    from enspara.cluster import kmedoids
    w, L = case['w'], case['L']
    T, N = len(L), sum(L)
    Larr = np.array(L, dtype=int)
    valid = [(r, i) for r in range(w) for i in range(len(local_ids(w, L, r)))]
    tf = [(t, f) for t in range(T) for f in range(L[t])]

    def fn(r):
        c = to_int_list(mpi.ops.convert_local_indices(valid, Larr))
        p = [[int(a), int(b)] for a, b in kmedoids.ctr_ids_mpi([list(x) for x in tf], list(L))]
        return c, p
    out = run_ranks(w, fn, jit_seed=case['jit'])
    singles = []
    for p in case['extra']:
        def fn1(r, p=p):
            return to_int_list(mpi.ops.convert_local_indices([tuple(p)], Larr))
        singles.append(run_ranks(w, fn1))

    def fn2(r):
        return [[int(a), int(b)] for a, b in kmedoids.ctr_ids_mpi(list(range(N)), list(L))]
    flat = run_ranks(w, fn2)
    reqs = [{'op': 'C14.convert_local', 'w': w, 'L': L, 'pairs': [list(p) for p in valid]},
            {'op': 'C14.ctr_ids', 'w': w, 'L': L, 'pairs': [list(p) for p in tf]},
            {'op': 'C14.ctr_ids_flat', 'w': w, 'L': L, 'cs': list(range(N))}]
    reqs += [{'op': 'C14.convert_local', 'w': w, 'L': L, 'pairs': [p]} for p in case['extra']]

    def finish(resps):
        mc, mp, mf = resps[:3]
        ctx.case(case, nontrivial=(w >= 2 and out.ok),
                 tags=['convert_local_indices/ctr_ids_mpi', 'w=%d' % w,
                       'ragged-lengths' if len(set(L)) > 1 else 'equal-lengths'] +
                      (['fewer-trajectories-than-ranks'] if T < w else []))
        if not out.ok:
            ctx.violation('convert_local_indices / ctr_ids_mpi failed on valid indices: %s' % out.describe(), case)
            return
        exp_c = [local_ids(w, L, r)[i] for r, i in valid]
        off = offsets(L)
        exp_p = [list(global_to_local(w, L, int(off[t] + f))) for t, f in tf]
        for r, (c, p) in enumerate(out.results):
            if c != exp_c:
                ctx.violation('convert_local_indices: rank %d maps (rank, local) pairs to %s, expected %s'
                              % (r, c, exp_c), case)
                return
            if p != exp_p:
                ctx.violation('ctr_ids_mpi: rank %d maps (traj, frame) pairs to %s, expected %s' % (r, p, exp_p), case)
                return
        if sorted(exp_c) != list(range(N)):
            ctx.disagreement('harness layout oracle is not a bijection', case)
            return
        # inverse: convert_local_indices(ctr_ids_mpi(t, f)) == offset(t) + f
        back = run_ranks(w, lambda r: to_int_list(mpi.ops.convert_local_indices(
            [tuple(x) for x in out.results[0][1]], Larr)))
        if not back.ok or any(res != [int(off[t] + f) for t, f in tf] for res in back.results):
            ctx.violation('convert_local_indices is not the inverse of ctr_ids_mpi', case)
            return
        if mc.get('ok') != exp_c:
            ctx.disagreement('Model.Mpi.convertLocalIndices vs convert_local_indices', case)
        if mp.get('ok') != exp_p:
            ctx.disagreement('Model.Mpi.ctrIdsMpi vs ctr_ids_mpi', case)
        # flat global ids
        exp_f = [list(global_to_local(w, L, g)) for g in range(N)]
        if not flat.ok or any(res != exp_f for res in flat.results):
            ctx.violation('ctr_ids_mpi(flat global ids) does not give the (rank, local) pairs of the frames: %s'
                          % flat.describe(), case)
        elif mf.get('ok') != exp_f:
            ctx.disagreement('Model.Mpi.ctrIdsMpiFlat vs ctr_ids_mpi(flat ids)', case)
        # arbitrary single pairs incl. out-of-range ones
        for p, o, m in zip(case['extra'], singles, resps[3:]):
            r, i = p
            ids = local_ids(w, L, r)
            ctx.tag('convert-single:' + ('valid' if i < len(ids) else 'out-of-range'))
            if i < len(ids) and (not o.ok or any(res != [ids[i]] for res in o.results)):
                ctx.violation('convert_local_indices([(%d, %d)]) wrong: %s' % (r, i, o.describe()), case)
            elif not model_matches(m, o) or ('ok' in m and any(res != m['ok'] for res in o.results)):
                ctx.disagreement('Model.Mpi.convertLocal (%s) vs convert_local_indices (%s) on (%d, %d)'
                                 % (m, o.describe(), r, i), case)
    return reqs, finish


def gen_maxmean(rng):
    w = int(rng.integers(1, 9))
    u = rng.random()
    lo = -20 if u < 0.3 else 0
    locs = []
    for r in range(w):
        n = int(rng.integers(0 if rng.random() < 0.15 else 1, 7))
        locs.append([int(x) / 4.0 for x in rng.integers(lo, 80, size=n)])
    if rng.random() < 0.15 and any(locs):
        r = int(rng.integers(0, w))
        if locs[r]:
            locs[r][0] = float('inf')
    return {'kind': 'maxmean', 'locals': [[None if np.isinf(x) else x for x in l] for l in locs],
            'jit': int(rng.integers(0, 2 ** 31))}


def prep_maxmean(ctx, case):
    quiet()
    from enspara import mpi
    locs = [np.array([np.inf if x is None else x for x in l], dtype=float) for l in case['locals']]
    w = len(locs)
    has_inf = any(np.isinf(l).any() for l in locs)
    import warnings

    def fmax(r):
        return float(mpi.ops.striped_array_max(locs[r]))

    def fmean(r):
        with warnings.catch_warnings():
            warnings.simplefilter('ignore')
            return float(mpi.ops.striped_array_mean(locs[r]))
    omax = run_ranks(w, fmax, jit_seed=case['jit'])
    omean = None if has_inf else run_ranks(w, fmean, jit_seed=case['jit'] + 1)
    reqs = [{'op': 'C14.max', 'locals': [[dist_json(x) for x in l] for l in locs]}]
    if not has_inf:
        reqs.append({'op': 'C14.mean', 'locals': [[rat(x) for x in l] for l in locs]})

    def finish(resps):
        allv = np.concatenate(locs) if w else np.zeros(0)
        some_empty = any(len(l) == 0 for l in locs)
        ctx.case(case, nontrivial=(w >= 2 and omax.ok),
                 tags=['striped_array_max/mean', 'w=%d' % w] + (['a-rank-is-empty'] if some_empty else []) +
                      (['inf-entry'] if has_inf else []))
        # max
        mm = resps[0]
        if omax.deadlock:
            ctx.violation('striped_array_max left ranks waiting (deadlock)', case)
        elif not some_empty:
            if not omax.ok or any(res != float(allv.max()) for res in omax.results):
                ctx.violation('striped_array_max != max of the whole array (%s)' % omax.describe(), case)
                return
        if not model_matches(mm, omax) or ('ok' in mm and any(res != from_dist(mm['ok']) for res in omax.results)):
            ctx.disagreement('Model.Mpi.stripedMax (%s) vs striped_array_max (%s)' % (mm, omax.describe()), case)
        if has_inf:
            return
        # mean
        mn = resps[1]
        if omean.deadlock:
            ctx.violation('striped_array_mean left ranks waiting (deadlock)', case)
            return
        if omean.ok:
            if len(allv) == 0:
                if not all(np.isnan(res) for res in omean.results):
                    ctx.violation('striped_array_mean of an empty array is not nan', case)
                elif mn.get('error') != 'nan':
                    ctx.disagreement('Model.Mpi.stripedMean vs striped_array_mean on an empty array', case)
                return
            exact = Fraction(0)
            for x in allv:
                exact += Fraction(float(x))
            exact /= len(allv)
            for res in omean.results:
                if abs(res - float(exact)) > 1e-12 * max(1.0, abs(float(exact))):
                    ctx.violation('striped_array_mean %r != mean of the whole array %r' % (res, float(exact)), case)
                    return
            if w > 1 and any(l.sum() > allv.sum() for l in locs):
                ctx.tag('mean:a-local-sum-exceeds-the-global-sum')
            if 'ok' not in mn or Fraction(mn['ok'][0], mn['ok'][1]) != exact:
                ctx.disagreement('Model.Mpi.stripedMean (%s) vs exact mean %s' % (mn, exact), case)
        else:
            ctx.violation('striped_array_mean failed: %s' % omean.describe(), case)
    return reqs, finish


def gen_randind(rng):
    w = int(rng.integers(1, 9))
    u = rng.random()
    if u < 0.4:                                   # packed
        n = int(rng.integers(1, 4 * w + 2))
        lens = [len(range(r, n, w)) for r in range(w)]
    elif u < 0.5:
        lens = [0] * w
        if rng.random() < 0.7:
            lens[int(rng.integers(0, w))] = int(rng.integers(1, 4))
    else:
        lens = [int(rng.integers(0, 6)) for _ in range(w)]
    return {'kind': 'randind', 'lens': lens, 'seed': int(rng.integers(0, 2 ** 31)),
            'jit': int(rng.integers(0, 2 ** 31))}


def prep_randind(ctx, case):
    quiet()
    from enspara import mpi
    lens = case['lens']
    w, tot = len(lens), sum(lens)

    class Draw(np.random.RandomState):
        """a RandomState whose randint(n) returns a chosen value: enumerates the RNG draw"""
        def __init__(self, v):
            super().__init__(0)
            self.v = v
            self.asked = None

        def randint(self, low, high=None, *a, **k):
            self.asked = int(low) if high is None else int(high) - int(low)
            return self.v if high is None else self.v + int(low)
    outs = []
    for g in range(max(tot, 1)):
        def fn(r, g=g):
            # rank 0 decides, the others receive: every other rank is handed a DIFFERENT draw
            rs = Draw(g if r == 0 or tot < 2 else (g + 1 + (r % (tot - 1))) % tot)
            p = mpi.ops.randind(np.zeros(lens[r]), rs)
            return [int(p[0]), int(p[1])], rs.asked
        outs.append(run_ranks(w, fn, jit_seed=case['jit'] + g))

    def fseed(r):
        p = mpi.ops.randind(np.zeros(lens[r]), np.random.RandomState((case['seed'] + 7919 * r) % 2 ** 31))
        return [int(p[0]), int(p[1])]
    oseed = run_ranks(w, fseed) if tot else None
    reqs = [{'op': 'C14.randind_all', 'lens': lens}]

    def finish(resps):
        m = resps[0]
        packed = all(lens[r] == len(range(r, tot, w)) for r in range(w))
        ctx.case(case, nontrivial=(w >= 2 and tot >= 1),
                 tags=['randind', 'w=%d' % w, 'packed' if packed else 'not-packed'] +
                      (['empty-array'] if tot == 0 else []))
        if tot == 0:
            o = outs[0]
            if o.ok or o.deadlock or o.kinds != ['data-invalid']:
                ctx.violation('randind on an empty striped array: expected DataInvalid, got %s' % o.describe(), case)
            elif m[0].get('error') != 'data-invalid':
                ctx.disagreement('Model.Mpi.randind vs randind on an empty array', case)
            return
        got = []
        for g, o in enumerate(outs):
            if not o.ok:
                ctx.violation('randind failed for draw %d: %s' % (g, o.describe()), case)
                return
            p = o.results[0][0]
            if any(res[0] != p for res in o.results):
                ctx.violation('randind: ranks disagree on the chosen element for draw %d' % g, case)
                return
            if not (0 <= p[0] < w and 0 <= p[1] < lens[p[0]]):
                ctx.violation('randind: draw %d gives %s, not an element of the striped array' % (g, p), case)
                return
            if o.results[0][1] != tot:
                # the stub RandomState did not see randint(total) on rank 0: the draw is not under the harness's
                # control, the enumeration below cannot be evaluated (instrumentation, not a predicate on outputs)
                if not PRIVATE_REPORTED.get('randind-draw'):
                    PRIVATE_REPORTED['randind-draw'] = True
                    ctx.disagreement('randind no longer draws random_state.randint(total) on rank 0 (stub saw %s): '
                                     'the draw cannot be enumerated' % o.results[0][1], case)
                return
            got.append(tuple(p))
        # uniform: the map draw -> element is a bijection onto all elements
        if len(set(got)) != tot:
            ctx.violation('randind is not uniform: the %d draws reach only %d of the %d elements'
                          % (tot, len(set(got)), tot), case)
            return
        if packed and any(p != (g % w, g // w) for g, p in enumerate(got)):
            ctx.violation('randind on a packed layout: draw g must be element g of the global array', case)
            return
        if [list(p) for p in got] != [x.get('ok') for x in m]:
            ctx.disagreement('Model.Mpi.randind vs randind over the whole enumeration', case)
            return
        g = int(np.random.RandomState(case['seed'] % 2 ** 31).randint(tot))
        if not oseed.ok:
            ctx.violation('randind with a seeded RandomState failed: %s' % oseed.describe(), case)
        elif any(tuple(res) != tuple(oseed.results[0]) for res in oseed.results):
            ctx.violation('randind with a seeded RandomState: ranks disagree on the chosen element', case)
        elif not (0 <= oseed.results[0][0] < w and 0 <= oseed.results[0][1] < lens[oseed.results[0][0]]):
            ctx.violation('randind with a seeded RandomState returns %s, not an element of the striped array'
                          % (oseed.results[0],), case)
        elif tuple(oseed.results[0]) != got[g]:
            ctx.disagreement('randind with a seeded RandomState does not pick element randint(total) of the seed', case)
    return reqs, finish


def gen_distribute(rng):
    w = int(rng.integers(1, 9))
    ms = [int(rng.integers(0 if rng.random() < 0.1 else 1, 5)) for _ in range(w)]
    owner = int(rng.integers(0, w + (1 if rng.random() < 0.1 else 0)))
    mo = ms[owner] if owner < w else 1
    idx = int(rng.integers(0, mo + (1 if rng.random() < 0.1 else 0))) if mo else 0
    return {'kind': 'distribute', 'ms': ms, 'dim': int(rng.integers(1, 4)), 'owner': owner, 'idx': idx,
            'traj': bool(rng.random() < 0.2), 'jit': int(rng.integers(0, 2 ** 31))}


def prep_distribute(ctx, case):
    quiet()
    from enspara import mpi
    ms, dim, owner, idx = case['ms'], case['dim'], case['owner'], case['idx']
    w = len(ms)
    data = [np.arange(m * dim, dtype=float).reshape(m, dim) + 1000 * (r + 1) for r, m in enumerate(ms)]
    use_traj = case['traj'] and all(m > 0 for m in ms)
    if use_traj:
        import mdtraj as md
        top = md.Topology()
        ch = top.add_chain()
        res = top.add_residue('ALA', ch)
        for _ in range(dim):
            top.add_atom('CA', md.element.carbon, res)
        trajs = [md.Trajectory(xyz=np.repeat(d[:, :, None], 3, axis=2).astype(np.float32), topology=top)
                 for d in data]

    def fn(r):
        if use_traj:
            f = mpi.ops.distribute_frame(trajs[r], idx, owner)
            return [float(x) for x in f.xyz[0, :, 0]], type(f).__name__
        before = data[r].copy()
        f = mpi.ops.distribute_frame(data[r], idx, owner)
        return [float(x) for x in f], bool((data[r] == before).all())
    out = run_ranks(w, fn, jit_seed=case['jit'])
    reqs = [{'op': 'C14.distribute', 'data': [d.tolist() for d in data], 'idx': idx, 'owner': owner}]

    def finish(resps):
        m = resps[0]
        valid = owner < w and idx < ms[owner] and all(mm > 0 for r, mm in enumerate(ms) if r != owner)
        ctx.case(case, nontrivial=(w >= 2 and out.ok),
                 tags=['distribute_frame', 'w=%d' % w, 'mdtraj' if use_traj else 'ndarray',
                       'valid' if valid else 'error-input'])
        if out.deadlock:
            ctx.violation('distribute_frame left ranks waiting (deadlock)', case)
            return
        if valid:
            exp = [float(x) for x in data[owner][idx]]
            if use_traj:
                exp = [float(np.float32(x)) for x in exp]
            if not out.ok:
                ctx.violation('distribute_frame failed on valid input: %s' % out.describe(), case)
                return
            for r, (f, aux) in enumerate(out.results):
                if f != exp:
                    ctx.violation('distribute_frame: rank %d received %s, the owner holds %s' % (r, f, exp), case)
                    return
                if use_traj and aux != 'Trajectory':
                    ctx.violation('distribute_frame: mdtraj input returns %s' % aux, case)
                    return
                if not use_traj and aux is not True:
                    ctx.violation('distribute_frame modified rank %d\'s data' % r, case)
                    return
        if use_traj:
            return
        if not model_matches(m, out) or ('ok' in m and any(res[0] != [float(x) for x in m['ok']]
                                                            for res in out.results)):
            ctx.disagreement('Model.Mpi.distributeFrame (%s) vs distribute_frame (%s)' % (m, out.describe()), case)
    return reqs, finish


# ----------------------------------------------------------------------------- io

def gen_load(rng, many=None):
    T = int(rng.integers(1, 8)) if many is None else many
    w = int(rng.integers(1, min(8, T + 1) + 1))
    return {'kind': 'load', 'w': w, 'L': [int(rng.integers(1, 12)) for _ in range(T)],
            'dim': int(rng.integers(1, 4)), 'stride': int(rng.choice([1, 1, 1, 2, 3, 4, 5])),
            'dtype': str(rng.choice(['float64', 'float64', 'float32', 'int32', 'int64'])),
            'fmt': 'h5' if rng.random() < 0.5 else 'npy', 'jit': int(rng.integers(0, 2 ** 31))}


def prep_load(ctx, case):
    quiet()
    from enspara import mpi, ra
    w, L, dim, stride, fmt = case['w'], case['L'], case['dim'], case['stride'], case['fmt']
    T = len(L)
    dt = np.dtype(case.get('dtype', 'float64'))
    rows = [(np.arange(l * dim).reshape(l, dim) + 100 * (t + 1)).astype(dt) for t, l in enumerate(L)]
    tmp = tempfile.mkdtemp(prefix='c14_fixture_')
    try:
        if fmt == 'h5':
            path = os.path.join(tmp, 'features.h5')
            ra.save(path, ra.RaggedArray(rows) if T > 1 else rows[0])

            def fn(r):
                gl, d = mpi.io.load_h5_as_striped(path, stride=stride)
                return to_int_list(gl), np.asarray(d).tolist(), str(np.asarray(d).dtype)
        else:
            paths = []
            for t, row in enumerate(rows):
                p = os.path.join(tmp, 'f%03d.npy' % t)
                np.save(p, row)
                paths.append(p)

            def fn(r):
                gl, d = mpi.io.load_npy_as_striped(paths, stride=stride)
                return to_int_list(gl), np.asarray(d).tolist(), str(np.asarray(d).dtype)
        out = run_ranks(w, fn, jit_seed=case['jit'])
    finally:
        shutil.rmtree(tmp, ignore_errors=True)
    reqs = [{'op': 'C14.load', 'w': w, 'rows': [r.tolist() for r in rows], 'stride': stride, 'kind': fmt}]

    def finish(resps):
        m = resps[0]
        ctx.case(case, nontrivial=(w >= 2 and out.ok),
                 tags=['load_%s_as_striped' % fmt, 'w=%d' % w, 'stride=%d' % stride, 'load-dtype:%s' % dt] +
                      (['fewer-files-than-ranks'] if T < w else []) +
                      (['load:%d-or-more-files' % (100 if T >= 100 else 10)] if T >= 10 else []) +
                      (['load:length%%stride>=2'] if any(l % stride >= 2 for l in L) else []))
        if out.deadlock:
            ctx.violation('load_%s_as_striped left ranks waiting (deadlock)' % fmt, case)
            return
        if T < w:
            ctx.tag('empty-rank-rejected')
            if out.ok:
                ctx.disagreement('load_%s_as_striped accepted more ranks than files' % fmt, case)
            return
        # serial definition: rank r holds the concatenation of rows r, r+w, ... (every stride-th frame);
        # the global lengths describe those rows, so that the reassembly routines can use them
        exp_len = [len(range(0, l, stride)) for l in L]
        exp_data = [np.concatenate([rows[t][::stride] for t in range(r, T, w)]).tolist() for r in range(w)]
        if not out.ok:
            ctx.violation('load_%s_as_striped failed: %s' % (fmt, out.describe()), case)
            return
        for r, (gl, d, dtn) in enumerate(out.results):
            if d != exp_data[r]:
                ctx.violation('load_%s_as_striped: rank %d does not hold rows r, r+w, ... of the data' % (fmt, r), case)
                return
            if np.dtype(dtn) != dt:
                ctx.violation('load_%s_as_striped: rank %d holds dtype %s, the files hold %s' % (fmt, r, dtn, dt), case)
                return
            if gl != exp_len:
                ctx.violation('load_%s_as_striped(stride=%d): global lengths %s do not describe the loaded data %s'
                              % (fmt, stride, gl, exp_len), case)
                return
        # model
        if exp_len != m['strided_lengths']:
            ctx.disagreement('Model.Mpi.everyNth vs row[::stride]', case)
            return
        for r in range(w):
            mr = m['ranks'][r]
            gl, d, _ = out.results[r]
            if 'ok' not in mr or mr['ok']['lengths'] != gl or mr['ok']['data'] != d:
                ctx.disagreement('Model.Mpi.load%sStriped vs load_%s_as_striped on rank %d' % (fmt, fmt, r), case)
                return
    return reqs, finish


def prep_load_oldstyle(ctx, case):
    """an .h5 holding exactly 'array' and 'lengths' cannot be loaded in parallel (NotImplementedError)"""
    quiet()
    from enspara import mpi
    import tables
    w = case['w']
    tmp = tempfile.mkdtemp(prefix='c14_fixture_')
    try:
        path = os.path.join(tmp, 'old.h5')
        with tables.open_file(path, 'w') as h:
            h.create_array('/', 'array', np.arange(5.0))
            h.create_array('/', 'lengths', np.array([2, 3]))
        out = run_ranks(w, lambda r: mpi.io.load_h5_as_striped(path), jit_seed=case['jit'])
    finally:
        shutil.rmtree(tmp, ignore_errors=True)

    def finish(resps):
        ctx.case(case, nontrivial=False, tags=['load_h5_as_striped:old-style-file', 'w=%d' % w])
        if out.ok or out.deadlock or out.kinds != ['not-implemented']:
            ctx.violation('load_h5_as_striped on an array/lengths file: expected NotImplementedError on every '
                          'rank, got %s' % out.describe(), case)
    return [], finish


# ----------------------------------------------------------------------------- stripe scope

def stripe_scope(ctx):
    """tie of Model.Mpi.stripe to Python's xs[r::w], exhaustive on a small scope"""
    reqs, exp = [], []
    for w in range(1, 10):
        for n in range(0, (14 if not ctx.thorough else 24)):
            for r in range(0, w + 2):
                reqs.append({'op': 'C14.stripe', 'w': w, 'n': n, 'r': r})
                exp.append(list(range(n))[r::w])
    resp = ctx.driver(reqs)
    bad = 0
    for rq, e, r in zip(reqs, exp, resp):
        if r.get('ok') != e:
            bad += 1
            if bad <= 2:
                ctx.disagreement('Model.Mpi.stripe vs Python xs[r::w]', dict(rq, kind='stripe', expected=e))
    ctx.tag('stripe-scope', len(reqs))
    ctx.evaluations += len(reqs)
    ctx.note('stripe_scope_exhaustive', {'cases': len(reqs), 'mismatches': bad})


# ----------------------------------------------------------------------------- blind-spot families
# (size boundaries, dtype / container variety, sign / scale / all-equal data, object reuse, warm starts)

def hash_metric(N, seed, scale_exp=0, offset=0):
    """tie-free functional metric on frame ids for data sets too large for a table: an injective code of
    the unordered pair pushed through bijections of [0, 2**bits); every value is exact in float64"""
    bits = 2 * max(4, int(np.ceil(np.log2(max(N, 2)))))
    assert bits <= 44
    M = np.uint64(1 << bits)
    g = np.random.default_rng([int(seed), int(N)])
    A = np.uint64(int(g.integers(1, 1 << 30)) * 2 + 1)
    B = np.uint64(int(g.integers(1, 1 << 30)) * 2 + 1)
    sc = 2.0 ** scale_exp

    def metric(X, y):
        a = np.asarray(X)[:, 0].astype(np.int64)
        b = int(np.asarray(y).ravel()[0])
        lo = np.minimum(a, b).astype(np.uint64)
        hi = np.maximum(a, b).astype(np.uint64)
        v = ((lo * np.uint64(N) + hi) * A) % M           # uint64 wraps mod 2**64, a multiple of M
        v = v ^ (v >> np.uint64(bits // 2 + 1))
        v = (v * B) % M
        return np.where(a == b, 0.0, (v.astype(np.float64) + 1.0 + offset) * sc)
    return metric


def gen_kcenters_big(rng, size):
    w = int(rng.integers(2, 6))
    extra = int(rng.choice([0, 1, 2]))
    T = w + extra
    if size == 'k>255':
        L = [int(rng.integers(40, 90)) for _ in range(T)]
        while sum(L) < 300:
            L[int(rng.integers(0, T))] += 40
        k = int(rng.integers(257, 270))
    elif size == 'local>65535':
        T = max(T, w + 1)                                   # rank 0 owns two trajectories: local indices
        L = [int(rng.integers(20000, 30000)) for _ in range(T)]   # 66000 ... 136000 exist on it
        L[0] = 66000 + int(rng.integers(0, 500))
        L[w] = 70000 + int(rng.integers(0, 500))
        k = int(rng.integers(5, 9))
    else:                                                   # 'local>255'
        L = [int(rng.integers(1, 120)) for _ in range(T)]
        L[int(rng.integers(0, T))] = 257 + int(rng.integers(0, 60))
        k = int(rng.integers(3, 8))
    return {'kind': 'kcenters-big', 'size': size, 'w': w, 'L': L, 'hseed': int(rng.integers(0, 2 ** 31)), 'k': k,
            'xdtype': str(rng.choice(['float64', 'float64', 'int64', 'int32'])),
            'lens': str(rng.choice(['ndarray', 'list', 'int32'])),
            'scale_exp': int(rng.choice([0, 0, -30, 30])), 'offset': int(rng.choice([0, 0, 1 << 30])),
            'tri': bool(rng.random() < 0.15), 'jit': int(rng.integers(0, 2 ** 31))}


def fast_local_ids(w, L, r):
    off = offsets(L)
    parts = [np.arange(off[t], off[t + 1]) for t in range(r, len(L), w)]
    return np.concatenate(parts) if parts else np.zeros(0, dtype=int)


def prep_kcenters_big(ctx, case):
    """large data sets (local arrays > 255 / > 65535 frames, > 255 clusters): predicate only, no model"""
    quiet()
    from enspara.cluster import kcenters
    from enspara import mpi
    w, L, k = case['w'], case['L'], case['k']
    N = sum(L)
    metric = hash_metric(N, case['hseed'], case['scale_exp'], case['offset'])
    X = np.arange(N, dtype=case['xdtype']).reshape(-1, 1)
    ser = kcenters.kcenters(X.copy(), metric, n_clusters=k, use_triangle_inequality=case['tri'])
    sc = np.array([int(c) for c in ser.center_indices])
    lens = lens_container(L, case['lens'])
    locs = [X[fast_local_ids(w, L, r)].copy() for r in range(w)]
    snap = [l.tobytes() for l in locs]

    def fn(r):
        outs = []
        for rep in range(1 if case['size'] == 'k>255' else 2):   # the same data object twice
            res = kcenters.kcenters(locs[r], metric, n_clusters=k, mpi_mode=True,
                                    use_triangle_inequality=case['tri'])
            d = mpi.ops.assemble_striped_ragged_array(res.distances, lens)
            a = mpi.ops.assemble_striped_ragged_array(res.assignments, lens)
            c = np.array([int(x) for x in mpi.ops.convert_local_indices(res.center_indices, lens)])
            ctr_ok = [float(np.asarray(f).ravel()[0]) for f in res.centers] == [float(g) for g in sc]
            outs.append((bool(len(c) == len(sc) and (c == sc).all()),
                         bool(a.shape == ser.assignments.shape and (a == ser.assignments).all()),
                         bool(d.shape == ser.distances.shape and (d == ser.distances).all()), ctr_ok,
                         int(a.max()), max(int(i) for _, i in res.center_indices),
                         len({int(o) for o, _ in res.center_indices})))
        return outs, locs[r].tobytes() == snap[r]
    out = run_ranks(w, fn, jit_seed=case['jit'], timeout=90.0)

    def finish(resps):
        tags = ['kcenters-big', 'big:' + case['size'], 'w=%d' % w, 'model-skipped-large',
                'kcenters-xdtype:' + case['xdtype'], 'kcenters-lens:' + case['lens']]
        if len(L) == w:
            tags.append('world=number-of-trajectories')
        if len(L) == w + 1:
            tags.append('world=number-of-trajectories-1')
        if case['tri']:
            tags.append('kcenters-triangle-shortcut')
        for key in ('scale_exp', 'offset'):
            if case[key]:
                tags.append('kcenters-%s:%s' % (key, case[key]))
        ctx.case(case, nontrivial=out.ok, tags=tags)
        if not out.ok:
            ctx.violation('kcenters(mpi_mode=True) + reassembly failed on a large data set: %s' % out.describe(), case)
            return
        for r, (outs, same) in enumerate(out.results):
            for rep, (c_ok, a_ok, d_ok, f_ok, amax, imax, nown) in enumerate(outs):
                what = 'rank %d, call %d on the same data' % (r, rep + 1)
                if not c_ok:
                    ctx.violation('%s: distributed k-centers centers (global) differ from the serial centers' % what, case)
                    return
                if not a_ok:
                    ctx.violation('%s: reassembled labels differ from the serial labels' % what, case)
                    return
                if not d_ok:
                    ctx.violation('%s: reassembled distances differ from the serial distances' % what, case)
                    return
                if not f_ok:
                    ctx.violation('%s: center frames are not the frames at the serial center indices' % what, case)
                    return
            if not same:
                ctx.violation('rank %d: kcenters(mpi_mode=True) modified its data' % r, case)
                return
        amax, imax, nown = out.results[0][0][0][4:]
        if amax > 255:
            ctx.tag('label>255')
        if imax > 65535:
            ctx.tag('local-center-index>65535')
        elif imax > 255:
            ctx.tag('local-center-index>255')
        if nown > 1:
            ctx.tag('farthest-point-changes-owner')
    return [], finish


DTYPES_RAGGED = ['int64', 'int32', 'int16', 'float64', 'float32', 'bool', 'uint8']


def values_for(rng_or_seed, n, dtype, mode):
    """exactly representable test values of the given dtype: mixed sign, all negative or all equal"""
    g = np.random.default_rng(rng_or_seed)
    dt = np.dtype(dtype)
    if dt == np.bool_:
        v = g.integers(0, 2, size=n).astype(bool)
        return np.ones(n, dtype=bool) if mode == 'all-equal' else v
    unsigned = dt.kind == 'u'
    if mode == 'all-equal':
        c = int(g.integers(1, 100)) if unsigned else int(g.integers(-100, 100))
        v = np.full(n, c)
    elif mode == 'all-negative' and not unsigned:
        v = -g.integers(1, 100, size=n)
    else:
        v = g.integers(0 if unsigned else -100, 100, size=n)
    if dt.kind == 'f':
        return (v / 4.0).astype(dt)
    return v.astype(dt)


def gen_ragged_variety(rng, big=None):
    w = int(rng.integers(1, 9))
    T = w + int(rng.choice([0, 1, 1, 2, 5]))
    L = [int(rng.integers(1, 7)) for _ in range(T)]
    if big:
        L[int(rng.integers(0, T))] = big + int(rng.integers(1, 50))
    return {'kind': 'ragged-variety', 'w': w, 'L': L, 'dtype': str(rng.choice(DTYPES_RAGGED)),
            'lens': str(rng.choice(['ndarray', 'list', 'int32', 'tuple'])),
            'mode': str(rng.choice(['mixed', 'all-negative', 'all-equal'])),
            'vseed': int(rng.integers(0, 2 ** 31)), 'jit': int(rng.integers(0, 2 ** 31))}


def prep_ragged_variety(ctx, case):
    """assemble_striped_ragged_array for every dtype / lengths container, twice with the same objects"""
    quiet()
    from enspara import mpi
    w, L = case['w'], case['L']
    N = sum(L)
    xs = values_for(case['vseed'], N, case['dtype'], case['mode'])
    locs = [xs[fast_local_ids(w, L, r)].copy() for r in range(w)]
    lens = lens_container(L, case['lens'])
    snap = [l.tobytes() for l in locs]

    def fn(r):
        oks = []
        for rep in range(2):
            res = mpi.ops.assemble_striped_ragged_array(locs[r], lens)
            oks.append((bool(res.shape == xs.shape and (res == xs).all()), str(res.dtype)))
        return oks, locs[r].tobytes() == snap[r], list(lens) == list(L)
    out = run_ranks(w, fn, jit_seed=case['jit'], timeout=60.0)

    def finish(resps):
        big = max(len(l) for l in locs)
        ctx.case(case, nontrivial=(w >= 2 and out.ok),
                 tags=['ragged-variety', 'w=%d' % w, 'ragged-dtype:' + case['dtype'], 'ragged-lens:' + case['lens'],
                       'data:' + case['mode'], 'model-skipped-dtype-variety'] +
                      (['ragged-local>65535'] if big > 65535 else ['ragged-local>255'] if big > 255 else []) +
                      (['world=number-of-trajectories'] if len(L) == w else []) +
                      (['world=number-of-trajectories-1'] if len(L) == w + 1 else []))
        if not out.ok:
            ctx.violation('assemble_striped_ragged_array(%s data, lengths as %s) failed: %s'
                          % (case['dtype'], case['lens'], out.describe()), case)
            return
        for r, (oks, same, lsame) in enumerate(out.results):
            for rep, (ok, dtn) in enumerate(oks):
                if not ok:
                    ctx.violation('assemble_striped_ragged_array: rank %d, call %d does not give the global %s array back'
                                  % (r, rep + 1, case['dtype']), case)
                    return
                if np.dtype(dtn) != xs.dtype:
                    ctx.violation('assemble_striped_ragged_array: dtype %s, expected %s' % (dtn, xs.dtype), case)
                    return
            if not same or not lsame:
                ctx.violation('assemble_striped_ragged_array modified its arguments on rank %d' % r, case)
                return
    return [], finish


def gen_array_variety(rng, big=None):
    w = int(rng.integers(2, 9))
    n = int(rng.integers(w, 4 * w + 3)) if not big else big + int(rng.integers(1, 40))
    return {'kind': 'array-variety', 'w': w, 'n': n, 'dtype': str(rng.choice(['int64', 'int32', 'int16', 'uint8', 'uint16'])),
            'mode': str(rng.choice(['mixed', 'all-equal'])), 'vseed': int(rng.integers(0, 2 ** 31)),
            'jit': int(rng.integers(0, 2 ** 31))}


def prep_array_variety(ctx, case):
    quiet()
    from enspara import mpi
    w, n = case['w'], case['n']
    g = np.random.default_rng(case['vseed'])
    a = (np.full(n, int(g.integers(1, 100))) if case['mode'] == 'all-equal'
         else g.integers(1, 100, size=n)).astype(case['dtype'])
    parts = [a[r::w].copy() for r in range(w)]
    snap = [p.tobytes() for p in parts]

    def fn(r):
        oks = []
        for rep in range(2):
            res = mpi.ops.assemble_striped_array(parts[r])
            oks.append((bool(res.shape == a.shape and (res == a).all()), str(res.dtype)))
        return oks, parts[r].tobytes() == snap[r]
    out = run_ranks(w, fn, jit_seed=case['jit'], timeout=60.0)

    def finish(resps):
        ctx.case(case, nontrivial=out.ok,
                 tags=['array-variety', 'w=%d' % w, 'array-dtype:' + case['dtype'], 'model-skipped-dtype-variety'] +
                      (['array-n>65535'] if n > 65535 else ['array-n>255'] if n > 255 else []))
        if not out.ok:
            ctx.violation('assemble_striped_array(%s) failed: %s' % (case['dtype'], out.describe()), case)
            return
        for r, (oks, same) in enumerate(out.results):
            if any(not ok for ok, _ in oks):
                ctx.violation('assemble_striped_array: rank %d does not get the global %s array back' % (r, case['dtype']), case)
                return
            if any(np.dtype(dtn) != a.dtype for _, dtn in oks):
                ctx.violation('assemble_striped_array: dtype changed from %s' % a.dtype, case)
                return
            if not same:
                ctx.violation('assemble_striped_array modified its argument on rank %d' % r, case)
                return
    return [], finish


def gen_convert_variety(rng, big=None):
    w = int(rng.integers(1, 9))
    T = w + int(rng.choice([0, 1, 1, 3]))
    L = [int(rng.integers(1, 7)) for _ in range(T)]
    if big:
        L[int(rng.integers(0, T))] = big + int(rng.integers(1, 50))
    return {'kind': 'convert-variety', 'w': w, 'L': L, 'pairs': str(rng.choice(['tuples', 'lists', 'ndarray', 'int32'])),
            'lens': str(rng.choice(['ndarray', 'list', 'int32'])), 'pseed': int(rng.integers(0, 2 ** 31)),
            'jit': int(rng.integers(0, 2 ** 31))}


def prep_convert_variety(ctx, case):
    """convert_local_indices / ctr_ids_mpi for every container of the index arguments and of the lengths,
    called twice with the same objects; also local indices beyond 255 / 65535"""
    quiet()
    from enspara import mpi
    from enspara.cluster import kmedoids
    w, L = case['w'], case['L']
    N = sum(L)
    ids = [fast_local_ids(w, L, r) for r in range(w)]
    g = np.random.default_rng(case['pseed'])
    pairs = []
    for r in range(w):
        m = len(ids[r])
        pick = {0, m - 1} | {x for x in (255, 256, 65535, 65536) if x < m} | \
            {int(x) for x in g.integers(0, m, size=3)}
        pairs += [(r, i) for i in sorted(pick)]
    exp = [int(ids[r][i]) for r, i in pairs]
    off = offsets(L)
    traj = [int(np.searchsorted(off, gl, side='right') - 1) for gl in exp]
    tf = [(t, int(gl - off[t])) for t, gl in zip(traj, exp)]
    form = case['pairs']

    def box(ps):
        if form == 'tuples':
            return [tuple(p) for p in ps]
        if form == 'lists':
            return [list(p) for p in ps]
        return np.array(ps, dtype=(np.int32 if form == 'int32' else np.int64))
    lens = lens_container(L, case['lens'])
    a_pairs, a_tf = box(pairs), box(tf)
    a_flat = exp if form in ('tuples', 'lists') else np.array(exp, dtype=(np.int32 if form == 'int32' else np.int64))
    snap = repr((a_pairs, a_tf, a_flat, lens))

    def fn(r):
        res = []
        for rep in range(2):
            c = to_int_list(mpi.ops.convert_local_indices(a_pairs, lens))
            p = [(int(x), int(y)) for x, y in kmedoids.ctr_ids_mpi(a_tf, lens)]
            f = [(int(x), int(y)) for x, y in kmedoids.ctr_ids_mpi(a_flat, lens)]
            res.append((c, p, f))
        return res
    out = run_ranks(w, fn, jit_seed=case['jit'], timeout=60.0)

    def finish(resps):
        big = max(len(i) for i in ids)
        ctx.case(case, nontrivial=(w >= 2 and out.ok),
                 tags=['convert-variety', 'w=%d' % w, 'index-container:' + form, 'convert-lens:' + case['lens'],
                       'model-skipped-dtype-variety'] +
                      (['local-index>65535'] if big > 65536 else ['local-index>255'] if big > 256 else []))
        if not out.ok:
            ctx.violation('convert_local_indices / ctr_ids_mpi (indices as %s, lengths as %s) failed: %s'
                          % (form, case['lens'], out.describe()), case)
            return
        for r, res in enumerate(out.results):
            for rep, (c, p, f) in enumerate(res):
                if c != exp:
                    ctx.violation('convert_local_indices (indices as %s): rank %d call %d gives %s, expected %s'
                                  % (form, r, rep + 1, c[:8], exp[:8]), case)
                    return
                if p != pairs:
                    ctx.violation('ctr_ids_mpi((traj, frame) as %s): rank %d call %d gives wrong (rank, local) pairs'
                                  % (form, r, rep + 1), case)
                    return
                if f != pairs:
                    ctx.violation('ctr_ids_mpi(flat ids as %s): rank %d call %d gives wrong (rank, local) pairs'
                                  % (form, r, rep + 1), case)
                    return
        if repr((a_pairs, a_tf, a_flat, lens)) != snap:
            ctx.violation('convert_local_indices / ctr_ids_mpi modified an argument', case)
    return [], finish


def gen_reduce_variety(rng, big=None):
    w = int(rng.integers(1, 9))
    mode = str(rng.choice(['mixed', 'all-negative', 'all-equal', 'one-element-per-rank']))
    lens = [1] * w if mode == 'one-element-per-rank' else [int(rng.integers(1, 7)) for _ in range(w)]
    if big:
        lens[int(rng.integers(0, w))] = big + int(rng.integers(1, 50))
    dtype = str(rng.choice(['float64', 'float32', 'int64', 'int32', 'bool']))
    return {'kind': 'reduce-variety', 'lens': lens, 'mode': mode, 'dtype': dtype,
            'scale_exp': int(rng.choice([0, -30, 30])) if dtype.startswith('float') else 0,
            'vseed': int(rng.integers(0, 2 ** 31)), 'jit': int(rng.integers(0, 2 ** 31))}


def prep_reduce_variety(ctx, case):
    """striped_array_max / striped_array_mean on all-negative, all-equal, mixed-sign, scaled data of every
    dtype; the same local arrays go through max, mean, max, mean"""
    quiet()
    from enspara import mpi
    import warnings
    lens = case['lens']
    w = len(lens)
    mode = 'mixed' if case['mode'] == 'one-element-per-rank' else case['mode']
    allv = values_for(case['vseed'], sum(lens), case['dtype'], mode)
    if case['scale_exp']:
        allv = (allv * allv.dtype.type(2.0 ** case['scale_exp'])).astype(allv.dtype)
    cuts = np.concatenate([[0], np.cumsum(lens)])
    locs = [allv[cuts[r]:cuts[r + 1]].copy() for r in range(w)]
    snap = [l.tobytes() for l in locs]

    def fn(r):
        with warnings.catch_warnings():
            warnings.simplefilter('ignore')
            res = []
            for rep in range(2):
                res.append(mpi.ops.striped_array_max(locs[r]))
                res.append(mpi.ops.striped_array_mean(locs[r]))
        return [float(x) for x in res], locs[r].tobytes() == snap[r]
    out = run_ranks(w, fn, jit_seed=case['jit'], timeout=60.0)

    def finish(resps):
        ctx.case(case, nontrivial=(w >= 2 and out.ok),
                 tags=['reduce-variety', 'w=%d' % w, 'reduce-dtype:' + case['dtype'], 'data:' + case['mode'],
                       'model-skipped-dtype-variety'] +
                      (['reduce-scale:2^%d' % case['scale_exp']] if case['scale_exp'] else []) +
                      (['reduce-local>65535'] if max(lens) > 65535 else ['reduce-local>255'] if max(lens) > 255 else []))
        if not out.ok:
            ctx.violation('striped_array_max / striped_array_mean on %s %s data failed: %s'
                          % (case['mode'], case['dtype'], out.describe()), case)
            return
        emax = float(allv.max())
        exact = Fraction(0)
        for x in allv.tolist():
            exact += Fraction(float(x))
        exact /= len(allv)
        # one float32 division (float32 sums of these values are exact); float64 otherwise
        tol = 2e-7 if case['dtype'] == 'float32' else 1e-12
        for r, (res, same) in enumerate(out.results):
            for rep in (0, 2):
                if res[rep] != emax:
                    ctx.violation('striped_array_max (%s, %s): rank %d returns %r, the maximum of the whole array is %r'
                                  % (case['mode'], case['dtype'], r, res[rep], emax), case)
                    return
                if abs(res[rep + 1] - float(exact)) > tol * max(abs(float(exact)), 2.0 ** case['scale_exp'] / 4):
                    ctx.violation('striped_array_mean (%s, %s): rank %d returns %r, the mean of the whole array is %r'
                                  % (case['mode'], case['dtype'], r, res[rep + 1], float(exact)), case)
                    return
            if res[0:2] != res[2:4]:
                ctx.violation('striped reductions give a different result the second time on the same arrays', case)
                return
            if not same:
                ctx.violation('a striped reduction modified its argument on rank %d' % r, case)
                return
    return [], finish


def gen_randind_big(rng, big):
    w = int(rng.integers(2, 7))
    n = big + int(rng.integers(1, 300))
    return {'kind': 'randind-big', 'w': w, 'n': n, 'seed': int(rng.integers(0, 2 ** 31)),
            'extra': [int(x) for x in rng.integers(0, n, size=3)], 'jit': int(rng.integers(0, 2 ** 31))}


def prep_randind_big(ctx, case):
    """randind on a packed striped array with more than 255 / 65535 elements: draw g must be element g"""
    quiet()
    from enspara import mpi
    w, n = case['w'], case['n']
    lens = [len(range(r, n, w)) for r in range(w)]
    draws = sorted({0, n - 1, *[x for x in (255, 256, 257, 65535, 65536, 65537) if x < n], *case['extra']})

    class Draw(np.random.RandomState):
        def __init__(self, v):
            super().__init__(0)
            self.v = v

        def randint(self, low, high=None, *a, **k):
            USED['n'] += 1
            return self.v if high is None else self.v + int(low)
    USED = {'n': 0}
    seed = case['seed'] % 2 ** 31

    def fn(r):
        loc = np.zeros(lens[r])
        # rank 0 decides, the others receive: the other ranks get different draws / seeds
        got = [tuple(int(x) for x in mpi.ops.randind(loc, Draw(g if r == 0 else (g + 1 + r) % n))) for g in draws]
        got.append(tuple(int(x) for x in mpi.ops.randind(loc, (seed + 7919 * r) % 2 ** 31)))   # an int seed
        return got
    out = run_ranks(w, fn, jit_seed=case['jit'], timeout=90.0)

    def finish(resps):
        ctx.case(case, nontrivial=out.ok, tags=['randind-big', 'w=%d' % w, 'model-skipped-large',
                                                'randind-n>65535' if n > 65535 else 'randind-n>255'])
        if not out.ok:
            ctx.violation('randind on %d elements failed: %s' % (n, out.describe()), case)
            return
        if any(got != out.results[0] for got in out.results):
            ctx.violation('randind on %d elements: ranks disagree on the chosen elements' % n, case)
            return
        if any(not (0 <= o < w and 0 <= i < lens[o]) for o, i in out.results[0]):
            ctx.violation('randind on %d elements returns something that is not an element of the array' % n, case)
            return
        if USED['n'] < len(draws) * 1:
            if not PRIVATE_REPORTED.get('randind-draw'):
                PRIVATE_REPORTED['randind-draw'] = True
                ctx.disagreement('randind no longer draws through random_state.randint: the draw cannot be chosen', case)
            return
        exp = [(g % w, g // w) for g in draws]
        got = out.results[0][:len(draws)]
        if got != exp:
            bad = [(g, a, b) for g, a, b in zip(draws, got, exp) if a != b][:3]
            ctx.violation('randind on a packed array of %d elements maps draw -> element wrongly: %s' % (n, bad), case)
            return
        gs = int(np.random.RandomState(seed).randint(n))
        if out.results[0][-1] != (gs % w, gs // w):
            ctx.disagreement('randind(random_state=int seed) does not pick element randint(total) of that seed', case)
    return [], finish


def gen_distribute_variety(rng, big=None):
    w = int(rng.integers(1, 9))
    ms = [int(rng.integers(1, 5)) for _ in range(w)]
    owner = int(rng.integers(0, w))
    if big:
        ms[owner] = big + int(rng.integers(2, 40))
    idx = int(rng.integers(0, ms[owner])) if not big else ms[owner] - 1 - int(rng.integers(0, 2))
    return {'kind': 'distribute-variety', 'ms': ms, 'owner': owner, 'idx': idx,
            'shape': [int(x) for x in rng.integers(1, 4, size=int(rng.integers(0, 3)))],
            'dtype': str(rng.choice(['float64', 'float32', 'int64', 'int32', 'bool'])),
            'mode': str(rng.choice(['mixed', 'all-negative', 'all-equal'])),
            'vseed': int(rng.integers(0, 2 ** 31)), 'jit': int(rng.integers(0, 2 ** 31))}


def prep_distribute_variety(ctx, case):
    quiet()
    from enspara import mpi
    ms, owner, idx, shape = case['ms'], case['owner'], case['idx'], tuple(case['shape'])
    w = len(ms)
    per = int(np.prod(shape)) if shape else 1
    data = [values_for([case['vseed'], r], m * per, case['dtype'], case['mode']).reshape((m,) + shape)
            for r, m in enumerate(ms)]
    snap = [d.tobytes() for d in data]

    def fn(r):
        res = []
        for rep in range(2):
            f = mpi.ops.distribute_frame(data[r], idx, owner)
            res.append((np.asarray(f).tolist(), str(np.asarray(f).dtype), list(np.shape(f))))
        return res, data[r].tobytes() == snap[r]
    out = run_ranks(w, fn, jit_seed=case['jit'])

    def finish(resps):
        ctx.case(case, nontrivial=(w >= 2 and out.ok),
                 tags=['distribute-variety', 'w=%d' % w, 'frame-dtype:' + case['dtype'], 'frame-ndim=%d' % len(shape),
                       'data:' + case['mode'], 'model-skipped-dtype-variety'] +
                      (['frame-index>65535'] if idx > 65535 else ['frame-index>255'] if idx > 255 else []))
        if not out.ok:
            ctx.violation('distribute_frame(%s frames of shape %s) failed: %s' % (case['dtype'], shape, out.describe()), case)
            return
        exp = (data[owner][idx].tolist(), str(data[owner].dtype), list(shape))
        for r, (res, same) in enumerate(out.results):
            for rep, got in enumerate(res):
                if got != exp:
                    ctx.violation('distribute_frame: rank %d call %d received %s, the owner holds %s'
                                  % (r, rep + 1, str(got)[:120], str(exp)[:120]), case)
                    return
            if not same:
                ctx.violation('distribute_frame modified rank %d\'s data' % r, case)
                return
    return [], finish


def gen_warm(rng):
    w = int(rng.integers(2, 9))
    L, mode = gen_lengths(rng, w, extra_max=4, lmax=5)
    N = sum(L)
    return {'kind': 'warm-ndarray', 'w': w, 'L': L, 'dseed': int(rng.integers(0, 2 ** 31)),
            'k': int(rng.integers(1, min(N, 6) + 1)), 'iters': int(rng.integers(1, 3)),
            'pseed': int(rng.integers(0, 2 ** 31)), 'centers': str(rng.choice(['ndarray', 'int32', 'lists'])),
            'scale_exp': int(rng.choice([0, 0, -30, 30])), 'jit': int(rng.integers(0, 2 ** 31)), 'mode': mode}


def prep_warm(ctx, case):
    """call history: the arrays RETURNED by distributed k-centers are handed (the same objects, centers as an
    ndarray like np.load gives) to k-medoids under MPI, twice; both runs must equal serial PAM"""
    quiet()
    from enspara.cluster import kcenters, kmedoids
    from enspara import mpi
    w, L, k = case['w'], case['L'], case['k']
    N = sum(L)
    D = case_table(case, N)
    metric = make_metric(D)
    X = np.arange(N, dtype=float).reshape(-1, 1)
    Larr = np.array(L, dtype=int)
    start = real_kcenters_serial(N, metric, k, 0)
    c0, a0, d0 = to_int_list(start.center_indices), np.array(start.assignments), np.array(start.distances)
    g = np.random.default_rng(case['pseed'])
    props = [int(g.choice(np.where(a0 == j)[0])) for j in range(k)]
    ser = kmedoids.kmedoids(X, metric, n_iters=case['iters'], assignments=a0.copy(), distances=d0.copy(),
                            cluster_center_inds=list(c0), proposals=list(props))
    exp = (to_int_list(ser.center_indices), to_int_list(ser.assignments), [float(x) for x in ser.distances])
    off = offsets(L)

    def fn(r):
        ids = local_ids(w, L, r)
        loc = X[ids].copy()
        first = kcenters.kcenters(loc, metric, n_clusters=k, mpi_mode=True)
        glob = mpi.ops.convert_local_indices(first.center_indices, Larr)
        tf = [[int(np.searchsorted(off, gl, side='right') - 1)] for gl in glob]
        tf = [[t[0], int(gl - off[t[0]])] for t, gl in zip(tf, glob)]
        if case['centers'] != 'lists':
            tf = np.array(tf, dtype=(np.int32 if case['centers'] == 'int32' else np.int64))
        before = (first.assignments.tobytes(), first.distances.tobytes(), loc.tobytes())
        outs = []
        for rep in range(2):
            res = kmedoids.kmedoids(loc, metric, n_iters=case['iters'], assignments=first.assignments,
                                    distances=first.distances, cluster_center_inds=tf, X_lengths=list(L),
                                    proposals=[global_to_local(w, L, p) for p in props])
            d = mpi.ops.assemble_striped_ragged_array(res.distances, Larr)
            a = mpi.ops.assemble_striped_ragged_array(res.assignments, Larr)
            c = mpi.ops.convert_local_indices(res.center_indices, Larr)
            outs.append((to_int_list(c), to_int_list(a), [float(x) for x in d]))
        same = before == (first.assignments.tobytes(), first.distances.tobytes(), loc.tobytes())
        return outs, same
    out = run_ranks(w, fn, jit_seed=case['jit'])

    def finish(resps):
        ctx.case(case, nontrivial=out.ok, tags=['warm-start-from-returned-ndarrays', 'w=%d' % w,
                                                'warm-centers:' + case['centers'], 'model-skipped-call-history'] +
                 (['warm-scale:2^%d' % case['scale_exp']] if case['scale_exp'] else []))
        if not out.ok:
            ctx.violation('kcenters(mpi) -> kmedoids(mpi, warm start from the returned arrays) failed: %s'
                          % out.describe(), case)
            return
        for r, (outs, same) in enumerate(out.results):
            for rep, got in enumerate(outs):
                if got != exp:
                    ctx.violation('rank %d: warm-started distributed k-medoids (call %d on the same arrays) differs '
                                  'from serial k-medoids with the same proposals' % (r, rep + 1), case)
                    return
            if not same:
                ctx.tag('warm-start-inputs-modified')      # not part of the property; the second call checks the effect
        if exp[0] != c0:
            ctx.tag('pam-accepted-a-proposal')
    return [], finish


def gen_init(rng):
    w = int(rng.integers(2, 6))
    L, mode = gen_lengths(rng, w, extra_max=3, lmax=4)
    N = sum(L)
    k0 = int(rng.integers(1, min(N, 4) + 1))
    return {'kind': 'kcenters-init', 'w': w, 'L': L, 'dseed': int(rng.integers(0, 2 ** 31)),
            'init': sorted(int(x) for x in rng.choice(N, size=k0, replace=False)),
            'k': k0 + int(rng.integers(0, 3)), 'jit': int(rng.integers(0, 2 ** 31)), 'mode': mode}


def prep_init(ctx, case):
    """kcenters(mpi_mode=True, init_centers=frames of the data) against the serial run with the same centers"""
    quiet()
    from enspara.cluster import kcenters
    from enspara import mpi
    w, L, k, init = case['w'], case['L'], case['k'], case['init']
    N = sum(L)
    D = table(N, case['dseed'])
    metric = make_metric(D)
    X = np.arange(N, dtype=float).reshape(-1, 1)
    Larr = np.array(L, dtype=int)
    ser = kcenters.kcenters(X.copy(), metric, n_clusters=k, init_centers=X[init].copy())
    exp = (to_int_list(ser.center_indices), to_int_list(ser.assignments), [float(x) for x in ser.distances])

    def fn(r):
        res = kcenters.kcenters(X[local_ids(w, L, r)].copy(), metric, n_clusters=k, init_centers=X[init].copy(),
                                mpi_mode=True)
        d = mpi.ops.assemble_striped_ragged_array(res.distances, Larr)
        a = mpi.ops.assemble_striped_ragged_array(res.assignments, Larr)
        pairs = all(hasattr(c, '__len__') and len(c) == 2 for c in res.center_indices)
        c = to_int_list(mpi.ops.convert_local_indices(res.center_indices, Larr)) if pairs else None
        return c, to_int_list(a), [float(x) for x in d]
    out = run_ranks(w, fn, jit_seed=case['jit'], timeout=4.0)

    def finish(resps):
        ctx.case(case, nontrivial=out.ok, tags=['kcenters-init-centers', 'w=%d' % w, 'model-skipped-init-centers'])
        key = 'kcenters-mpi-init-centers'
        if out.deadlock:
            ctx.violation('kcenters(mpi_mode=True, init_centers=...): the ranks disagree on the number of centers '
                          'and wait for each other (deadlock)', case, key=key)
            return
        if not out.ok:
            ctx.violation('kcenters(mpi_mode=True, init_centers=...) failed: %s' % out.describe(), case, key=key)
            return
        for r, (c, a, d) in enumerate(out.results):
            if c is None:
                ctx.violation('kcenters(mpi_mode=True, init_centers=...): center_indices holds rank-local flat '
                              'indices for the initial centers, not (rank, index) pairs', case, key=key)
                return
            if (c, a, d) != exp:
                ctx.violation('kcenters(mpi_mode=True, init_centers=...): rank %d differs from the serial run' % r,
                              case, key=key)
                return
    return [], finish


# ----------------------------------------------------------------------------- driver glue

PREP = {'kcenters': prep_kcenters, 'hybrid': prep_hybrid, 'pam': prep_pam, 'pam-model': prep_pam_model,
        'kmedoids-cold': prep_cold,
        'assemble-array': prep_assemble_array, 'assemble-ragged': prep_assemble_ragged,
        'convert': prep_convert, 'maxmean': prep_maxmean, 'randind': prep_randind,
        'distribute': prep_distribute, 'load': prep_load, 'load-oldstyle': prep_load_oldstyle,
        'kcenters-big': prep_kcenters_big, 'ragged-variety': prep_ragged_variety,
        'array-variety': prep_array_variety, 'convert-variety': prep_convert_variety,
        'reduce-variety': prep_reduce_variety, 'randind-big': prep_randind_big,
        'distribute-variety': prep_distribute_variety, 'warm-ndarray': prep_warm, 'kcenters-init': prep_init}

FIXED = [
    # the layout that used to break assemble_striped_ragged_array (a rank owning >= 2 equal-length rows)
    {'kind': 'kcenters', 'w': 4, 'L': [3, 5, 2, 4, 1, 6, 2], 'dseed': 11, 'k': 5, 'cutoff': 0,
     'api': 'func', 'jit': 1, 'mode': 'fixed'},
    {'kind': 'assemble-ragged', 'w': 4, 'L': [3, 5, 2, 4, 1, 6, 2], 'xs': list(range(23)), 'dtype': 'int',
     'bad': None, 'jit': 2},
    {'kind': 'assemble-ragged', 'w': 2, 'L': [2, 3, 2, 3], 'xs': [x / 2.0 for x in range(10)], 'dtype': 'float',
     'bad': None, 'jit': 3},
    # more ranks than trajectories
    {'kind': 'kcenters', 'w': 8, 'L': [3, 5, 2, 4, 1, 6, 2], 'dseed': 11, 'k': 3, 'cutoff': 0,
     'api': 'func', 'jit': 4, 'mode': 'fixed'},
    # every rank owns exactly one single-frame trajectory
    {'kind': 'kcenters', 'w': 8, 'L': [1] * 8, 'dseed': 5, 'k': 8, 'cutoff': 0, 'api': 'func', 'jit': 5,
     'mode': 'fixed'},
    {'kind': 'kcenters', 'w': 1, 'L': [4], 'dseed': 6, 'k': 2, 'cutoff': 0, 'api': 'class', 'jit': 6,
     'mode': 'fixed'},
    {'kind': 'kmedoids-cold', 'w': 3, 'L': [3, 2, 4, 2], 'dseed': 7, 'k': 2, 'rseed': 3, 'jit': 7},
    {'kind': 'load-oldstyle', 'w': 2, 'jit': 8},
    {'kind': 'load-oldstyle', 'w': 1, 'jit': 9},
    {'kind': 'pam', 'w': 3, 'L': [3, 2, 4, 2], 'dseed': 8, 'k': 3, 'iters': 2, 'pseed': 1, 'form': 'flat',
     'props': 'member', 'jit': 10, 'mode': 'fixed'},
    {'kind': 'pam', 'w': 2, 'L': [3, 3, 3, 3], 'dseed': 9, 'k': 3, 'iters': 2, 'pseed': 2, 'form': 'flat',
     'props': 'member', 'jit': 11, 'mode': 'fixed'},
    # distributed PAM against Model/MpiPam.lean: explicit proposals on a layout where rank 0 owns two
    # trajectories; randind proposals; one rank per trajectory
    {'kind': 'pam-model', 'w': 3, 'L': [3, 2, 4, 2], 'dseed': 8, 'k': 3, 'iters': 2, 'pseed': 1, 'form': 'pairs',
     'start': 'kcenters', 'props': 'member', 'jit': 15, 'mode': 'fixed'},
    {'kind': 'pam-model', 'w': 2, 'L': [3, 3, 3, 3], 'dseed': 9, 'k': 3, 'iters': 2, 'pseed': 2, 'form': 'flat',
     'start': 'kcenters', 'props': 'random', 'jit': 16, 'mode': 'fixed'},
    {'kind': 'pam-model', 'w': 4, 'L': [2, 1, 3, 2], 'dseed': 10, 'k': 4, 'iters': 1, 'pseed': 3, 'form': 'pairs',
     'start': 'arbitrary', 'props': 'any', 'jit': 17, 'mode': 'fixed'},
    {'kind': 'maxmean', 'locals': [[-1.0], [-5.0]], 'jit': 12},
    {'kind': 'load', 'w': 2, 'L': [3, 5, 2], 'dim': 2, 'stride': 2, 'fmt': 'h5', 'jit': 13},
    {'kind': 'load', 'w': 2, 'L': [3, 5, 2], 'dim': 2, 'stride': 2, 'fmt': 'npy', 'jit': 14},
]


def run_cases(ctx, cases):
    pend, reqs = [], []
    for c in cases:
        try:
            rq, fin = PREP[c['kind']](ctx, c)
        except Exception as e:  # noqa  -- the serial reference run (main thread) raised
            ctx.case(c, nontrivial=False, tags=['reference-run-raised'])
            ctx.violation('the serial reference computation of a %s case raised %s: %s'
                          % (c['kind'], type(e).__name__, str(e)[:200]), c)
            continue
        pend.append((len(rq), fin))
        reqs += rq
    resps = ctx.driver(reqs)
    i = 0
    for n, fin in pend:
        fin(resps[i:i + n])
        i += n


def run(ctx):
    rng = ctx.rng
    t0 = time.time()
    stripe_scope(ctx)
    cases = [dict(c) for c in FIXED]
    # every world size at least once for the clustering
    for w in range(1, 9):
        cases.append(gen_kcenters(rng, w=w))
    cases += [gen_kcenters(rng) for _ in range(ctx.n(90, 1200))]
    cases += [gen_hybrid(rng) for _ in range(ctx.n(25, 300))]
    cases += [gen_pam(rng) for _ in range(ctx.n(25, 300))]
    cases += [gen_pam_model(rng) for _ in range(ctx.n(40, 500))]
    cases += [gen_assemble_array(rng) for _ in range(ctx.n(60, 600))]
    cases += [gen_assemble_ragged(rng) for _ in range(ctx.n(80, 800))]
    cases += [gen_convert(rng) for _ in range(ctx.n(30, 400))]
    cases += [gen_maxmean(rng) for _ in range(ctx.n(80, 800))]
    cases += [gen_randind(rng) for _ in range(ctx.n(30, 300))]
    cases += [gen_distribute(rng) for _ in range(ctx.n(60, 500))]
    cases += [gen_load(rng) for _ in range(ctx.n(30, 300))]
    # --- blind-spot families: sizes past 255 / 65535, dtypes and containers, sign / scale, reuse, warm starts
    cases += [gen_load(rng, many=12) for _ in range(ctx.n(3, 30))]
    cases += [gen_load(rng, many=101) for _ in range(ctx.n(1, 8))]
    for size, nq, nt in (('local>255', 3, 40), ('k>255', 1, 8), ('local>65535', 1, 10)):
        cases += [gen_kcenters_big(rng, size) for _ in range(ctx.n(nq, nt))]
    cases += [gen_ragged_variety(rng) for _ in range(ctx.n(30, 300))]
    cases += [gen_array_variety(rng) for _ in range(ctx.n(15, 200))]
    cases += [gen_convert_variety(rng) for _ in range(ctx.n(12, 200))]
    cases += [gen_reduce_variety(rng) for _ in range(ctx.n(40, 400))]
    cases += [gen_distribute_variety(rng) for _ in range(ctx.n(30, 250))]
    for big, nq, nt in ((255, 2, 20), (65535, 1, 8)):
        cases += [gen_ragged_variety(rng, big) for _ in range(ctx.n(nq, nt))]
        cases += [gen_array_variety(rng, big) for _ in range(ctx.n(nq, nt))]
        cases += [gen_convert_variety(rng, big) for _ in range(ctx.n(nq, nt))]
        cases += [gen_reduce_variety(rng, big) for _ in range(ctx.n(nq, nt))]
        cases += [gen_randind_big(rng, big) for _ in range(ctx.n(nq, nt))]
        cases += [gen_distribute_variety(rng, big) for _ in range(ctx.n(nq, nt))]
    cases += [gen_warm(rng) for _ in range(ctx.n(10, 120))]
    cases += [gen_init(rng) for _ in range(ctx.n(3, 12))]
    run_cases(ctx, cases)
    ctx.note('arrival_order_modes', {'random': JIT_MODES.get(0, 0) + JIT_MODES.get(1, 0),
                                     'highest-rank-first': JIT_MODES.get(2, 0), 'one-straggler': JIT_MODES.get(3, 0)})
    ctx.note('wall_correspondence_s', round(time.time() - t0, 1))


def replay(ctx, case):
    if case.get('kind') == 'stripe':
        r = ctx.driver([{k: case[k] for k in ('op', 'w', 'n', 'r')}])[0]
        if r.get('ok') != list(range(case['n']))[case['r']::case['w']]:
            ctx.disagreement('Model.Mpi.stripe vs Python xs[r::w]', case)
        return
    run_cases(ctx, [case])
