"""C13 - distance kernels (libdist.euclidean / manhattan / hamming) are exact for every dtype,
memory layout and thread count; malformed arguments raise.

The real code runs in a separate worker process (this same file with --worker): a crash of the
compiled kernels is then an observation (-> VIOLATION), not a harness failure.
"""
import ast
import hashlib
import math
import os
import re
from fractions import Fraction

RULE = ('systematic sweep kernel x element type (all members of the fused lists + bool/S1) x X layout '
        '(C, Fortran, every-other row/column, reversed, random start/step +-1..3 views of C/F bases inside '
        'poisoned memory) with y layout (contiguous/strided/reversed), out mode (none/contiguous/strided/'
        'reversed view of a garbage buffer incl. NaN/inf), OpenMP thread count 1..16 and value class '
        '(small, dtype extremes, huge same-sign, mid, overflowing, quarters, general floats, floats scaled to '
        '1e+-150 (1e+-15 for float32) and beyond the square range, 0-2 ulp from y, signed zeros, NaN/inf rows, rows '
        'equal to y) cycling, read-only X / y and np.matrix X at random, plus '
        'random combinations, sizes 0/1/few/70 rows, every thread count on 40-120 row problems, large '
        '(2000-6000 rows) problems under all 16 thread counts repeated; shape sweep at fast-path thresholds '
        '(few very wide rows n in 1,2,3,7,15 x w 1023..65536, 20000-300000 rows of width 1-2, n around the '
        'thread count, n*w in the millions) with threads 1,2,4,8,16 x 3 repetitions, bit-compared with the '
        '1-thread result and the exact value; malformed stream: wrong ranks, width '
        'mismatches, out of wrong dtype/length/rank/0-d/read-only, mixed / unsupported / byte-swapped dtypes. '
        'call sequences on shared memories: y = a row of X (also through _get_distance_method by name / by callable), '
        'y a strided view of X\'s buffer, zero-stride broadcast X / y, one out buffer reused with different n and '
        'positionally, the same argument objects three times, out overlapping X or y (memory safety only), earlier '
        'results re-read at the end; malformed also: lists / tuples, byte-swapped y / out. '
        'A valid case is non-trivial when n>0 and w>0; distinct by canonical input.')
ASSUMPTIONS = [
    'float rows whose difference or square leaves the normal range of the element format (1e+-200 doubles, 1e+-25 '
    'singles: the square under/overflows in pow/powf) and rows containing NaN/inf are not judged (skipped and counted): '
    'the property is read as the float64 evaluation of the norm, not as a rescaled (hypot-like) algorithm; all other rows of '
    'the same call are judged, with a tolerance relative to the value itself (never absolute)',
    'an out buffer overlapping X or y is outside the property for the values; only shape, no crash and no write outside '
    'out are checked there',
    'float rounding is not modelled: results are compared bit-for-bit only when the exact evaluation involves no '
    'rounding (integer-valued / dyadic inputs, all partial sums representable; sqrt correctly rounded), otherwise '
    'within 1e-12 relative (1e-5 for float32 data, whose differences and squares are formed in single precision)',
    'signed C overflow is undefined behaviour; the model predicts two\'s-complement wrap-around (what gcc -O2 emits '
    'here). Rows whose input overflows are compared with the model only when the real result is not exact '
    '(so a repaired kernel passes), and a row that differs from both is tagged, not reported',
    'numpy hands out arrays whose (offset, shape, strides) stay inside their buffer (Arr.extentOk)',
    'bool buffers are accepted by the hamming kernel as uint8 and S1 buffers as int8 (Cython buffer-format '
    'coercion, observed; outside the property\'s quantifier, exercised lightly)',
    'an out array aliasing itself (as_strided stride 0) is outside the property (model: bad-request)',
    'threadpoolctl.threadpool_limits(user_api="openmp") sets the libgomp team size used by prange '
    '(observed values recorded in the evidence)',
]
MIRRORS = [('enspara/geometry/libdist.pyx', None), ('enspara/cluster/util.py', ['_get_distance_method'])]
TRUSTED_EXTRA = ['Cython/gcc/libgomp compile the nogil prange bodies as written (the model is of the .pyx source; '
                 'the runs and, in the thorough tier, valgrind memcheck sample the compiled object)']


# ----------------------------------------------------------------------------------------
# translator: libdist.pyx / cluster/util.py -> lean/Model/Generated/FusedTypes.lean
#
# The generated file holds a NORMALISED structure of the source, so that renames, comments,
# docstrings, message texts, declaration order, `while` counting loops, one `with nogil:` around
# several pranges, `noexcept nogil` qualifiers and chains of private helpers do not change it,
# while anything that changes what is computed (loop structure, index expressions, the arithmetic
# type of a temporary, buffer options, validation predicates, extra statements) does.
# The translator never raises: what it does not recognise becomes an `unrecognised: ...` entry,
# which makes the Lean obligation fail readably.
# ----------------------------------------------------------------------------------------

_IDENT = r'[A-Za-z_]\w*'
_WIDE = ('long', 'Py_ssize_t', 'ssize_t', 'size_t', 'double', 'long long', '')
_WIDE_INT = ('long', 'Py_ssize_t', 'ssize_t', 'size_t', 'long long')


def _strip_comment(line):
    out, q, i = [], None, 0
    while i < len(line):
        c = line[i]
        if q:
            out.append(c)
            if c == '\\' and i + 1 < len(line):
                out.append(line[i + 1])
                i += 1
            elif c == q:
                q = None
        elif c in '"\'':
            q = c
            out.append(c)
        elif c == '#':
            break
        else:
            out.append(c)
        i += 1
    return ''.join(out).rstrip()


def _logical_lines(text):
    """(indent, statement) with comments, blank lines and docstrings removed, continuation lines joined,
    runs of blanks collapsed"""
    text = re.sub(r'(?s)(^|\n)([ \t]*)[rRbBuU]?("""|\'\'\')(.*?)\3[ \t]*(?=\n|$)',
                  lambda m: m.group(1), text)              # docstrings / bare triple-quoted strings
    res, buf, depth, ind = [], '', 0, 0
    for raw in text.split('\n'):
        line = _strip_comment(raw)
        if not line.strip() and depth == 0:
            continue
        if depth == 0:
            ind = len(line) - len(line.lstrip(' \t'))
            buf = line.strip()
        else:
            buf += ' ' + line.strip()
        q = None
        depth = 0
        for c in buf:
            if q:
                if c == q:
                    q = None
            elif c in '"\'':
                q = c
            elif c in '([{':
                depth += 1
            elif c in ')]}':
                depth -= 1
        if buf.endswith('\\'):
            buf = buf[:-1]
            depth = max(depth, 1)
            continue
        if depth <= 0:
            depth = 0
            res.append((ind, re.sub(r'\s+', ' ', buf)))
            buf = ''
    return res


def _split_top(s, sep):
    parts, depth, cur, q, i = [], 0, '', None, 0
    while i < len(s):
        c = s[i]
        if q:
            cur += c
            if c == q:
                q = None
        elif c in '"\'':
            q = c
            cur += c
        elif c in '([{':
            depth += 1
            cur += c
        elif c in ')]}':
            depth -= 1
            cur += c
        elif depth == 0 and s.startswith(sep, i):
            parts.append(cur)
            cur = ''
            i += len(sep)
            continue
        else:
            cur += c
        i += 1
    parts.append(cur)
    return parts


def _unparen(e):
    """drop redundant parentheses around a whole expression"""
    e = e.strip()
    while e.startswith('(') and e.endswith(')'):
        depth, ok = 0, True
        for i, c in enumerate(e):
            depth += {'(': 1, '[': 1, '{': 1, ')': -1, ']': -1, '}': -1}.get(c, 0)
            if depth == 0 and i < len(e) - 1:
                ok = False
                break
        if not ok:
            break
        e = e[1:-1].strip()
    return e


def _subst(expr, env):
    """identifiers replaced through env; spacing, quote style, trailing commas and redundant outer
    parentheses normalised"""
    expr = _unparen(expr)

    def rep(m):
        if m.start() > 0 and expr[m.start() - 1] == '.':
            return m.group(0)
        return env.get(m.group(0), m.group(0))
    out = re.sub(r'\b%s\b' % _IDENT, rep, expr)
    out = re.sub(r'\s+(?=[^\w])|(?<=[^\w])\s+', '', out)      # blanks only survive between two words
    out = re.sub(r',(?=[)\]}])', '', out)                       # trailing commas
    out = re.sub(r'"([^"\'\\]*)"', r"'\1'", out)               # quote style
    return out


def _flat(s):
    while re.search(r'\[[^\[\]]*\]|\([^()]*\)', s):
        s = re.sub(r'\[[^\[\]]*\]|\([^()]*\)', '', s)
    return s


def _module_directives(src):
    """`# cython: a=b, c=d` directive comments (they apply to every function of the file)"""
    out = []
    for ln in src.split('\n'):
        m = re.match(r'^\s*#\s*cython\s*:\s*(.*)$', ln)
        if m:
            out += [d.strip().replace(' ', '') for d in m.group(1).split(',') if d.strip()]
        m = re.match(r'^\s*#\s*distutils\s*:\s*(.*)$', ln)
        if m:
            out.append('distutils:' + m.group(1).strip().replace(' ', ''))
    return sorted(out)


def _function_block(src, name):
    """(decorators, signature text, body text) of a top-level def"""
    m = re.search(r'(?m)^((?:@[^\n]*\n)*)def\s+%s\s*\(' % re.escape(name), src)
    if not m:
        return None, None, None
    decos = [d.strip()[1:] for d in m.group(1).split('\n') if d.strip()]
    i, depth = m.end(), 1
    while i < len(src) and depth:
        depth += {'(': 1, '[': 1, ')': -1, ']': -1}.get(src[i], 0)
        i += 1
    sig = src[m.end():i - 1]
    j = src.index(':', i) + 1
    rest = src[j:]
    e = re.search(r'(?m)^(?=[^\s#])', rest[1:] if rest.startswith('\n') else rest)
    body = rest[:(e.start() + (1 if rest.startswith('\n') else 0))] if e else rest
    return decos, sig, body


def normalise_kernel(src, name):
    """normalised description of one compiled kernel, as a list of tagged strings:
      dec:<decorator>                   (sorted)
      arg:<ROLE>:<element type>:<ndim>[:<other buffer options>]     ROLE = X, Y, OUT by position
      guard:<asserted expression>       (sorted; messages dropped; parameters by role, scalars inlined)
      loop:<depth>|<kind>|<bound>       in order; kind = prange (GIL released), range, or the spelled-out other form;
                                        `v = 0; while v < n: ...; v = v + 1` is a range loop
      write:<depth>|<condition>|<array>[<index>]<op><expression>    in order; loop variables are L0, L1 by nesting depth;
                                        a typed temporary holding an arithmetic result appears as `<type>(...)`
      ret:<returned expression>
      unrecognised: ...                 every statement that was not understood"""
    res = []
    try:
        decos, sig, body = _function_block(src, name)
        if sig is None:
            return ['unrecognised: no function %s' % name]
        for d in sorted(re.sub(r'\s+', '', d).replace('cython.', '') for d in decos):
            res.append('dec:' + d)
        for d in _module_directives(src):
            res.append('dec:module:' + d)
        params = [p.strip() for p in _split_top(re.sub(r'\s+', ' ', sig), ',') if p.strip()]
        roles = ['X', 'Y', 'OUT']
        env, types = {}, {}
        if len(params) != 3:
            res.append('unrecognised: %d parameters' % len(params))
        for role, p in zip(roles, params):
            m = re.match(r'^np\.ndarray\[(.*)\]\s*(%s)$' % _IDENT, p)
            if not m:
                res.append('unrecognised: parameter ' + p)
                continue
            opts = [o.strip().replace(' ', '').replace('"', "'") for o in _split_top(m.group(1), ',') if o.strip()]
            et = re.sub(r'^(?:np|numpy|cnp)\.(\w+?)_t$', r'\1', opts[0])
            nd = [o.split('=')[1] for o in opts[1:] if o.startswith('ndim=')]
            other = sorted(o for o in opts[1:] if not o.startswith('ndim='))
            res.append('arg:%s:%s:%s%s' % (role, et, nd[0] if nd else '?', (':' + ','.join(other)) if other else ''))
            env[m.group(2)] = role
        guards, stack, pending_zero, loopvars = [], [], set(), set()
        seen_loop = [False]

        def close_to(indent):
            while stack and stack[-1]['indent'] >= indent:
                blk = stack.pop()
                if blk['kind'] == 'while' and not blk['incremented']:
                    res.append('unrecognised: while loop over %s without final increment' % blk['var'])

        def temp(nm, rhs, typ):
            # only size / bound scalars (len(A), A.shape[k], A.strides[k]) are inlined bare; a temporary that
            # holds an array element or arithmetic keeps its declared type: `<type>(...)` (a conversion)
            r = _subst(rhs, env)
            size = re.match(r'^(len\(\w+\)|\w+\.(shape|strides)\[\d+\])$', r) is not None
            t = (typ or '').strip()
            if size and t in _WIDE:
                env[nm] = r
            elif t:
                env[nm] = '<%s>(%s)' % (_subst(t, env).replace(' ', ''), r)
            else:
                env[nm] = '(%s)' % r

        def idx_tag(nm, d):
            # declared type of a loop variable: anything other than a long-wide integer is visible
            t = types.get(nm, 'untyped').strip()
            if t not in _WIDE_INT:
                res.append('idx:L%d:%s' % (d, t.replace(' ', '')))

        lines = _logical_lines(body)
        prev_indent_else = {}
        for indent, st in lines:
            close_to(indent)
            depth = sum(1 for b in stack if b['kind'] in ('for', 'while'))
            nogil = any(b['kind'] == 'nogil' for b in stack)
            cond = '&'.join(b['cond'] for b in stack if b['kind'] == 'if')
            wh = next((b for b in reversed(stack) if b['kind'] == 'while'), None)
            if wh is not None and wh.get('incremented'):
                res.append('unrecognised: statement after the increment of a counting loop: ' + st)
            m = re.match(r'^assert (.*)$', st)
            if m:
                parts = _split_top(m.group(1), ',')
                expr = ','.join(parts[:-1]) if len(parts) > 1 and re.match(r'^\s*[rbuf]*["\']', parts[-1]) \
                    else m.group(1)
                for g in _split_top(expr, ' and '):
                    g = _subst(g.strip(), env)
                    guards.append(('@post:' if seen_loop[0] else '@pre:') + ((cond + '=>' + g) if cond else g))
                continue
            m = re.match(r'^with (cython\..*):$', st)
            if m:
                res.append('dec:with:' + m.group(1).replace(' ', '').replace('cython.', ''))
                stack.append({'indent': indent, 'kind': 'ctx'})
                continue
            if st == 'with nogil:':
                stack.append({'indent': indent, 'kind': 'nogil'})
                continue
            m = re.match(r'^if (.*):$', st)
            if m:
                c = _subst(m.group(1), env)
                stack.append({'indent': indent, 'kind': 'if', 'cond': c})
                prev_indent_else[indent] = c
                continue
            if st == 'else:' and indent in prev_indent_else:
                stack.append({'indent': indent, 'kind': 'if', 'cond': 'not(%s)' % prev_indent_else.pop(indent)})
                continue
            m = re.match(r'^for (%s) in (prange|range)\((.*)\):$' % _IDENT, st)
            if m:
                args = [x.strip() for x in _split_top(m.group(3), ',')]
                kind = m.group(2)
                if kind == 'prange':
                    kw = sorted(a.replace(' ', '') for a in args[1:])
                    if kw == ['nogil=True'] and not nogil:
                        kind = 'prange'
                    elif kw == [] and nogil:
                        kind = 'prange'
                    else:
                        kind = 'prange(%s%s)' % (','.join(kw), ';inside-nogil' if nogil else '')
                elif len(args) != 1:
                    kind = 'range/%d' % len(args)
                res.append('loop:%d|%s|%s' % (depth, kind, _subst(args[0], env)))
                idx_tag(m.group(1), depth)
                seen_loop[0] = True
                env[m.group(1)] = 'L%d' % depth
                loopvars.add(m.group(1))
                pending_zero.discard(m.group(1))
                stack.append({'indent': indent, 'kind': 'for', 'var': m.group(1)})
                continue
            m = re.match(r'^while (%s) ?< ?(.*):$' % _IDENT, st)
            if m and m.group(1) in pending_zero:
                pending_zero.discard(m.group(1))
                res.append('loop:%d|range|%s' % (depth, _subst(m.group(2), env)))
                idx_tag(m.group(1), depth)
                seen_loop[0] = True
                env[m.group(1)] = 'L%d' % depth
                loopvars.add(m.group(1))
                stack.append({'indent': indent, 'kind': 'while', 'var': m.group(1), 'incremented': False})
                continue
            m = re.match(r'^cdef (.*)$', st)
            if m:
                decl = m.group(1)
                first = _split_top(decl, ',')[0]
                lhs0 = _split_top(first, '=')[0].strip()
                tm = re.match(r'^(.*?)(%s)$' % _IDENT, lhs0)
                typ = tm.group(1).strip() if tm else ''
                ok = bool(tm)
                for k, piece in enumerate(_split_top(decl, ',')):
                    piece = piece.strip()
                    if k == 0:
                        piece = piece[len(typ):].strip()
                    nm, _, rhs = [x.strip() for x in (piece.partition('='))]
                    stars = len(nm) - len(nm.lstrip('*'))
                    nm = nm.lstrip('* ')
                    if not re.match(r'^%s$' % _IDENT, nm):
                        ok = False
                        break
                    t = typ + '*' * stars
                    types[nm] = t
                    if rhs:
                        if rhs == '0':
                            pending_zero.add(nm)
                            env.pop(nm, None)
                        else:
                            temp(nm, rhs, t)
                if not ok:
                    res.append('unrecognised: ' + st)
                continue
            m = re.match(r'^(%s) ?= ?(.*)$' % _IDENT, st)
            if m and not st.startswith(('return ',)):
                nm, rhs = m.group(1), m.group(2)
                if wh is not None and nm == wh['var'] and rhs.replace(' ', '') in (nm + '+1', '1+' + nm):
                    wh['incremented'] = True
                    continue
                if rhs.strip() == '0' and nm not in ('X', 'Y', 'OUT'):
                    pending_zero.add(nm)
                    env.pop(nm, None)
                    continue
                temp(nm, rhs, types.get(nm, ''))
                continue
            m = re.match(r'^(%s) ?\+= ?1$' % _IDENT, st)
            if m and wh is not None and m.group(1) == wh['var']:
                wh['incremented'] = True
                continue
            m = re.match(r'^(%s)\[(.*?)\] ?(\+=|-=|\*=|/=|//=|=) ?(.*)$' % _IDENT, st)
            if m:
                res.append('write:%d|%s|%s[%s]%s%s' % (depth, cond, _subst(m.group(1), env), _subst(m.group(2), env),
                                                       m.group(3), _subst(m.group(4), env)))
                continue
            m = re.match(r'^return (.*)$', st)
            if m:
                res.append('ret:' + _subst(m.group(1), env))
                continue
            res.append('unrecognised: ' + st)
        close_to(0)
        for z in sorted(pending_zero - loopvars):
            res.append('unrecognised: %s = 0 (never used as a counter)' % z)
        res += ['guard' + g for g in sorted(set(guards))]
    except Exception as e:  # noqa  (never raise: the obligation then fails readably)
        res.append('unrecognised: translator error %s: %s' % (type(e).__name__, str(e)[:80]))
    order = {'dec': 0, 'arg': 1, 'guard@pre': 2, 'guard@post': 2, 'loop': 3, 'write': 3, 'idx': 3, 'ret': 4}
    return sorted(res, key=lambda s: order.get(s.split(':', 1)[0], 5)) if res else res


# ---- python-level part: what a public wrapper does before / around the kernel call ----------

class _Names(ast.NodeTransformer):
    def __init__(self, env):
        self.env = env

    def visit_Name(self, node):
        v = self.env.get(node.id)
        if v is None:
            return node
        return ast.parse(v, mode='eval').body


def _expr(node, env):
    node = _Names(env).visit(ast.parse(ast.unparse(node), mode='eval').body)
    return ast.unparse(node)


def _plain_functions(src):
    """name -> ast.FunctionDef for the top-level `def`s that are plain Python (no typed buffers)"""
    res = {}
    for m in re.finditer(r'(?m)^def\s+(%s)\s*\(' % _IDENT, src):
        decos, sig, body = _function_block(src, m.group(1))
        if sig is None or 'np.ndarray[' in sig:
            continue
        try:
            tree = ast.parse('def %s(%s):%s' % (m.group(1), sig, body if body.strip() else ' pass'))
            res[m.group(1)] = tree.body[0]
        except SyntaxError:
            pass
    return res


def trace_wrapper(src, name, kernels):
    """ordered events of a public wrapper, helper calls resolved transitively (any helper names), messages dropped:
      raise|<exception>[%raw:<expr>]|<path condition>|<condition>     a validation predicate
      call|<kernel>(<arguments>)                                      the compiled kernel is entered
      return|<expression>
    Re-bindings of the arguments are followed symbolically and show up in the call / return expressions.
    `%raw:e` marks a message built as `"...%s" % e.shape` (a bare tuple operand: raises TypeError for ndim != 1)."""
    events = []
    try:
        funcs = _plain_functions(src)
        if name not in funcs:
            return ['unrecognised: no plain function %s' % name]

        def exc_name(node):
            f = node.func if isinstance(node, ast.Call) else node
            nm = f.attr if isinstance(f, ast.Attribute) else getattr(f, 'id', ast.unparse(f))
            raw = ''
            if isinstance(node, ast.Call) and node.args:
                a = node.args[0]
                if isinstance(a, ast.BinOp) and isinstance(a.op, ast.Mod):
                    r = a.right
                    safe = isinstance(r, ast.Tuple) or (isinstance(r, ast.Call) and getattr(r.func, 'id', '') in
                                                        ('str', 'repr', 'int', 'float', 'len'))
                    if not safe and ast.unparse(r).endswith('.shape'):     # a tuple-valued operand
                        raw = r
            return nm, raw

        def run(fn, argvals, path, depth):
            """returns list of (path condition, value) the call may return (None value = falls off the end)"""
            if depth > 8:
                events.append('unrecognised: helper recursion too deep in ' + fn.name)
                return []
            params = [a.arg for a in fn.args.args]
            env = dict(zip(params, argvals))
            for a, d in zip(params[len(params) - len(fn.args.defaults):], fn.args.defaults):
                env.setdefault(a, ast.unparse(d))
            rets = []
            block(fn.body, env, path, rets, depth, fn.name)
            return rets

        def conj(path, c):
            return (path + ' and ' + c) if path else c

        def call_value(node, env, path, depth):
            """symbolic value of an expression that may be a call to a plain helper / kernel"""
            if isinstance(node, ast.Call):
                fname = node.func.id if isinstance(node.func, ast.Name) else None
                target = env.get(fname, fname) if fname else None
                args = [_expr(a, env) for a in node.args]
                if target in kernels and not node.keywords:
                    events.append('call|%s(%s)' % (target, ', '.join(args)))
                    return '<result of %s>' % target
                if target in funcs and not node.keywords:
                    rets = run(funcs[target], args, path, depth + 1)
                    vals = [(p, v) for p, v in rets if v is not None]
                    if not vals:
                        return 'None'
                    if len(set(v for _, v in vals)) == 1:
                        return vals[0][1]
                    # conditional value: (A if c else B), the last alternative is the default
                    out = vals[-1][1]
                    for p, v in reversed(vals[:-1]):
                        local = p[len(path):].lstrip() if path and p.startswith(path) else p
                        local = local[4:] if local.startswith('and ') else local
                        out = '(%s if %s else %s)' % (v, local, out)
                    return out
            return _expr(node, env)

        def block(stmts, env, path, rets, depth, fname):
            for k, st in enumerate(stmts):
                if isinstance(st, ast.Expr) and isinstance(st.value, ast.Constant):
                    continue
                if isinstance(st, ast.Pass):
                    continue
                if isinstance(st, ast.Expr) and isinstance(st.value, ast.Call):
                    fnm = st.value.func.id if isinstance(st.value.func, ast.Name) else None
                    tgt = env.get(fnm, fnm) if fnm else None
                    if (tgt in kernels or tgt in funcs) and not st.value.keywords:
                        call_value(st.value, env, path, depth)
                    else:       # any other call made for its effect (y.sort(), np.abs(X, out=X), ...)
                        events.append('effect|%s|%s' % (path, _expr(st.value, env)))
                    continue
                if isinstance(st, ast.Expr):
                    events.append('effect|%s|%s' % (path, _expr(st.value, env)))
                    continue
                if isinstance(st, ast.Raise) and st.exc is not None:
                    nm, raw = exc_name(st.exc)
                    events.append('raise|%s%s|%s|always' % (nm, ('%raw:' + _expr(raw, env)) if raw != '' else '', path))
                    return 'stop'
                if isinstance(st, ast.Return):
                    rets.append((path, call_value(st.value, env, path, depth) if st.value is not None else 'None'))
                    return 'stop'
                if isinstance(st, ast.Assign) and len(st.targets) == 1:
                    t = st.targets[0]
                    if isinstance(t, ast.Name):
                        # bindings are tracked symbolically: what an argument was replaced by shows up in the
                        # kernel call and in the returned expression
                        env[t.id] = call_value(st.value, env, path, depth)
                        continue
                    if isinstance(t, ast.Tuple) and all(isinstance(e, ast.Name) for e in t.elts) \
                            and not isinstance(st.value, ast.Call):
                        base = _expr(st.value, env)
                        for i2, e in enumerate(t.elts):
                            env[e.id] = '%s[%d]' % (base, i2)
                        continue
                if isinstance(st, ast.If):
                    c = _expr(st.test, env)
                    # `if c: raise E` is a validation predicate
                    if len(st.body) == 1 and isinstance(st.body[0], ast.Raise) and not st.orelse \
                            and st.body[0].exc is not None:
                        nm, raw = exc_name(st.body[0].exc)
                        events.append('raise|%s%s|%s|%s' % (nm, ('%raw:' + _expr(raw, env)) if raw != '' else '', path, c))
                        continue
                    env1, env2 = dict(env), dict(env)
                    r1 = block(st.body, env1, conj(path, c), rets, depth, fname)
                    r2 = block(st.orelse, env2, conj(path, 'not (%s)' % c), rets, depth, fname) if st.orelse else None
                    if r1 == 'stop' and r2 == 'stop':
                        return 'stop'
                    if r1 == 'stop':          # the rest of the function runs only when c was false
                        env.clear()
                        env.update(env2)
                        return block(stmts[k + 1:], env, conj(path, 'not (%s)' % c), rets, depth, fname)
                    if r2 == 'stop':
                        env.clear()
                        env.update(env1)
                        return block(stmts[k + 1:], env, conj(path, c), rets, depth, fname)
                    for key in set(env1) | set(env2):
                        a, b = env1.get(key), env2.get(key)
                        env[key] = a if a == b else '(%s if %s else %s)' % (a, c, b)
                    continue
                events.append('unrecognised: %s in %s' % (ast.unparse(st).split('\n')[0][:80], fname))
            return None

        fn = funcs[name]
        params = [a.arg for a in fn.args.args]
        if len(params) != 3:
            events.append('unrecognised: %s takes %d parameters' % (name, len(params)))
        dflt = [ast.unparse(d) for d in fn.args.defaults]
        if dflt != ['None']:
            events.append('unrecognised: defaults of %s are %s' % (name, dflt))
        rets = run(fn, ['X', 'Y', 'OUT'][:len(params)], '', 0)
        for p, v in rets:
            events.append('return|%s%s' % ((p + '|') if p else '', v))
    except Exception as e:  # noqa
        events.append('unrecognised: translator error %s: %s' % (type(e).__name__, str(e)[:80]))
    return events


def _parse_fused(src):
    fused = {}
    lines = src.split('\n')
    i = 0
    while i < len(lines):
        m = re.match(r'^ctypedef\s+fused\s+(\w+)\s*:\s*$', lines[i])
        if m:
            name, members = m.group(1), []
            i += 1
            while i < len(lines) and (lines[i].startswith((' ', '\t')) or not lines[i].strip()):
                t = _strip_comment(lines[i]).strip()
                if t:
                    mm = re.match(r'^(?:np|numpy|cnp)\.(\w+?)_t$', t)
                    members.append(mm.group(1) if mm else 'unrecognised: ' + t)
                i += 1
            fused[name] = members
            continue
        i += 1
    return fused


def _parse_externs(src):
    """C functions declared in `cdef extern` blocks, qualifiers (`nogil`, `noexcept`) dropped"""
    res = []
    for m in re.finditer(r'(?m)^cdef extern from ([^\n:]*?)(?:\s+nogil)?\s*:\n((?:[ \t]+[^\n]*\n|\n)+)', src):
        hdr = m.group(1).strip()
        for ln in m.group(2).split('\n'):
            s = _strip_comment(ln).strip()
            if not s:
                continue
            s = re.sub(r'\b(noexcept|nogil)\b', '', s)
            s = re.sub(r'\(\s*(\w[\w ]*?)\s+\w+\s*\)', r'(\1)', s)         # drop the parameter name
            res.append('%s: %s' % (hdr, re.sub(r'\s+', ' ', s).strip()))
    return sorted(res)


def _parse_metric_map(src):
    """metric name -> function name returned by cluster.util._get_distance_method (ast)."""
    out = {}
    try:
        tree = ast.parse(src)
    except SyntaxError as e:
        return {'unrecognised': 'util.py does not parse: %s' % e}
    for node in ast.walk(tree):
        if isinstance(node, ast.FunctionDef) and node.name == '_get_distance_method':
            for n in ast.walk(node):
                if isinstance(n, ast.If) and isinstance(n.test, ast.Compare) and len(n.body) == 1 \
                        and isinstance(n.body[0], ast.Return) and isinstance(n.body[0].value, ast.Name):
                    cmp_ = n.test
                    names = []
                    if isinstance(cmp_.ops[0], ast.Eq) and isinstance(cmp_.comparators[0], ast.Constant):
                        names = [cmp_.comparators[0].value]
                    elif isinstance(cmp_.ops[0], ast.In) and isinstance(cmp_.comparators[0], (ast.List, ast.Tuple)):
                        names = [e.value for e in cmp_.comparators[0].elts if isinstance(e, ast.Constant)]
                    for nm in names:
                        out[nm] = n.body[0].value.id
    return out


def _lean_str(s):
    return '"' + s.replace('\\', '\\\\').replace('"', '\\"') + '"'


def _lean_list(xs, f=_lean_str):
    return '[' + ', '.join(f(x) for x in xs) + ']'


KERNEL_NAMES = ('_euclidean', '_hamming', '_manhattan')
WRAPPER_NAMES = ('euclidean', 'hamming', 'manhattan')


def normalise_source(src, usrc):
    fused = _parse_fused(src)
    kernels = {k: normalise_kernel(src, k) for k in KERNEL_NAMES}
    sigs = {}
    for k, items in kernels.items():
        sigs[k] = []
        for it in items:
            if it.startswith('arg:'):
                f = it.split(':')
                nm = {'X': 'X', 'Y': 'y', 'OUT': 'out'}[f[1]]
                sigs[k].append((nm, f[2] + ((';' + f[4]) if len(f) > 4 else ''), int(f[3]) if f[3].isdigit() else 0))
    traces = {w: trace_wrapper(src, w, KERNEL_NAMES) for w in WRAPPER_NAMES}
    return {'fused': fused, 'kernels': kernels, 'sigs': sigs, 'traces': traces, 'externs': _parse_externs(src),
            'metric': _parse_metric_map(usrc)}


def translate(repo_dir, gen_dir):
    notes = []
    src = usrc = ''
    try:
        with open(os.path.join(repo_dir, 'enspara', 'geometry', 'libdist.pyx')) as f:
            src = f.read()
    except OSError as e:
        notes.append('unrecognised: cannot read libdist.pyx: %s' % e)
    try:
        with open(os.path.join(repo_dir, 'enspara', 'cluster', 'util.py')) as f:
            usrc = f.read()
    except OSError as e:
        notes.append('unrecognised: cannot read cluster/util.py: %s' % e)
    try:
        ns = normalise_source(src, usrc)
    except Exception as e:  # noqa
        ns = {'fused': {}, 'kernels': {}, 'sigs': {}, 'traces': {}, 'externs': [], 'metric': {}}
        notes.append('unrecognised: translator error %s: %s' % (type(e).__name__, str(e)[:120]))
    sha = hashlib.sha256(src.encode()).hexdigest()
    pair = lambda kv: '(%s, %s)' % (_lean_str(kv[0]), _lean_list(kv[1]))   # noqa
    L = []
    L.append('/-! GENERATED by harness/props/c13.py `translate` from enspara/geometry/libdist.pyx and')
    L.append('enspara/cluster/util.py (`_get_distance_method`) -- do not edit; regenerated on every run.')
    L.append('A NORMALISED structure of the source (see `normalise_kernel` / `trace_wrapper` in c13.py): names,')
    L.append('comments, docstrings, messages, declaration order and helper names do not appear in it.')
    L.append('Consumed by `Model/Dist.lean` and re-checked by `C13.generated_types_modelled` and')
    L.append('`C13.generated_kernels_as_modelled` (`decide` over these lists). -/')
    L.append('namespace Ens.Dist.Gen')
    L.append('')
    L.append('def sourceSha256 : String := %s' % _lean_str(sha))
    L.append('')
    L.append('/-- `ctypedef fused` blocks: name, member element types (numpy `<name>_t`) -/')
    L.append('def fused : List (String × List String) :=')
    L.append('  ' + _lean_list(sorted(ns['fused'].items()), pair))
    L.append('')
    L.append('/-- typed-buffer arguments of the compiled kernels by position: kernel, [(role, element type[;options], ndim)] -/')
    L.append('def kernelSigs : List (String × List (String × String × Nat)) :=')
    L.append('  ' + _lean_list(sorted(ns['sigs'].items()), lambda kv: '(%s, %s)' % (
        _lean_str(kv[0]), _lean_list(kv[1], lambda a: '(%s, %s, %d)' % (_lean_str(a[0]), _lean_str(a[1]), a[2])))))
    L.append('')
    L.append('/-- normalised kernels: decorators, arguments, guards, loops and writes in order, return value -/')
    L.append('def kernels : List (String × List String) :=')
    L.append('  ' + _lean_list(sorted(ns['kernels'].items()), pair))
    L.append('')
    L.append('/-- what each public wrapper does, helper calls resolved: validation predicates, re-bindings, kernel call, return -/')
    L.append('def wrapperTraces : List (String × List (String × String)) :=')
    L.append('  ' + _lean_list(sorted(ns['traces'].items()), lambda kv: '(%s, %s)' % (_lean_str(kv[0]), _lean_list(
        kv[1], lambda e: '(%s, %s)' % (_lean_str(e.split('|', 1)[0] if '|' in e else 'unrecognised'),
                                       _lean_str(e.split('|', 1)[1] if '|' in e else e))))))
    L.append('')
    L.append('/-- C functions declared in `cdef extern` blocks (qualifiers dropped) -/')
    L.append('def externs : List String := ' + _lean_list(ns['externs']))
    L.append('')
    L.append('/-- `cluster.util._get_distance_method`: metric name, returned function -/')
    L.append('def metricMap : List (String × String) :=')
    L.append('  ' + _lean_list(sorted(ns['metric'].items()), lambda kv: '(%s, %s)' % (_lean_str(kv[0]), _lean_str(kv[1]))))
    L.append('')
    L.append('/-- problems met while reading the source (must be empty) -/')
    L.append('def notes : List String := ' + _lean_list(notes))
    L.append('')
    L.append('end Ens.Dist.Gen')
    text = '\n'.join(L) + '\n'
    os.makedirs(gen_dir, exist_ok=True)
    path = os.path.join(gen_dir, 'FusedTypes.lean')
    old = None
    if os.path.exists(path):
        with open(path) as f:
            old = f.read()
    if old != text:          # keep mtime (and lake's cache) when nothing changed
        with open(path, 'w') as f:
            f.write(text)
    unrec = [x for v in list(ns['kernels'].values()) + list(ns['traces'].values()) for x in v
             if x.startswith('unrecognised')] + notes
    return {'summary': 'libdist.pyx sha256 %s: fused %s; kernels %s; metrics %s; unrecognised %d' % (
        sha[:12], {k: len(v) for k, v in ns['fused'].items()}, sorted(ns['kernels']), ns['metric'], len(unrec)),
        'file': 'lean/Model/Generated/FusedTypes.lean', 'source_sha256': sha, 'unrecognised': unrec[:10]}


# ----------------------------------------------------------------------------------------
# array recipes (shared by the checking process and the worker that calls the real code)
# ----------------------------------------------------------------------------------------

INT_INFO = {'int8': (-2**7, 2**7 - 1), 'int16': (-2**15, 2**15 - 1), 'int32': (-2**31, 2**31 - 1),
            'int64': (-2**63, 2**63 - 1), 'uint8': (0, 2**8 - 1), 'uint16': (0, 2**16 - 1),
            'uint32': (0, 2**32 - 1), 'uint64': (0, 2**64 - 1), 'bool': (0, 1), 'S1': (-128, 127)}
FLOATS = ('float32', 'float64')
FLOAT_T = ['int8', 'int16', 'int32', 'int64', 'float32', 'float64']          # expected FLOAT_TYPE_T
INTEGRAL_T = ['uint8', 'uint16', 'uint32', 'uint64', 'int8', 'int16', 'int32', 'int64']
KERNEL_TYPES = {'euclidean': FLOAT_T, 'manhattan': FLOAT_T, 'hamming': INTEGRAL_T}
PROMO_BITS = {'int8': 32, 'int16': 32, 'int32': 32, 'int64': 64, 'S1': 32}
KNOWN_OVERFLOW_KEY = 'int-overflow-promoted-c-type'
ERR_KIND = {'DataInvalid': 'data-invalid', 'IndexError': 'index-error', 'TypeError': 'type-error',
            'ValueError': 'value-error'}


def _np():
    import numpy as np
    return np


def enc_vals(vals, dtype):
    """python values -> JSON-able (floats as hex strings: exact, nan/inf safe)"""
    if dtype in FLOATS or dtype in ('float16', 'complex128', 'float128'):
        return [float(v).hex() for v in vals]
    return [int(v) for v in vals]


def build_mem(rec):
    np = _np()
    dt = rec['dtype']
    if 'gen' in rec:
        g = rec['gen']
        r = np.random.default_rng(g['seed'])
        return r.integers(g['lo'], g['hi'] + 1, size=g['size']).astype(dt)
    mem = rec['mem']
    if dt in FLOATS or dt in ('float16', 'float128'):
        return np.array([float.fromhex(v) for v in mem], dtype=dt)
    if dt == 'complex128':
        return np.array([float.fromhex(v) for v in mem], dtype=dt)
    if dt == 'bool':
        return np.array(mem, dtype='uint8').astype(bool)
    if dt == 'S1':
        return np.array(mem, dtype='int8').view('S1')
    if dt == 'object':
        return np.array(mem, dtype=object)
    return np.array(mem, dtype=dt)


def build_view(rec, mem=None):
    """mem (1-D, owns data) -> region [pad : pad+prod(shape)] -> reshape(shape, order) -> index"""
    np = _np()
    if mem is None:
        mem = build_mem(rec)
    pad = rec.get('pad', 0)
    size = 1
    for s in rec['shape']:
        size *= s
    v = mem[pad:pad + size].reshape(tuple(rec['shape']), order=rec.get('order', 'C'))
    idx = rec.get('index')
    if idx is not None:
        v = v[tuple(t if isinstance(t, int) else slice(*t) for t in idx)]
    if rec.get('broadcast_to') is not None:          # zero-stride (read-only) broadcast view
        v = np.broadcast_to(v, tuple(rec['broadcast_to']))
    if rec.get('byteswap'):
        v = v.astype(v.dtype.newbyteorder('>'))
    if rec.get('readonly'):
        v = v.view()
        v.setflags(write=False)
    return mem, v


def model_dtype_name(dt):
    """numpy dtype -> the element-type name the Cython fused dispatch resolves it to
    (bool buffers are accepted as uint8, 'S1' as int8: observed, see ASSUMPTIONS)"""
    np = _np()
    dt = np.dtype(dt)
    if dt.kind == 'b':
        return 'uint8'
    if dt.kind == 'S' and dt.itemsize == 1:
        return 'int8'
    if dt.kind in 'iuf' and dt.isnative:
        return {'i': 'int', 'u': 'uint', 'f': 'float'}[dt.kind] + str(8 * dt.itemsize)
    return dt.name


def descriptor(mem, v):
    """(offset, shape, strides) of view v inside the flat buffer mem, in elements"""
    isz = mem.dtype.itemsize
    off = v.__array_interface__['data'][0] - mem.__array_interface__['data'][0]
    assert off % isz == 0 and all(s % isz == 0 for s in v.strides)
    return {'offset': off // isz, 'shape': [int(s) for s in v.shape],
            'strides': [int(s) // isz for s in v.strides]}


def slice_for(n, step, r0):
    """index triple selecting n elements with the given step, first (lowest) element r0;
    returns (triple, base_len_needed)"""
    a = abs(step)
    need = r0 + (n - 1) * a + 1 if n > 0 else r0
    if n == 0:
        return [r0, r0, step], max(need, r0)
    if step > 0:
        return [r0, r0 + (n - 1) * a + 1, step], need
    start = r0 + (n - 1) * a
    stop = r0 - 1
    return [start, stop if stop >= 0 else None, step], need


# ----------------------------------------------------------------------------------------
# worker: runs the real code, one JSON case per line (separate process: a crash is an observation)
# ----------------------------------------------------------------------------------------

def _fhex(a):
    return [float(x).hex() for x in a]


def mem_snapshot(mem):
    """exact JSON form of a flat memory"""
    np = _np()
    if mem.dtype.kind == 'f':
        return [float(v).hex() for v in mem.tolist()]
    if mem.dtype.kind == 'S':
        return [int(v) for v in mem.view('int8')]
    return [int(v) for v in mem.tolist()]


def script_views(call, mems, cache=None):
    """the three argument arrays of one call of a script, as views of the named memories"""
    out = {}
    for nm in ('X', 'y', 'out'):
        rec = call.get(nm)
        if rec is None:
            out[nm] = None
            continue
        key = None
        if cache is not None and call.get('reuse_objects'):
            import json as _j
            key = _j.dumps(rec, sort_keys=True)
            if key in cache:
                out[nm] = cache[key]
                continue
        _, v = build_view(rec, mem=mems[rec['mem']])
        if key is not None:
            cache[key] = v
        out[nm] = v
    return out


def run_script(sp, libdist, ctl):
    """a sequence of calls on shared named memories (aliasing, buffer reuse, call history)"""
    np = _np()
    mems = {k: build_mem(v) for k, v in sp['mems'].items()}
    cache, calls, kept = {}, [], []
    for call in sp['calls']:
        r = {}
        kept.append(None)
        a = script_views(call, mems, cache)
        if call.get('via_metric'):
            from enspara.cluster.util import _get_distance_method
            fn = _get_distance_method(call['via_metric'])
            r['metric_is'] = [n for n in ('euclidean', 'manhattan', 'hamming') if fn is getattr(libdist, n)]
        elif call.get('via_callable'):
            from enspara.cluster.util import _get_distance_method
            base = getattr(libdist, call['kernel'])
            fn = _get_distance_method(base)
            r['callable_passthrough'] = fn is base
        else:
            fn = getattr(libdist, call['kernel'])
        with ctl.limit(limits=int(call.get('threads', 1)), user_api='openmp'):
            try:
                if a['out'] is None:
                    ret = fn(a['X'], a['y'])
                elif call.get('out_positional'):
                    ret = fn(a['X'], a['y'], a['out'])
                else:
                    ret = fn(a['X'], a['y'], out=a['out'])
                r['ret_type'] = type(ret).__name__
                r['ret_dtype'] = str(getattr(ret, 'dtype', None))
                r['ret_shape'] = [int(s) for s in getattr(ret, 'shape', ())]
                r['ret'] = _fhex(np.asarray(ret, dtype=float).ravel())
                if a['out'] is None:
                    kept[-1] = ret          # a freshly allocated result belongs to the caller from now on
                if a['out'] is not None:
                    r['ret_is_out'] = ret is a['out']
                    r['shares'] = bool(np.shares_memory(ret, a['out']))
            except Exception as e:  # noqa
                r['err'] = type(e).__name__
                r['msg'] = str(e)[:200]
        r['mems'] = {k: mem_snapshot(v) for k, v in mems.items()}
        calls.append(r)
    # results handed out earlier must not have been changed by later calls (no shared internal buffer)
    for r, k in zip(calls, kept):
        if k is not None:
            r['ret_at_end'] = _fhex(np.asarray(k, dtype=float).ravel())
    return {'calls': calls}


def worker_main(path_in, path_out):
    import json
    import hashlib as _h
    np = _np()
    import threadpoolctl
    from enspara.geometry import libdist
    import sys
    if path_in == '-':
        # persistent mode: one spec per stdin line, answered on stdout; the real stdout is kept for the
        # protocol, anything the library prints goes to stderr
        out = os.fdopen(os.dup(1), 'w')
        os.dup2(2, 1)
        specs = (json.loads(l) for l in sys.stdin if l.strip())
        out.write(json.dumps({'ready': True}) + '\n')
        out.flush()
    else:
        with open(path_in) as f:
            specs = [json.loads(l) for l in f if l.strip()]
        out = open(path_out, 'w')
    ctl = threadpoolctl.ThreadpoolController()
    n_done = 0
    for k, sp in enumerate(specs):
        n_done += 1
        out.write(json.dumps({'begin': k}) + '\n')
        out.flush()
        res = {'i': k}
        try:
            if sp.get('op') == 'metric':
                from enspara.cluster.util import _get_distance_method
                try:
                    fn = _get_distance_method(sp['metric'])
                    res['fn'] = [n for n in ('euclidean', 'manhattan', 'hamming') if fn is getattr(libdist, n)]
                    res['name'] = getattr(fn, '__name__', repr(fn))
                except Exception as e:  # noqa
                    res['err'] = type(e).__name__
                out.write(json.dumps(res) + '\n')
                out.flush()
                continue
            if sp.get('op') == 'threads':
                with ctl.limit(limits=sp['threads'], user_api='openmp'):
                    res['info'] = [[d.get('prefix'), d.get('num_threads')] for d in ctl.info()
                                   if d.get('user_api') == 'openmp']
                out.write(json.dumps(res) + '\n')
                out.flush()
                continue
            if sp.get('op') == 'script':
                res.update(run_script(sp, libdist, ctl))
                out.write(json.dumps(res) + '\n')
                out.flush()
                continue
            xm, X = build_view(sp['X'])
            ym, y = build_view(sp['y'])
            om = o = None
            if sp.get('out') is not None:
                om, o = build_view(sp['out'])
            xb, yb = xm.tobytes(), ym.tobytes()
            fn = getattr(libdist, sp['kernel'])
            if sp['X'].get('as_list'):
                X = X.tolist()
            if sp['X'].get('as_tuple'):
                X = tuple(map(tuple, X.tolist()))
            if sp['X'].get('as_matrix'):
                X = np.asmatrix(X)
            if sp['y'].get('as_list'):
                y = y.tolist()
            if o is not None and sp['out'].get('as_list'):
                o = o.tolist()
            sweep = sp.get('sweep') or [sp.get('threads', 1)]
            digests, ret = [], None
            for t in sweep:
                for _ in range(sp.get('repeat', 1)):
                    with ctl.limit(limits=int(t), user_api='openmp'):
                        try:
                            ret = fn(X, y) if o is None else fn(X, y, out=o)
                        except Exception as e:  # noqa
                            res['err'] = type(e).__name__
                            res['msg'] = str(e)[:200]
                            ret = None
                            break
                    if len(sweep) > 1 or sp.get('repeat', 1) > 1:
                        digests.append(_h.sha1(np.ascontiguousarray(ret).tobytes()).hexdigest())
                if 'err' in res:
                    break
            if ret is not None:
                res['ret_type'] = type(ret).__name__
                res['ret_dtype'] = str(getattr(ret, 'dtype', None))
                res['ret_shape'] = [int(s) for s in getattr(ret, 'shape', ())]
                if sp.get('big'):
                    res['ret_digest'] = _h.sha1(np.ascontiguousarray(ret).tobytes()).hexdigest()
                else:
                    res['ret'] = _fhex(np.asarray(ret, dtype=float).ravel())
                if digests:
                    res['digests'] = digests
                if o is not None:
                    res['ret_is_out'] = ret is o
                    res['shares'] = bool(np.shares_memory(ret, o))
                    res['out_view'] = _fhex(np.asarray(o, dtype=float).ravel())
                    res['out_mem'] = _fhex(om)
            res['x_same'] = xm.tobytes() == xb
            res['y_same'] = ym.tobytes() == yb
        except Exception as e:  # noqa  (harness-side problem building the case)
            import traceback
            res['harness_error'] = traceback.format_exc()[-1500:]
        out.write(json.dumps(res) + '\n')
        out.flush()
    out.write(json.dumps({'done': n_done}) + '\n')
    out.close()


_WORKER = {'proc': None}


def _worker_proc():
    """the persistent process that runs the real code (started lazily, restarted after a crash)"""
    import atexit
    import json
    import subprocess
    import sys
    import tempfile
    p = _WORKER['proc']
    if p is not None and p.poll() is None:
        return p
    env = dict(os.environ)
    # idle OpenMP threads sleep instead of spinning: same semantics, and the run stays fast on a loaded machine
    env.setdefault('OMP_WAIT_POLICY', 'passive')
    errf = tempfile.TemporaryFile(mode='w+')
    p = subprocess.Popen([sys.executable, os.path.abspath(__file__), '--worker', '-', '-'], stdin=subprocess.PIPE,
                         stdout=subprocess.PIPE, stderr=errf, text=True, env=env, bufsize=1)
    p._errf = errf
    line = p.stdout.readline()
    if not line or 'ready' not in line:
        errf.seek(0)
        raise RuntimeError('kernel worker did not start: ' + errf.read()[-1500:])
    if _WORKER['proc'] is None:
        atexit.register(lambda: _WORKER['proc'] and _WORKER['proc'].poll() is None and _WORKER['proc'].kill())
    _WORKER['proc'] = p
    return p


def run_worker(specs, valgrind=False, timeout=1500):
    """returns (results list aligned with specs (None = not reached), crash_info or None, extra).
    Normal mode talks to the persistent worker process; valgrind mode runs a one-shot process on files."""
    import json
    if valgrind:
        return _run_worker_files(specs, timeout)
    results = [None] * len(specs)
    crash = None
    for k, sp in enumerate(specs):
        p = _worker_proc()
        try:
            p.stdin.write(json.dumps(sp) + '\n')
            p.stdin.flush()
            got = None
            while got is None:
                line = p.stdout.readline()
                if not line:
                    break
                try:
                    j = json.loads(line)
                except ValueError:
                    continue
                if 'i' in j:
                    got = j
        except (BrokenPipeError, OSError):
            got = None
        if got is None:
            rc = p.wait()
            p._errf.seek(0)
            crash = {'returncode': rc, 'case_index': k, 'stderr': p._errf.read()[-600:]}
            _WORKER['proc'] = None
            break           # the remaining specs are not run (results None); the caller reports the crash
        got['i'] = k
        results[k] = got
    return results, crash, {}


def _run_worker_files(specs, timeout):
    import json
    import subprocess
    import sys
    import tempfile
    base = os.path.join(os.path.dirname(os.path.dirname(os.path.dirname(os.path.abspath(__file__)))), '.cache', 'tmp')
    os.makedirs(base, exist_ok=True)
    d = tempfile.mkdtemp(prefix='c13w_', dir=base)   # removed by the caller after it has read the log
    pin, pout = os.path.join(d, 'in.jsonl'), os.path.join(d, 'out.jsonl')
    with open(pin, 'w') as f:
        for sp in specs:
            f.write(json.dumps(sp) + '\n')
    env = dict(os.environ)
    env.setdefault('OMP_WAIT_POLICY', 'passive')
    env['PYTHONMALLOC'] = 'malloc'
    vlog = os.path.join(d, 'valgrind.log')
    cmd = ['valgrind', '--tool=memcheck', '--leak-check=no', '--error-limit=no', '--num-callers=30',
           '--log-file=' + vlog, sys.executable, os.path.abspath(__file__), '--worker', pin, pout]
    r = subprocess.run(cmd, capture_output=True, text=True, env=env, timeout=timeout)
    results = [None] * len(specs)
    begun, done = -1, False
    if os.path.exists(pout):
        with open(pout) as f:
            for l in f:
                try:
                    j = json.loads(l)
                except ValueError:
                    continue
                if 'begin' in j:
                    begun = j['begin']
                elif 'done' in j:
                    done = True
                elif 'i' in j:
                    results[j['i']] = j
    crash = None
    if r.returncode != 0 or not done:
        crash = {'returncode': r.returncode, 'case_index': begun, 'stderr': r.stderr[-600:]}
    return results, crash, {'vlog': vlog, 'dir': d}


# ----------------------------------------------------------------------------------------
# oracle: the property's own words, exact arithmetic (python ints / Fractions)
# ----------------------------------------------------------------------------------------

def _repr_ok(fr, fmt):
    np = _np()
    try:
        if fmt == 'float32':
            with np.errstate(over='ignore'):
                return Fraction(float(np.float32(float(fr)))) == fr
        return Fraction(float(fr)) == fr
    except OverflowError:
        return False


def row_oracle(kernel, dtype, xs, ys):
    """xs, ys: python ints or Fractions of one row / the target.
    -> dict(kind 'val'|'sqrt'|'undefined', q exact rational, exact: float evaluation involves no rounding,
            overflow: some intermediate leaves the promoted C type (input class of the known finding))"""
    w = len(ys)
    if kernel == 'hamming':
        if w == 0:
            return {'kind': 'undefined', 'q': None, 'exact': True, 'overflow': False}
        cnt = sum(1 for a, b in zip(xs, ys) if a != b)
        return {'kind': 'val', 'q': Fraction(cnt, w), 'exact': True, 'overflow': False, 'div': (cnt, w)}
    isf = dtype in FLOATS
    if isf and any(isinstance(v, float) for v in list(xs) + list(ys)):
        # NaN / +-inf among the inputs: the norm is not defined (outside the property); row skipped
        return {'kind': 'undefined', 'q': None, 'exact': True, 'overflow': False, 'nonfinite': True}
    total, exact, overflow, in_range = Fraction(0), True, False, True
    bits = PROMO_BITS.get(dtype)
    # conservative float thresholds: |d| (and, for euclidean, d*d) must be a normal number of the element format
    dlo, dhi = {'float32': (1.2e-38, 3.4e38), 'float64': (2.3e-308, 1.7e308)}.get(dtype, (0, 0))
    if kernel == 'euclidean':
        dlo, dhi = {'float32': (1.1e-19, 1.8e19), 'float64': (1.5e-154, 1.3e154)}.get(dtype, (0, 0))
    for a, b in zip(xs, ys):
        d = a - b
        t = d * d if kernel == 'euclidean' else abs(d)
        if isf:
            # the difference is formed in the element format; the square in it too (powf / pow)
            tf = dtype if kernel == 'euclidean' else 'float64'
            if d != 0:
                try:
                    fa = abs(float(d))
                except OverflowError:
                    fa = float('inf')
                if not (dlo <= fa <= dhi):
                    in_range = False
            if exact and (not _repr_ok(d, dtype) or not _repr_ok(t, tf)):
                exact = False
        else:
            if not (-2 ** (bits - 1) <= d < 2 ** (bits - 1)):
                overflow = True
            if kernel == 'euclidean' and d * d >= 2 ** 63:
                overflow = True
            if t >= 2 ** 53:
                exact = False
        total += t
        if isf:
            if exact and not _repr_ok(total, 'float64'):
                exact = False
        elif total >= 2 ** 53:
            exact = False
    if isf and total >= Fraction(2) ** 1023:
        in_range = False
    return {'kind': 'sqrt' if kernel == 'euclidean' else 'val', 'q': total, 'exact': exact, 'overflow': overflow,
            'in_range': in_range}


def _sqrt_exact(q):
    """correctly rounded sqrt of an exactly representable rational (math.sqrt is IEEE sqrt)"""
    return math.sqrt(float(q))


def _rel_close(real, ref, tol):
    """relative to the natural scale: the reference is a sum of non-negative terms (or its root), so the
    rounding error of the float evaluation is relative to the value itself; an exact zero must be zero"""
    if ref == 0:
        return real == 0
    return abs(real - ref) <= tol * abs(ref)


def value_matches(kind, q, exact, real, tol, div=None):
    """does the float `real` equal the number (kind, q)?"""
    if kind == 'undefined':
        return True
    if real != real or real in (float('inf'), float('-inf')):
        return False
    try:
        if kind == 'val':
            if exact:
                ref = (div[0] / div[1]) if div else float(q)
                return real == ref
            return _rel_close(real, float(q), tol)
        # sqrt
        if q < 0:
            return False
        if exact:
            return real == _sqrt_exact(q)
        return _rel_close(real, math.sqrt(q), tol)
    except OverflowError:
        return False


def tol_for(dtype):
    return 1e-5 if dtype == 'float32' else 1e-12


def cell_matches_model(mcell, real, exact, tol, div=None):
    """model cell (JSON) vs real float"""
    if mcell == 'nan':
        return real != real
    if mcell == 'untracked':
        return None   # nothing to compare (only arises from untouched non-finite garbage)
    if isinstance(mcell, dict) and 'v' in mcell:
        q = Fraction(mcell['v'][0], mcell['v'][1])
        return value_matches('val', q, exact, real, tol, div if (div and Fraction(div[0], div[1]) == q) else None)
    if isinstance(mcell, dict) and 'sqrt' in mcell:
        q = Fraction(mcell['sqrt'][0], mcell['sqrt'][1])
        return value_matches('sqrt', q, exact, real, tol)
    return False


# ----------------------------------------------------------------------------------------
# case generation
# ----------------------------------------------------------------------------------------

def max_shift(kernel, dtype):
    """largest k such that symbols a << k (|a| <= 2, inside the dtype) keep the kernel inside the promoted C type"""
    if dtype in FLOATS:
        return 40
    lo, hi = INT_INFO[dtype]
    width = hi.bit_length() + (1 if lo < 0 else 0)
    if kernel == 'hamming' or dtype in ('int8', 'int16'):
        return width - 1
    if kernel == 'euclidean':
        return {'int32': 28, 'int64': 29}[dtype]      # |d| <= 4 << k: < 2**31, and d*d < 2**63
    return {'int32': 28, 'int64': 60}[dtype]          # manhattan: |d| <= 4 << k fits the int / long


def gen_highbit_values(rng, dtype, vclass, n, w, kernel):
    """value classes whose symbols differ only in HIGH bits (or only in low bits):
    'boundary'      alphabet {min, min+1, -1, 0, 1, max-1, max} (unsigned: 0, 1, mid, mid+1, max-1, max)
    'pow2-scaled:k' small alphabet {-2..3} << k (k up to width-1; clipped to the dtype and to the no-overflow range)
    'packed:h'      two-field symbols (hi << h) + lo; X shares the low field with y in most coordinates
                    (so they differ by a multiple of 2**h) and the high field in some others"""
    isf = dtype in FLOATS
    if isf:
        lo, hi = -2 ** 200, 2 ** 200
    else:
        lo, hi = INT_INFO[dtype]
    name, _, arg = vclass.partition(':')
    mk = max_shift(kernel, dtype)

    def pick(alphabet, size):
        return [alphabet[int(i)] for i in rng.integers(0, len(alphabet), size=size)]
    if name == 'boundary':
        if lo < 0:
            alpha = [lo, lo + 1, -1, 0, 1, hi - 1, hi]
        else:
            alpha = [0, 1, hi // 2, hi // 2 + 1, hi - 1, hi]
        if kernel != 'hamming' and dtype in ('int32', 'int64'):
            # keep every pairwise difference inside the promoted type
            alpha = [0, 1, hi - 1, hi] if rng.random() < 0.5 else [lo + 1, lo + 2, -1, 0]
            if kernel == 'euclidean' and dtype == 'int64':
                alpha = [v for v in alpha if abs(v) <= 1] + [2 ** 31, 2 ** 31 - 1]
        X, y = pick(alpha, n * w), pick(alpha, w)
    elif name == 'pow2-scaled':
        k = int(arg) if arg else int(rng.integers(mk // 2, mk + 1) if rng.random() < 0.6 else rng.integers(0, mk + 1))
        k = min(k, mk)
        if isf:
            k = k if rng.random() < 0.5 else -k
            alpha = [float(a) * 2.0 ** k for a in (-2, -1, 0, 1, 2, 3)]
        else:
            alpha = [v for v in ((a << k) for a in (-2, -1, 0, 1, 2, 3)) if lo <= v <= hi]
            if kernel != 'hamming' and dtype in ('int32', 'int64') and k == mk:
                alpha = [v for v in alpha if abs(v) <= (2 << k)]
        X, y = pick(alpha, n * w), pick(alpha, w)
    elif name == 'packed':
        width = 64 if isf else hi.bit_length() + (1 if lo < 0 else 0)
        h = int(arg) if arg else width // 2
        h = max(1, min(h, mk if kernel != 'hamming' else width - 2))
        lows = [0, 1, 2, (1 << h) - 1]
        nhi = max(0, min(mk, width - 1) - h) if kernel != 'hamming' else width - 1 - h
        his = [a for a in (-2, -1, 0, 1, 2, 3) if lo <= (a << h) and ((a << h) + (1 << h) - 1) <= hi
               and (kernel == 'hamming' or abs(a) <= max(1, (1 << nhi) // 2))]
        ylo, yhi = pick(lows, w), pick(his, w)
        y = [(b << h) + a for a, b in zip(ylo, yhi)]
        X = []
        for i in range(n):
            for j in range(w):
                r = rng.random()
                if r < 0.6:        # same low field, other high field: differs by a multiple of 2**h
                    X.append((pick(his, 1)[0] << h) + ylo[j])
                elif r < 0.8:      # same high field, other low field
                    X.append((yhi[j] << h) + pick(lows, 1)[0])
                else:
                    X.append(y[j])
        if isf:
            X, y = [float(v) for v in X], [float(v) for v in y]
    else:
        raise ValueError(vclass)
    return [X[i * w:(i + 1) * w] for i in range(n)], y


HIGHBIT_CLASSES = ('boundary', 'pow2-scaled', 'packed')


def gen_values(rng, dtype, vclass, n, w, kernel=None):
    """logical X (n x w) and y (w) as python numbers (ints, or floats for float dtypes)"""
    np = _np()
    if vclass.partition(':')[0] in HIGHBIT_CLASSES:
        return gen_highbit_values(rng, dtype, vclass, n, w, kernel or 'hamming')

    def ints(lo, hi, size):
        lo, hi = int(lo), int(hi)
        if hi - lo < 2 ** 62:
            return [lo + int(v) for v in rng.integers(0, hi - lo + 1, size=size)]
        # 64-bit wide ranges: 2**64 equally likely offsets
        return [min(hi, lo + 2 * int(rng.integers(0, 2 ** 63)) + int(rng.integers(0, 2))) for _ in range(size)]
    if dtype in FLOATS:
        if vclass == 'small':
            X = [float(v) for v in rng.integers(-20, 21, size=n * w)]
            y = [float(v) for v in rng.integers(-20, 21, size=w)]
        elif vclass == 'quarters':
            X = [float(v) / 4 for v in rng.integers(-200, 201, size=n * w)]
            y = [float(v) / 4 for v in rng.integers(-200, 201, size=w)]
        elif vclass == 'mid':      # exact in float32 too: |d| <= 4094, d*d < 2**24
            X = [float(v) for v in rng.integers(-2047, 2048, size=n * w)]
            y = [float(v) for v in rng.integers(-2047, 2048, size=w)]
        elif vclass in ('scale-in-range', 'scale-out-of-range'):
            # huge / tiny magnitudes: squares stay inside (resp. leave) the range of the element format
            f32 = dtype == 'float32'
            if vclass == 'scale-in-range':
                e = int(rng.choice([-15, 15] if f32 else [-150, -9, 9, 149]))
            else:
                e = int(rng.choice([-25, 25] if f32 else [-300, -200, 200, 300]))
            sc = 10.0 ** e
            X = [float(np.dtype(dtype).type(v * sc)) for v in rng.uniform(1, 9, size=n * w) * rng.choice([-1, 1], size=n * w)]
            y = [float(np.dtype(dtype).type(v * sc)) for v in rng.uniform(1, 9, size=w) * rng.choice([-1, 1], size=w)]
        elif vclass == 'ulp':           # coordinates that differ from y by 0, 1 or 2 ulp; signed zeros
            tp = np.dtype(dtype).type
            y = [float(tp(v)) for v in rng.choice([1.0, -3.5, 1e10, 0.1, -0.0, 0.0, 1e-30], size=w)]
            X = []
            for i in range(n):
                for j in range(w):
                    v = tp(y[j])
                    for _ in range(int(rng.integers(0, 3))):
                        v = np.nextafter(v, tp(np.inf if rng.random() < 0.5 else -np.inf))
                    if v == 0 and rng.random() < 0.5:
                        v = -v
                    X.append(float(v))
        elif vclass == 'nonfinite':     # NaN / inf in some rows of X only: the other rows must be unaffected
            X = [float(v) for v in rng.integers(-20, 21, size=n * w)]
            y = [float(v) for v in rng.integers(-20, 21, size=w)]
            for i in range(0, n, 2):
                if w:
                    X[i * w + int(rng.integers(0, w))] = [float('nan'), float('inf'), float('-inf')][int(rng.integers(0, 3))]
        elif vclass == 'equal-to-y':
            y = [float(v) / 4 for v in rng.integers(-200, 201, size=w)]
            X = [y[j] for i in range(n) for j in range(w)]
            for i in range(1, n, 3):       # every third row differs in one coordinate
                if w:
                    X[i * w + int(rng.integers(0, w))] += 1.0
        else:                       # 'general': arbitrary finite values -> tolerance regime
            sc = float(10.0 ** rng.integers(-3, 4))
            X = [float(np.dtype(dtype).type(v)) for v in rng.normal(0, sc, size=n * w)]
            y = [float(np.dtype(dtype).type(v)) for v in rng.normal(0, sc, size=w)]
    else:
        lo, hi = INT_INFO[dtype]
        if vclass == 'small':
            a, b = max(lo, -20), min(hi, 20)
            if dtype == 'S1':
                a, b = 48, 90
            X, y = ints(a, b, n * w), ints(a, b, w)
        elif vclass == 'extreme':     # full range of the element type
            X, y = ints(lo, hi, n * w), ints(lo, hi, w)
            for k in range(0, len(X), 3):      # pin many coordinates to the extremes
                X[k] = lo if rng.random() < 0.5 else hi
            for k in range(0, len(y), 2):
                y[k] = lo if rng.random() < 0.5 else hi
        elif vclass == 'equal-to-y':
            a, b = max(lo, -20), min(hi, 20)
            if dtype == 'S1':
                a, b = 48, 90
            y = ints(a, b, w)
            X = [y[j] for i in range(n) for j in range(w)]
            for i in range(1, n, 3):
                if w:
                    k = i * w + int(rng.integers(0, w))
                    X[k] = X[k] + 1 if X[k] < b else X[k] - 1
        elif vclass == 'big-same-sign':   # huge magnitude, small differences: exact in the integer path
            span = min(900, (hi - lo) // 8)
            base = hi - span if (rng.random() < 0.5 or lo == 0) else lo + span
            X = [base + int(v) for v in rng.integers(-span, span + 1, size=n * w)]
            y = [base + int(v) for v in rng.integers(-span, span + 1, size=w)]
        elif vclass == 'mid':             # |values| < 2**30: no overflow for 32/64-bit, sums not exact in double
            m = min(hi, 2 ** 30 - 1)
            X, y = ints(max(lo, -m), m, n * w), ints(max(lo, -m), m, w)
        elif vclass == 'overflow':        # some differences (or squares) leave the promoted C type
            X, y = ints(max(lo, -20), 20, n * w), ints(max(lo, -20), 20, w)
            big = hi - int(rng.integers(0, 1000))
            small = lo + int(rng.integers(0, 1000))
            if dtype == 'int64' and rng.random() < 0.5:
                big, small = int(3.1e9) + int(rng.integers(0, 10 ** 9)), -int(rng.integers(0, 1000))
            for _ in range(max(1, (n * w) // 6)):
                if n * w == 0:
                    break
                k = int(rng.integers(0, n * w))
                j = k % w
                if rng.random() < 0.5:
                    X[k], y[j] = big, small
                else:
                    X[k], y[j] = small, big
        else:
            raise ValueError(vclass)
    return [X[i * w:(i + 1) * w] for i in range(n)], y


def poison_for(rng, dtype, size):
    """content of the memory cells no view element maps to: large, conspicuous values"""
    if dtype in FLOATS:
        return [float(v) for v in rng.integers(10 ** 6, 10 ** 7, size=size)]
    lo, hi = INT_INFO[dtype]
    if dtype == 'bool':
        return [int(v) for v in rng.integers(0, 2, size=size)]
    if dtype == 'S1':
        return [int(v) for v in rng.integers(97, 123, size=size)]
    return [(hi - int(v)) if rng.random() < 0.5 else (lo + int(v)) for v in rng.integers(0, 60, size=size)]


X_LAYOUTS = ['C', 'F', 'every-other', 'reversed', 'general']
Y_LAYOUTS = ['contig', 'strided', 'reversed']
OUT_MODES = ['none', 'contig', 'strided', 'reversed']


def make_x_recipe(rng, layout, n, w):
    order = 'C'
    if layout == 'C':
        rs, cs, r0, c0 = 1, 1, 0, 0
    elif layout == 'F':
        rs, cs, r0, c0, order = 1, 1, 0, 0, 'F'
    elif layout == 'every-other':
        rs, cs, r0, c0 = 2, 2, int(rng.integers(0, 2)), int(rng.integers(0, 2))
        order = 'F' if rng.random() < 0.5 else 'C'
    elif layout == 'reversed':
        rs, cs, r0, c0 = -1, (-1 if rng.random() < 0.7 else 1), 0, 0
        order = 'F' if rng.random() < 0.3 else 'C'
    else:
        steps = [1, 2, 3, -1, -2, -3]
        rs, cs = int(rng.choice(steps)), int(rng.choice(steps))
        r0, c0 = int(rng.integers(0, 3)), int(rng.integers(0, 3))
        order = 'F' if rng.random() < 0.5 else 'C'
    ri, N = slice_for(n, rs, r0)
    ci, W = slice_for(w, cs, c0)
    N += int(rng.integers(0, 2)) if layout in ('every-other', 'general') else 0
    W += int(rng.integers(0, 2)) if layout in ('every-other', 'general') else 0
    pad = int(rng.integers(0, 4)) if layout != 'C' else 0
    return {'shape': [N, W], 'order': order, 'index': [ri, ci], 'pad': pad, 'total': pad + N * W + pad}


def make_1d_recipe(rng, layout, w):
    if layout == 'contig':
        st, c0 = 1, 0
    elif layout == 'strided':
        st, c0 = int(rng.choice([2, 3])), int(rng.integers(0, 2))
    else:
        st, c0 = int(rng.choice([-1, -1, -2])), int(rng.integers(0, 2)) if layout != 'reversed' else 0
    idx, L = slice_for(w, st, c0)
    L += int(rng.integers(0, 2)) if layout != 'contig' else 0
    pad = int(rng.integers(0, 3)) if layout != 'contig' else 0
    return {'shape': [L], 'order': 'C', 'index': [idx], 'pad': pad, 'total': pad + L + pad}


def fill(rec, dtype, rng, logical):
    """materialise the recipe: poison everywhere, logical values through the view; returns spec, mem, view"""
    np = _np()
    rec = dict(rec)
    total = rec.pop('total')
    rec['dtype'] = dtype
    rec['mem'] = enc_vals(poison_for(rng, dtype, total), dtype)
    mem, v = build_view(rec)
    arr = np.array(logical, dtype=object).reshape(v.shape) if v.size else None
    if v.size:
        if dtype == 'S1':
            v.view('int8')[...] = np.array(logical, dtype='int8').reshape(v.shape)
        elif dtype == 'bool':
            v[...] = np.array(logical, dtype='uint8').reshape(v.shape).astype(bool)
        else:
            v[...] = np.array(logical, dtype=dtype).reshape(v.shape)
    if dtype == 'S1':
        rec['mem'] = [int(t) for t in mem.view('int8')]
    elif dtype == 'bool':
        rec['mem'] = [int(t) for t in mem]
    else:
        rec['mem'] = enc_vals(mem.tolist(), dtype)
    return rec


def garbage(rng, size):
    out = []
    for _ in range(size):
        r = rng.random()
        if r < 0.15:
            out.append(float('nan'))
        elif r < 0.25:
            out.append(float('inf') if rng.random() < 0.5 else float('-inf'))
        else:
            out.append(float(rng.normal(0, 1e3)))
    return out


def make_valid_case(rng, kernel, dtype, xl, yl, om, vclass, n, w, threads):
    Xl, yv = gen_values(rng, dtype, vclass, n, w, kernel)
    xr = fill(make_x_recipe(rng, xl, n, w), dtype, rng, Xl)
    yr = fill(make_1d_recipe(rng, yl, w), dtype, rng, yv)
    spec = {'kernel': kernel, 'X': xr, 'y': yr, 'out': None, 'threads': threads,
            'tags': {'dtype': dtype, 'xl': xl, 'yl': yl, 'out': om, 'vclass': vclass.partition(':')[0],
                     'vparam': vclass.partition(':')[2], 'n': n, 'w': w}}
    if om != 'none':
        orr = make_1d_recipe(rng, {'contig': 'contig', 'strided': 'strided', 'reversed': 'reversed'}[om], n)
        total = orr.pop('total')
        orr['dtype'] = 'float64'
        orr['mem'] = enc_vals(garbage(rng, total), 'float64')
        spec['out'] = orr
    if rng.random() < 0.12:
        xr['readonly'] = True
    if rng.random() < 0.12:
        yr['readonly'] = True
    if rng.random() < 0.06 and dtype not in ('S1', 'bool'):
        xr['as_matrix'] = True
    nsteps = n * (w + 2)
    spec['sched'] = [int(v) for v in rng.integers(0, max(1, n), size=int(rng.integers(0, nsteps + 1)))]
    return spec


def _enc_mem(mem):
    if mem.dtype.kind == 'f':
        return [[Fraction(float(v)).numerator, Fraction(float(v)).denominator] for v in mem.tolist()]
    if mem.dtype.kind == 'S':
        return [int(v) for v in mem.view('int8')]
    return [int(v) for v in mem.tolist()]


def _finite_mem(mem):
    np = _np()
    return mem.dtype.kind != 'f' or bool(np.isfinite(mem).all())


def model_request_arrays(kernel, xm, X, ym, y, om, o, sched):
    """descriptor of the very arrays the real code receives, for the Lean model; None when the model has
    no value for the data (NaN / inf inputs: exact rationals only)"""
    if not (_finite_mem(xm) and _finite_mem(ym)):
        return None
    req = {'op': 'C13.call', 'kernel': kernel, 'elem': 'rat' if X.dtype.kind == 'f' else 'int',
           'X': dict(descriptor(xm, X), dtype=model_dtype_name(X.dtype), buf=_enc_mem(xm)),
           'y': dict(descriptor(ym, y), dtype=model_dtype_name(y.dtype), buf=_enc_mem(ym)),
           'sched': sched or []}
    if o is not None:
        cells = []
        for v in om.tolist():
            if v != v:
                cells.append('nan')
            elif v in (float('inf'), float('-inf')):
                cells.append('untracked')
            else:
                f = Fraction(v)
                cells.append([f.numerator, f.denominator])
        req['out'] = dict(descriptor(om, o), dtype=model_dtype_name(o.dtype), buf=cells,
                          writable=bool(o.flags.writeable))
    return req


def model_request(spec):
    xm, X = build_view(spec['X'])
    ym, y = build_view(spec['y'])
    om = o = None
    if spec.get('out') is not None:
        om, o = build_view(spec['out'])
    return model_request_arrays(spec['kernel'], xm, X, ym, y, om, o, spec.get('sched', []))


def logical_of(spec):
    """the logical data (numpy's own reading of the views) as exact python numbers"""
    _, X = build_view(spec['X'])
    _, y = build_view(spec['y'])
    return logical_arrays(X, y)


def _frac(v):
    return Fraction(v) if math.isfinite(v) else float(v)


def logical_arrays(X, y):
    dt = X.dtype
    if dt.kind == 'f':
        return [[_frac(float(v)) for v in row] for row in X.tolist()], [_frac(float(v)) for v in y.tolist()]
    if dt.kind == 'S':
        return [[int(v) for v in row] for row in X.view('int8').tolist()], [int(v) for v in y.view('int8').tolist()]
    return [[int(v) for v in row] for row in X.tolist()], [int(v) for v in y.tolist()]


# ----------------------------------------------------------------------------------------
# checking one valid case: the property's predicate on the real output, then model vs real
# ----------------------------------------------------------------------------------------

def _unhex(l):
    return [float.fromhex(v) for v in l]


def _bits(x):
    import struct
    return struct.pack('<d', x)


def check_valid(ctx, spec, wres, mres, record=True):
    tags = spec.get('tags', {})
    kernel, dtype = spec['kernel'], spec['X']['dtype']
    rows, ys = logical_of(spec)
    n, w = len(rows), len(ys)
    tol = tol_for(dtype)
    oracles = [row_oracle(kernel, dtype, r, ys) for r in rows]
    any_over = any(o['overflow'] for o in oracles)
    if record:
        ctx.case({k: spec[k] for k in ('kernel', 'X', 'y', 'out', 'threads')},
                 nontrivial=(n > 0 and w > 0),
                 tags=['kernel=' + kernel, 'dtype=' + dtype, 'X=' + tags.get('xl', '?'), 'y=' + tags.get('yl', '?'),
                       'out=' + tags.get('out', '?'), 'values=' + tags.get('vclass', '?'),
                       'threads=%d' % spec.get('threads', 1),
                       'n=0' if n == 0 else ('n=1' if n == 1 else 'n>1'),
                       'w=0' if w == 0 else ('w=1' if w == 1 else 'w>1'),
                       ] + (['X=read-only'] if spec['X'].get('readonly') else []) +
                      (['y=read-only'] if spec['y'].get('readonly') else []) +
                      (['X=np.matrix'] if spec['X'].get('as_matrix') else []) + [
                       'regime=' + ('overflow' if any_over else
                                    ('exact' if all(o['exact'] for o in oracles) else 'rounded'))])
    rp = {k: spec[k] for k in ('kernel', 'X', 'y', 'out', 'threads', 'sched', 'tags') if k in spec}
    if wres is None:
        ctx.violation('the process running the kernels died before finishing this valid call', rp)
        return
    if 'harness_error' in wres:
        raise RuntimeError('worker could not build case: ' + wres['harness_error'])
    if 'err' in wres:
        ctx.violation('%s raised %s on valid input: %s' % (kernel, wres['err'], wres.get('msg', '')), rp)
        return
    # --- predicate: one-dimensional float64 array of length n
    if wres['ret_dtype'] != 'float64' or wres['ret_shape'] != [n] or wres['ret_type'] != 'ndarray':
        ctx.violation('%s returned %s %s of shape %s, not a float64 vector of length %d' % (
            kernel, wres['ret_type'], wres['ret_dtype'], wres['ret_shape'], n), rp)
        return
    ret = _unhex(wres['ret'])
    # --- predicate: per row the norm / fraction
    known, bad = [], []
    unjudged = set()
    for i, (o, r) in enumerate(zip(oracles, ret)):
        if o.get('nonfinite'):
            unjudged.add(i)
            ctx.tag('row-with-nan-or-inf-not-judged')
            continue
        if o.get('in_range') is False:
            unjudged.add(i)
            ctx.skip('float difference/square outside the range of the element format: row not judged')
            continue
        if not value_matches(o['kind'], o['q'], o['exact'], r, tol, o.get('div')):
            (known if o['overflow'] else bad).append(i)
    if bad:
        i = bad[0]
        o = oracles[i]
        ctx.violation('%s(%s) row %d: got %r, the %s is %s%s' % (
            kernel, dtype, i, ret[i], {'euclidean': '2-norm', 'manhattan': '1-norm', 'hamming': 'fraction'}[kernel],
            'sqrt of ' if o['kind'] == 'sqrt' else '', o['q']), dict(rp, row=i, got=ret[i]))
        return
    if known:
        i = known[0]
        ctx.violation('%s(%s) row %d: got %r, exact value is %s%s (a difference or square overflows the C int/long)'
                      % (kernel, dtype, i, ret[i], 'sqrt of ' if oracles[i]['kind'] == 'sqrt' else '', oracles[i]['q']),
                      dict(rp, row=i, got=ret[i]), key=KNOWN_OVERFLOW_KEY)
        ctx.tag('overflow-rows-wrong', len(known))
    elif any_over:
        ctx.tag('overflow-rows-all-exact')
    # --- predicate: the caller's buffer holds the result, nothing else was written
    if spec.get('out') is not None:
        om, o = build_view(spec['out'])
        d = descriptor(om, o)
        before = om.tolist()
        after = _unhex(wres['out_mem'])
        view_after = _unhex(wres['out_view'])
        if not (wres.get('shares') or wres.get('ret_is_out')):
            ctx.violation('%s did not use the supplied out buffer (result does not share its memory)' % kernel, rp)
            return
        if [_bits(a) for a in view_after] != [_bits(a) for a in ret]:
            ctx.violation('%s: the supplied out buffer does not hold the returned result' % kernel, rp)
            return
        pos = set(d['offset'] + i * d['strides'][0] for i in range(n))
        for c in range(len(before)):
            if c not in pos and _bits(before[c]) != _bits(after[c]):
                ctx.violation('%s wrote outside the out view: base cell %d changed from %r to %r' % (
                    kernel, c, before[c], after[c]), rp)
                return
    if not (wres.get('x_same') and wres.get('y_same')):
        ctx.violation('%s wrote into its input arrays' % kernel, rp)
        return
    # --- model vs real
    if mres is None:
        return
    if 'ok' not in mres:
        ctx.disagreement('Model.Dist.call rejects (%s) a call the real code accepts' % mres.get('error'),
                         dict(rp, model=mres))
        return
    m = mres['ok']
    if m['n'] != n or len(m['values']) != n:
        ctx.disagreement('Model.Dist.call: result length %s vs real %d' % (m['n'], n), dict(rp, model=m))
        return
    for i in range(n):
        o = oracles[i]
        if i in unjudged:
            continue
        if o['overflow'] and i not in known:
            continue        # real code exact where the wrap-around model is not: see ASSUMPTIONS
        ok = cell_matches_model(m['values'][i], ret[i], o['exact'], tol, o.get('div'))
        if ok is False:
            if o['overflow']:
                ctx.tag('overflow-row-differs-from-wraparound-model')
                continue
            ctx.disagreement('Model.Dist.call vs libdist.%s: row %d model %s real %r' % (
                kernel, i, m['values'][i], ret[i]), dict(rp, row=i, model=m['values'][i], got=ret[i]))
            return
    if spec.get('out') is not None:
        after = _unhex(wres['out_mem'])
        if len(m['buf']) != len(after) or m['offset'] != d['offset'] or m['stride'] != d['strides'][0]:
            ctx.disagreement('Model.Dist.call: out view (offset %s stride %s len %d) differs from numpy\'s' % (
                m['offset'], m['stride'], len(m['buf'])), rp)
            return
        for c in range(len(after)):
            if c in pos:
                continue
            mc = m['buf'][c]
            a = after[c]
            same = (mc == 'nan' and a != a) or (mc == 'untracked' and a in (float('inf'), float('-inf'))) or \
                (isinstance(mc, dict) and 'v' in mc and a == a and abs(a) != float('inf')
                 and Fraction(a) == Fraction(mc['v'][0], mc['v'][1]))
            if not same:
                ctx.disagreement('Model.Dist.call: untouched out cell %d model %s real %r' % (c, mc, a), rp)
                return


# ----------------------------------------------------------------------------------------
# malformed stream
# ----------------------------------------------------------------------------------------

def _arr(dtype, shape, rng, **kw):
    size = 1
    for s in shape:
        size *= s
    if dtype in FLOATS or dtype in ('float16', 'complex128', 'float128'):
        mem = [float(v) for v in rng.integers(-9, 10, size=size)]
    elif dtype == 'object':
        mem = [int(v) for v in rng.integers(-9, 10, size=size)]
    else:
        lo, hi = INT_INFO[dtype]
        mem = [int(v) for v in rng.integers(max(lo, -9), min(hi, 9) + 1, size=size)]
    return dict({'dtype': dtype, 'mem': enc_vals(mem, dtype) if dtype != 'object' else mem, 'shape': list(shape)}, **kw)


def malformed_cases(rng, thorough):
    """(spec, why) — every one must raise; none may crash the process"""
    cases = []

    def add(why, kernel, X, y, out=None, model=True):
        cases.append({'kernel': kernel, 'X': X, 'y': y, 'out': out, 'threads': int(rng.integers(1, 5)),
                      'why': why, 'model': model})
    kernels = ['euclidean', 'manhattan', 'hamming']
    for kernel in kernels:
        good = [t for t in KERNEL_TYPES[kernel]]
        dts = good if thorough else [good[int(rng.integers(0, len(good)))], good[-1]]
        for dt in dts:
            n, w = int(rng.integers(1, 6)), int(rng.integers(1, 6))
            add('X-rank-1', kernel, _arr(dt, [n * w], rng), _arr(dt, [w], rng))
            add('X-rank-3', kernel, _arr(dt, [n, w, 2], rng), _arr(dt, [w], rng))
            add('X-rank-0', kernel, dict(_arr(dt, [1], rng), index=None, shape=[]), _arr(dt, [w], rng))
            add('y-rank-2', kernel, _arr(dt, [n, w], rng), _arr(dt, [1, w], rng))
            add('y-rank-2-col', kernel, _arr(dt, [n, w], rng), _arr(dt, [w, 1], rng))
            add('y-rank-0', kernel, _arr(dt, [n, w], rng), dict(_arr(dt, [1], rng), shape=[]))
            add('width-y-short', kernel, _arr(dt, [n, w + 1], rng), _arr(dt, [w], rng))
            add('width-y-long', kernel, _arr(dt, [n, w], rng), _arr(dt, [w + int(rng.integers(1, 4))], rng))
            add('width-y-long-view', kernel, _arr(dt, [n, w], rng),
                dict(_arr(dt, [2 * w + 2], rng), index=[[0, None, 2]]))
            add('y-matches-rows-not-columns', kernel, _arr(dt, [w, w + n], rng), _arr(dt, [w], rng))
            add('out-float32', kernel, _arr(dt, [n, w], rng), _arr(dt, [w], rng), _arr('float32', [n], rng))
            add('out-int64', kernel, _arr(dt, [n, w], rng), _arr(dt, [w], rng), _arr('int64', [n], rng))
            add('out-short', kernel, _arr(dt, [n + 1, w], rng), _arr(dt, [w], rng), _arr('float64', [n], rng))
            add('out-long', kernel, _arr(dt, [n, w], rng), _arr(dt, [w], rng), _arr('float64', [n + 2], rng))
            add('out-empty', kernel, _arr(dt, [n, w], rng), _arr(dt, [w], rng), _arr('float64', [0], rng))
            add('out-2d-column', kernel, _arr(dt, [n, w], rng), _arr(dt, [w], rng), _arr('float64', [n, 1], rng))
            add('out-2d-square', kernel, _arr(dt, [n, w], rng), _arr(dt, [w], rng), _arr('float64', [n, n], rng))
            add('out-0d', kernel, _arr(dt, [n, w], rng), _arr(dt, [w], rng), dict(_arr('float64', [1], rng), shape=[]))
            add('out-readonly', kernel, _arr(dt, [n, w], rng), _arr(dt, [w], rng),
                dict(_arr('float64', [n], rng), readonly=True))
            others = [t for t in good if t != dt]
            dt2 = others[int(rng.integers(0, len(others)))]
            add('mixed-dtypes-y', kernel, _arr(dt, [n, w], rng), _arr(dt2, [w], rng))
            add('X-is-list', kernel, dict(_arr(dt, [n, w], rng), as_list=True), _arr(dt, [w], rng), model=False)
            add('X-is-tuple', kernel, dict(_arr(dt, [n, w], rng), as_tuple=True), _arr(dt, [w], rng), model=False)
            add('y-is-list', kernel, _arr(dt, [n, w], rng), dict(_arr(dt, [w], rng), as_list=True), model=False)
            add('out-is-list', kernel, _arr(dt, [n, w], rng), _arr(dt, [w], rng),
                dict(_arr('float64', [n], rng), as_list=True), model=False)
            add('byteswapped-out', kernel, _arr(dt, [n, w], rng), _arr(dt, [w], rng),
                dict(_arr('float64', [n], rng), byteswap=True), model=False)
            if dt not in ('int8', 'uint8'):
                add('byteswapped-y', kernel, _arr(dt, [n, w], rng), dict(_arr(dt, [w], rng), byteswap=True),
                    model=False)
            if dt not in ('int8', 'uint8'):      # one-byte types have no byte order
                add('byteswapped-X', kernel, dict(_arr(dt, [n, w], rng), byteswap=True), _arr(dt, [w], rng),
                    model=False)
        bad = ['float16', 'complex128', 'object'] + \
            (['uint8', 'uint16', 'uint32', 'uint64', 'bool'] if kernel != 'hamming' else ['float32', 'float64'])
        for dt in bad:
            n, w = int(rng.integers(1, 5)), int(rng.integers(1, 5))
            add('unsupported-dtype', kernel, _arr(dt, [n, w], rng), _arr(dt, [w], rng))
            add('unsupported-dtype-y-only', kernel, _arr(KERNEL_TYPES[kernel][0], [n, w], rng), _arr(dt, [w], rng))
            add('unsupported-dtype+bad-width', kernel, _arr(dt, [n, w], rng), _arr(dt, [w + 1], rng))
    return cases


def malformed_model_request(spec):
    def meta(rec):
        _, v = build_view(rec)
        return {'dtype': model_dtype_name(v.dtype), 'shape': [int(s) for s in v.shape],
                'strides': [0] * v.ndim, 'offset': 0, 'buf': [], 'writable': bool(v.flags.writeable)}
    req = {'op': 'C13.call', 'kernel': spec['kernel'], 'elem': 'int', 'X': meta(spec['X']), 'y': meta(spec['y'])}
    if spec.get('out') is not None:
        req['out'] = meta(spec['out'])
    return req


def check_malformed(ctx, spec, wres, mres, record=True):
    rp = {k: spec[k] for k in ('kernel', 'X', 'y', 'out', 'threads', 'why', 'model')}
    rp['malformed'] = True
    if record:
        ctx.case(rp, nontrivial=True, tags=['malformed=' + spec['why'], 'kernel=' + spec['kernel']])
    if wres is None:
        ctx.violation('the process died on malformed input (%s) instead of raising' % spec['why'], rp)
        return
    if 'harness_error' in wres:
        raise RuntimeError('worker could not build malformed case: ' + wres['harness_error'])
    if 'err' not in wres:
        ctx.violation('%s accepted malformed input (%s) and returned %s' % (
            spec['kernel'], spec['why'], wres.get('ret')), rp)
        return
    if not (wres.get('x_same') and wres.get('y_same')):
        ctx.violation('%s modified its inputs while rejecting them' % spec['kernel'], rp)
        return
    if mres is None or not spec.get('model', True):
        ctx.tag('malformed-model-n/a')
        return
    kind = ERR_KIND.get(wres['err'], wres['err'])
    if mres.get('error') != kind:
        ctx.disagreement('error kind for %s: model %s, real %s (%s)' % (
            spec['why'], mres.get('error', 'ok'), kind, wres.get('msg', '')), dict(rp, model=mres, real=wres['err']))


# ----------------------------------------------------------------------------------------
# scripts: several calls on shared named memories (aliasing, buffer reuse, call history)
# ----------------------------------------------------------------------------------------

def _mem_from_snapshot(dtype, snap):
    return build_mem({'dtype': dtype, 'mem': snap})


def script_prestates(sp, wres):
    """memories as they were before each call (initial, then the worker's snapshot after the previous call)"""
    states = [{k: build_mem(v) for k, v in sp['mems'].items()}]
    for r in wres['calls'][:-1]:
        states.append({k: _mem_from_snapshot(sp['mems'][k]['dtype'], v) for k, v in r['mems'].items()})
    return states


def script_model_requests(sp, wres):
    reqs = []
    if wres is None or 'calls' not in wres:
        return [None] * len(sp['calls'])
    for call, st in zip(sp['calls'], script_prestates(sp, wres)):
        if call.get('overlap') or call.get('no_model'):
            reqs.append(None)
            continue
        a = script_views(call, st)
        o = a['out']
        reqs.append(model_request_arrays(call['kernel'], st[call['X']['mem']], a['X'], st[call['y']['mem']], a['y'],
                                         st[call['out']['mem']] if o is not None else None, o, call.get('sched')))
    return reqs


def check_script(ctx, sp, wres, mres_list, record=True):
    np = _np()
    fam = sp['family']
    rp = {'script': True, 'op': 'script', 'family': fam, 'mems': sp['mems'], 'calls': sp['calls']}
    if record:
        ctx.case(rp, nontrivial=True, tags=['script=' + fam] + ['kernel=' + c['kernel'] for c in sp['calls'][:1]])
    if wres is None:
        ctx.violation('the process running the kernels died during the call sequence (%s)' % fam, rp)
        return
    if 'harness_error' in wres:
        raise RuntimeError('worker could not run script: ' + wres['harness_error'])
    states = script_prestates(sp, wres)
    for ci, (call, r, st) in enumerate(zip(sp['calls'], wres['calls'], states)):
        kernel = call['kernel']
        dtype = sp['mems'][call['X']['mem']]['dtype']
        a = script_views(call, st)
        X, y, o = a['X'], a['y'], a['out']
        rows, ys = logical_arrays(X, y)
        n = len(rows)
        where = '%s call %d (%s, %s)' % (fam, ci, kernel, dtype)
        if 'err' in r:
            ctx.violation('%s raised %s on valid input: %s' % (where, r['err'], r.get('msg', '')), dict(rp, call=ci))
            return
        if r['ret_dtype'] != 'float64' or r['ret_shape'] != [n] or r['ret_type'] != 'ndarray':
            ctx.violation('%s returned %s %s of shape %s, not a float64 vector of length %d' % (
                where, r['ret_type'], r['ret_dtype'], r['ret_shape'], n), dict(rp, call=ci))
            return
        if call.get('via_metric'):
            want = 'manhattan' if call['via_metric'] == 'cityblock' else call['via_metric']
            if r.get('metric_is') != [want]:
                ctx.violation('_get_distance_method(%r) is not libdist.%s' % (call['via_metric'], want), dict(rp, call=ci))
                return
        if call.get('via_callable') and not r.get('callable_passthrough'):
            ctx.violation('_get_distance_method(callable) does not return the callable itself', dict(rp, call=ci))
            return
        ret = _unhex(r['ret'])
        if 'ret_at_end' in r and r['ret_at_end'] != r['ret']:
            ctx.violation('%s: the array it returned was changed by a later call (result aliases shared state)'
                          % where, dict(rp, call=ci))
            return
        tol = tol_for(dtype)
        oracles = [row_oracle(kernel, dtype, row, ys) for row in rows]
        if not call.get('overlap'):
            for i, (oc, v) in enumerate(zip(oracles, ret)):
                if oc.get('nonfinite') or oc.get('in_range') is False:
                    continue
                if not value_matches(oc['kind'], oc['q'], oc['exact'], v, tol, oc.get('div')):
                    ctx.violation('%s row %d: got %r, exact value is %s%s' % (
                        where, i, v, 'sqrt of ' if oc['kind'] == 'sqrt' else '', oc['q']),
                        dict(rp, call=ci, row=i, got=v), key=KNOWN_OVERFLOW_KEY if oc['overflow'] else None)
                    return
        else:
            ctx.tag('overlapping-out-values-not-judged')
        if o is not None and not (r.get('shares') or r.get('ret_is_out')):
            ctx.violation('%s did not use the supplied out buffer' % where, dict(rp, call=ci))
            return
        # memory after the call: out positions hold the result, every other cell of every memory is unchanged
        pos, omem = set(), None
        if o is not None:
            omem = call['out']['mem']
            d = descriptor(st[omem], o)
            pos = set(d['offset'] + i * d['strides'][0] for i in range(n))
        for name, snap in r['mems'].items():
            before = mem_snapshot(st[name])
            for c, (b, aft) in enumerate(zip(before, snap)):
                if name == omem and c in pos:
                    continue
                if b != aft:
                    ctx.violation('%s changed cell %d of memory %r (%s -> %s), which is not an element of out' % (
                        where, c, name, b, aft), dict(rp, call=ci))
                    return
        if o is not None and not call.get('overlap'):
            after = _mem_from_snapshot('float64', r['mems'][omem])
            _, oafter = build_view(call['out'], mem=after)
            if [_bits(float(v)) for v in np.asarray(oafter, dtype=float).ravel()] != [_bits(v) for v in ret]:
                ctx.violation('%s: the supplied out buffer does not hold the returned result' % where, dict(rp, call=ci))
                return
        # model
        mr = mres_list[ci] if mres_list else None
        if mr is None:
            ctx.tag('script-call-model-skipped')
            continue
        if 'ok' not in mr or len(mr['ok']['values']) != n:
            ctx.disagreement('Model.Dist.call rejects / mis-sizes (%s) %s' % (mr.get('error'), where),
                             dict(rp, call=ci, model=mr))
            return
        for i, (oc, v) in enumerate(zip(oracles, ret)):
            if oc.get('nonfinite') or oc.get('in_range') is False or oc['overflow']:
                continue
            if cell_matches_model(mr['ok']['values'][i], v, oc['exact'], tol, oc.get('div')) is False:
                ctx.disagreement('Model.Dist.call vs real in %s row %d: model %s real %r' % (
                    where, i, mr['ok']['values'][i], v), dict(rp, call=ci, row=i))
                return


# ----------------------------------------------------------------------------------------
# run / replay
# ----------------------------------------------------------------------------------------

def _vclasses(kernel, dtype):
    if dtype in FLOATS:
        return ['small', 'quarters', 'mid', 'general', 'scale-in-range', 'ulp', 'equal-to-y', 'nonfinite',
                'scale-out-of-range', 'pow2-scaled', 'packed']
    if dtype in ('bool', 'S1'):
        return ['small' if dtype == 'S1' else 'extreme']
    if kernel == 'hamming':
        return ['small', 'extreme', 'big-same-sign', 'equal-to-y', 'boundary', 'pow2-scaled', 'packed']
    if dtype in ('int8', 'int16'):
        return ['small', 'extreme', 'equal-to-y', 'boundary', 'pow2-scaled', 'packed']
    return ['small', 'big-same-sign', 'mid', 'overflow', 'equal-to-y', 'boundary', 'pow2-scaled', 'packed']


def _sizes(rng):
    r = rng.random()
    if r < 0.08:
        return 0, int(rng.integers(0, 5))
    if r < 0.16:
        return int(rng.integers(1, 6)), 0
    if r < 0.26:
        return 1, int(rng.integers(1, 8))
    if r < 0.36:
        return int(rng.integers(1, 20)), 1
    if r < 0.85:
        return int(rng.integers(2, 24)), int(rng.integers(2, 9))
    return int(rng.integers(24, 70)), int(rng.integers(2, 6))


def gen_valid_cases(ctx):
    """systematic sweep kernel x dtype x X-layout (x out mode, y layout, threads cycling) + random fill"""
    rng = ctx.rng
    cases = []
    combos = []
    for kernel in ('euclidean', 'manhattan', 'hamming'):
        dts = list(KERNEL_TYPES[kernel]) + ['S1'] + (['bool'] if kernel == 'hamming' else [])
        for dt in dts:
            for xl in X_LAYOUTS:
                combos.append((kernel, dt, xl))
    reps = ctx.n(3, 10)
    k = int(rng.integers(0, 1000))
    for rep in range(reps):
        for kernel, dt, xl in combos:
            k += 1
            vcs = _vclasses(kernel, dt)
            n, w = _sizes(rng)
            cases.append(make_valid_case(rng, kernel, dt, xl, Y_LAYOUTS[(k // 3) % 3], OUT_MODES[k % 4],
                                         vcs[(k // 5 + rep) % len(vcs)], n, w, 1 + (k % 16)))
    extra = ctx.n(600, 6000)
    for _ in range(extra):
        kernel = ['euclidean', 'manhattan', 'hamming'][int(rng.integers(0, 3))]
        dts = KERNEL_TYPES[kernel]
        dt = dts[int(rng.integers(0, len(dts)))]
        vcs = _vclasses(kernel, dt)
        n, w = _sizes(rng)
        cases.append(make_valid_case(rng, kernel, dt, X_LAYOUTS[int(rng.integers(0, 5))],
                                     Y_LAYOUTS[int(rng.integers(0, 3))], OUT_MODES[int(rng.integers(0, 4))],
                                     vcs[int(rng.integers(0, len(vcs)))], n, w, int(rng.integers(1, 17))))
    # symbols that differ only in high (or only in low) bits: boundary alphabets, small alphabets shifted by
    # every k up to width-1 (thorough) / a handful incl. the top bits (quick), packed two-field symbols
    for kernel in ('hamming', 'euclidean', 'manhattan'):
        for dt in KERNEL_TYPES[kernel]:
            if dt in FLOATS:
                continue
            mk = max_shift(kernel, dt)
            if ctx.thorough:
                ks = list(range(mk + 1))
            else:
                ks = sorted(set([mk, mk - 1, (mk + 1) // 2, (mk + 1) // 2 + 1, int(rng.integers(0, mk + 1))]))
                if kernel != 'hamming':
                    ks = ks[-2:]
            vcs = ['boundary'] + ['pow2-scaled:%d' % k for k in ks if k >= 0] + \
                ['packed:%d' % h for h in ([(mk + 1) // 2, max(1, mk - 2)] if not ctx.thorough
                                           else range(1, mk + 1, max(1, mk // 8)))]
            for vc in vcs:
                k += 1
                cases.append(make_valid_case(rng, kernel, dt, X_LAYOUTS[k % 5], Y_LAYOUTS[k % 3], OUT_MODES[k % 4],
                                             vc, int(rng.integers(2, 14)), int(rng.integers(3, 9)), 1 + k % 16))
    # every thread count on one medium problem per kernel (n well above 16 so that all threads get rows)
    for kernel in ('euclidean', 'manhattan', 'hamming'):
        for t in range(1, 17):
            dt = KERNEL_TYPES[kernel][int(rng.integers(0, len(KERNEL_TYPES[kernel])))]
            cases.append(make_valid_case(rng, kernel, dt, X_LAYOUTS[t % 5], Y_LAYOUTS[t % 3], OUT_MODES[t % 4],
                                         'small', int(rng.integers(40, 120)), int(rng.integers(2, 7)), t))
    return cases


def big_sweeps(ctx):
    """large problems (thousands of rows): all thread counts 1..16, repeated; results must be
    bit-identical across thread counts and repetitions and equal the numpy-evaluated exact value"""
    np = _np()
    rng = ctx.rng
    specs = []
    for kernel in ('euclidean', 'manhattan', 'hamming'):
        dts = KERNEL_TYPES[kernel]
        for dt in ([dts[int(rng.integers(0, len(dts)))]] if not ctx.thorough else dts):
            n, w = int(rng.integers(2000, 6000)), int(rng.integers(4, 40))
            lo, hi = (0, 30) if dt.startswith('uint') else (-30, 30)
            order = 'F' if rng.random() < 0.5 else 'C'
            specs.append({'kernel': kernel, 'big': True,
                          'X': {'dtype': dt, 'gen': {'seed': int(rng.integers(0, 2 ** 31)), 'lo': lo, 'hi': hi,
                                                     'size': 2 * n * w}, 'shape': [2 * n, w], 'order': order,
                                'index': [[0, None, 2], [0, None, 1]]},
                          'y': {'dtype': dt, 'gen': {'seed': int(rng.integers(0, 2 ** 31)), 'lo': lo, 'hi': hi,
                                                     'size': w}, 'shape': [w]},
                          'out': None, 'sweep': list(range(1, 17)), 'repeat': ctx.n(2, 5)})
    return specs


def _gen_spec(rng, kernel, dt, n, w, layout, sweep, repeat, shape_class):
    lo, hi = (0, 30) if dt.startswith('uint') else (-30, 30)
    if layout == 'every-other-row':
        X = {'dtype': dt, 'gen': {'seed': int(rng.integers(0, 2 ** 31)), 'lo': lo, 'hi': hi, 'size': 2 * n * w},
             'shape': [2 * n, w], 'order': 'C', 'index': [[0, None, 2], [0, None, 1]]}
    else:
        X = {'dtype': dt, 'gen': {'seed': int(rng.integers(0, 2 ** 31)), 'lo': lo, 'hi': hi, 'size': n * w},
             'shape': [n, w], 'order': layout}
    return {'kernel': kernel, 'big': True, 'X': X,
            'y': {'dtype': dt, 'gen': {'seed': int(rng.integers(0, 2 ** 31)), 'lo': lo, 'hi': hi, 'size': w},
                  'shape': [w]},
            'out': None, 'sweep': sweep, 'repeat': repeat, 'shape_class': shape_class}


SHAPE_DTYPES = {'euclidean': ['float64', 'float32', 'int16'], 'manhattan': ['float64', 'float32', 'int16'],
                'hamming': ['int16', 'uint8', 'int64']}


def shape_sweeps(ctx):
    """Extreme aspect ratios and sizes, where a performance fast path (split a row across threads when
    n < threads, blocked / collapsed loops for wide or huge inputs, serial path for tiny ones) would
    plausibly switch in: few very wide rows (n in 1,2,3,threads-1; w around 1024/4096/8192/20000),
    very many rows of width 1-2, n around the thread count, n*w in the millions.  Small-integer values
    (exact answer known); threads 1,2,4,8,16, each repeated 3x; every result must be bit-identical to
    the 1-thread result and to the exact value."""
    rng = ctx.rng
    sweep = [1, 2, 4, 8, 16]
    rep = 3
    shapes = {
        'few-wide': [(n, w) for n in (1, 2, 3, 7, 15) for w in (4096, 8192, 20000)],
        'few-wide-threshold': [(n, w) for n in (1, 3) for w in (1023, 1024, 1025, 4095, 4097, 16384, 65536)],
        'many-narrow': [(n, w) for n in (20000, 100000, 300000) for w in (1, 2)],
        'n-near-threads': [(n, w) for n in (2, 4, 5, 8, 9, 16, 17, 32) for w in (3, 512, 5000)],
        'huge-total': [(1000, 2048), (4096, 512), (64, 40000), (200000, 8), (1500, 1500)],
    }
    layouts = ['C', 'F', 'every-other-row']
    specs = []
    k = int(rng.integers(0, 100))
    for kernel in ('euclidean', 'manhattan', 'hamming'):
        for cls, lst in shapes.items():
            if ctx.thorough:
                pick = lst
            else:
                m = {'few-wide': 3, 'few-wide-threshold': 2, 'many-narrow': 1, 'n-near-threads': 2,
                     'huge-total': 1}[cls]
                if cls == 'few-wide':      # each width once, n drawn from the set
                    pick = [(int(rng.choice([1, 2, 3, 7, 15])), w) for w in (4096, 8192, 20000)]
                else:
                    pick = [lst[int(i)] for i in rng.choice(len(lst), size=m, replace=False)]
            for n, w in pick:
                k += 1
                dt = SHAPE_DTYPES[kernel][k % 3]
                specs.append(_gen_spec(rng, kernel, dt, n, w, layouts[(k // 3) % 3] if n * w < 2000000 else 'C',
                                       sweep, rep, cls))
    return specs


def check_big(ctx, spec, wres):
    import hashlib as _h
    np = _np()
    rp = {k: spec[k] for k in ('kernel', 'X', 'y', 'out', 'sweep', 'repeat', 'big')}
    if 'shape_class' in spec:
        rp['shape_class'] = spec['shape_class']
    ctx.case(rp, nontrivial=True, tags=['big-sweep', 'kernel=' + spec['kernel'], 'dtype=' + spec['X']['dtype'],
                                        'shape=' + spec.get('shape_class', 'many-rows')])
    if wres is None:
        ctx.violation('the process died during the large thread sweep', rp)
        return
    if 'harness_error' in wres:
        raise RuntimeError(wres['harness_error'])
    if 'err' in wres:
        ctx.violation('%s raised %s on valid large input' % (spec['kernel'], wres['err']), rp)
        return
    _, X = build_view(spec['X'])
    _, y = build_view(spec['y'])
    Xi, yi = X.astype(np.int64), y.astype(np.int64)     # values are small integers: all arithmetic exact
    if spec['kernel'] == 'euclidean':
        ref = np.sqrt(((Xi - yi) ** 2).sum(axis=1).astype(np.float64))
    elif spec['kernel'] == 'manhattan':
        ref = np.abs(Xi - yi).sum(axis=1).astype(np.float64)
    else:
        ref = (Xi != yi).sum(axis=1).astype(np.float64) / np.float64(len(yi))
    dg = _h.sha1(np.ascontiguousarray(ref).tobytes()).hexdigest()
    ds = set(wres.get('digests', []))
    if wres['ret_shape'] != [X.shape[0]] or wres['ret_dtype'] != 'float64':
        ctx.violation('large sweep: wrong result shape/dtype %s %s' % (wres['ret_shape'], wres['ret_dtype']), rp)
    elif ds != {dg}:
        rep = spec.get('repeat', 1)
        runs = [(t, r) for t in spec['sweep'] for r in range(rep)]
        wrong = sorted(set(t for (t, r), g in zip(runs, wres['digests']) if g != dg))
        ctx.violation('%s(%s) on a %dx%d input: result differs from the exact value with %s OpenMP thread(s) '
                      '(%d distinct results over %d runs with threads %s x %d repetitions%s)'
                      % (spec['kernel'], spec['X']['dtype'], X.shape[0], X.shape[1], wrong, len(ds),
                         len(wres['digests']), spec['sweep'], rep,
                         '; the 1-thread result is exact' if 1 in spec['sweep'] and 1 not in wrong else ''), rp)
    ctx.tag('big-sweep-runs', len(wres.get('digests', [])))


def arithmetic_scope(ctx):
    """tie of the model's C arithmetic / NoOverflow predicates to the independent python classification"""
    rng = ctx.rng
    reqs, exp = [], []
    for dt in ('int8', 'int16', 'int32', 'int64'):
        lo, hi = INT_INFO[dt]
        pts = [lo, lo + 1, -1, 0, 1, hi - 1, hi, lo // 2, hi // 2, 46341, -46341, 3037000500, -3037000500,
               3037000499, 2 ** 31, -2 ** 31 - 1]
        pts = [p for p in pts if lo <= p <= hi]
        pts += [int(v) for v in rng.integers(max(lo, -2 ** 62), min(hi, 2 ** 62), size=ctx.n(6, 30))]
        for x in pts:
            for y in pts:
                for kernel in ('euclidean', 'manhattan'):
                    reqs.append({'op': 'C13.term', 'kernel': kernel, 'dtype': dt, 'x': x, 'y': y})
                    o = row_oracle(kernel, dt, [x], [y])
                    exp.append(o)
    resp = ctx.driver(reqs)
    bad = 0
    for rq, o, r in zip(reqs, exp, resp):
        m = r.get('ok')
        good = m is not None and m['no_overflow'] == (not o['overflow']) and \
            (o['overflow'] or Fraction(m['term'][0], m['term'][1]) == o['q'])
        if not good:
            bad += 1
            if bad <= 3:
                ctx.disagreement('Model.Dist.termInt / NoOverflow vs python classification', dict(rq, model=r, oracle=str(o)))
    ctx.evaluations += len(reqs)
    ctx.tag('arithmetic-scope', len(reqs))
    ctx.note('arithmetic_scope', {'cases': len(reqs), 'mismatches': bad})


def valgrind_run(ctx, specs):
    """supporting evidence (thorough tier): the same worker once under valgrind memcheck on a small
    workload; only errors with a frame inside the libdist extension count"""
    import shutil
    import time
    if not shutil.which('valgrind'):
        ctx.note('valgrind', 'not installed')
        return
    t0 = time.time()
    try:
        results, crash, extra = run_worker(specs, valgrind=True, timeout=1500)
    except Exception as e:  # noqa
        ctx.note('valgrind', 'did not finish: %s' % type(e).__name__)
        return
    n_err, sample = 0, None
    try:
        with open(extra['vlog']) as f:
            log = f.read()
        for blk in re.split(r'\n==\d+== \n', log):
            if 'libdist' in blk and re.search(r'Invalid (read|write)|uninitialised|Mismatched|Invalid free', blk):
                n_err += 1
                sample = sample or blk[-900:]
    except OSError:
        log = ''
    shutil.rmtree(extra.get('dir', ''), ignore_errors=True)
    ctx.note('valgrind', {'cases': len(specs), 'completed': sum(1 for r in results if r is not None),
                          'libdist_errors': n_err, 'wall_s': round(time.time() - t0, 1),
                          'crash': crash and crash['returncode']})
    if n_err and any(v['key'] is None for v in ctx.violations):
        ctx.tag('valgrind-errors-in-libdist', n_err)      # a failing input is already reported: keep that replay
    elif n_err:
        ctx.violation('valgrind memcheck reports %d invalid accesses inside libdist: %s' % (n_err, sample),
                      {'valgrind': True, 'n_cases': len(specs)})


def _script_mem(rng, dtype, size, equalish=False):
    if dtype in FLOATS:
        vals = [float(v) / 4 for v in rng.integers(-80, 81, size=size)]
    else:
        lo, hi = INT_INFO[dtype]
        vals = [int(v) for v in rng.integers(max(lo, -20), min(hi, 20) + 1, size=size)]
    return {'dtype': dtype, 'mem': enc_vals(vals, dtype)}


def gen_scripts(ctx):
    """call sequences on shared memories: y aliasing X, overlapping views, zero-stride broadcasts, one out
    buffer reused with different n, the same argument objects used repeatedly, out overlapping the inputs,
    and the way cluster code obtains / calls the kernels (_get_distance_method by name and by callable,
    positional (X, X[i]))"""
    rng = ctx.rng
    scripts = []
    reps = ctx.n(2, 8)

    def thr():
        return int(rng.integers(1, 17))
    for _ in range(reps):
        for kernel in ('euclidean', 'manhattan', 'hamming'):
            dts = KERNEL_TYPES[kernel]
            dt = dts[int(rng.integers(0, len(dts)))]
            n, w = int(rng.integers(3, 30)), int(rng.integers(2, 9))
            # 1. y is a row of X (what kcenters / kmedoids / assign do: distance_method(traj, traj[i]))
            order = 'F' if rng.random() < 0.4 else 'C'
            step = int(rng.choice([1, 2]))
            N = n * step
            calls = []
            for _k in range(3):
                i = int(rng.integers(0, n))
                c = {'kernel': kernel, 'threads': thr(),
                     'X': {'mem': 'A', 'shape': [N, w], 'order': order, 'index': [[0, None, step], [0, None, 1]]},
                     'y': {'mem': 'A', 'shape': [N, w], 'order': order, 'index': [i * step, [0, None, 1]]},
                     'out': None}
                if kernel != 'hamming' and rng.random() < 0.7:
                    c['via_metric'] = (['euclidean'] if kernel == 'euclidean' else ['manhattan', 'cityblock'])[
                        int(rng.integers(0, 1 if kernel == 'euclidean' else 2))]
                elif rng.random() < 0.5:
                    c['via_callable'] = True
                calls.append(c)
            scripts.append({'op': 'script', 'family': 'y-is-row-of-X', 'mems': {'A': _script_mem(rng, dt, N * w)},
                            'calls': calls})
            # 2. y is a different-stride view of X's buffer
            n2 = max(n, 3)
            scripts.append({'op': 'script', 'family': 'y-strided-view-of-X-buffer',
                            'mems': {'A': _script_mem(rng, dt, n2 * w + 1)},
                            'calls': [{'kernel': kernel, 'threads': thr(),
                                       'X': {'mem': 'A', 'shape': [n2, w], 'order': 'C'},
                                       'y': {'mem': 'A', 'shape': [n2 * w + 1], 'index': [[1, 2 * w + 1, 2]]},
                                       'out': None}]})
            # 3. one out buffer reused across calls with different n (and positionally)
            L = n + 3
            ocalls = []
            for kk, nk in enumerate([n, max(1, n // 2), n - 1, 1, n]):
                oidx = [[0, nk, 1]] if kk % 2 == 0 else [[L - 1, L - 1 - nk, -1]]
                ocalls.append({'kernel': kernel, 'threads': thr(), 'out_positional': kk == 2,
                               'X': {'mem': 'A', 'shape': [n, w], 'order': order, 'index': [[0, nk, 1], [0, None, 1]]},
                               'y': {'mem': 'Y', 'shape': [w]},
                               'out': {'mem': 'O', 'shape': [L], 'index': oidx}})
            scripts.append({'op': 'script', 'family': 'out-reused-with-different-n',
                            'mems': {'A': _script_mem(rng, dt, n * w), 'Y': _script_mem(rng, dt, w),
                                     'O': {'dtype': 'float64', 'mem': enc_vals(garbage(rng, L), 'float64')}},
                            'calls': ocalls})
            # 4. the very same argument objects, three times
            base = {'kernel': kernel, 'reuse_objects': True,
                    'X': {'mem': 'A', 'shape': [n, w], 'order': order}, 'y': {'mem': 'Y', 'shape': [w]},
                    'out': ({'mem': 'O', 'shape': [n]} if rng.random() < 0.6 else None)}
            scripts.append({'op': 'script', 'family': 'same-argument-objects-repeated',
                            'mems': {'A': _script_mem(rng, dt, n * w), 'Y': _script_mem(rng, dt, w),
                                     'O': {'dtype': 'float64', 'mem': enc_vals(garbage(rng, n), 'float64')}},
                            'calls': [dict(base, threads=thr()) for _k in range(3)]})
            # 5. zero-stride broadcast views (read-only)
            scripts.append({'op': 'script', 'family': 'broadcast-zero-stride',
                            'mems': {'A': _script_mem(rng, dt, w), 'C': _script_mem(rng, dt, n),
                                     'Y': _script_mem(rng, dt, w), 'S': _script_mem(rng, dt, 1)},
                            'calls': [{'kernel': kernel, 'threads': thr(), 'out': None,
                                       'X': {'mem': 'A', 'shape': [w], 'broadcast_to': [n, w]},
                                       'y': {'mem': 'Y', 'shape': [w]}},
                                      {'kernel': kernel, 'threads': thr(), 'out': None,
                                       'X': {'mem': 'C', 'shape': [n, 1], 'broadcast_to': [n, w]},
                                       'y': {'mem': 'Y', 'shape': [w]}},
                                      {'kernel': kernel, 'threads': thr(), 'out': None,
                                       'X': {'mem': 'C', 'shape': [n, 1], 'broadcast_to': [n, w]},
                                       'y': {'mem': 'S', 'shape': [1], 'broadcast_to': [w]}}]})
        # 6. out overlapping the inputs (float64 only; values are unspecified: memory safety and shape only)
        for kernel in ('euclidean', 'manhattan'):
            n, w = int(rng.integers(2, 8)), int(rng.integers(8, 12))
            scripts.append({'op': 'script', 'family': 'out-overlaps-input',
                            'mems': {'A': _script_mem(rng, 'float64', n * w), 'Y': _script_mem(rng, 'float64', w)},
                            'calls': [{'kernel': kernel, 'threads': thr(), 'overlap': True,
                                       'X': {'mem': 'A', 'shape': [n, w]}, 'y': {'mem': 'Y', 'shape': [w]},
                                       'out': {'mem': 'A', 'shape': [n, w], 'index': [[0, None, 1], 0]}},
                                      {'kernel': kernel, 'threads': thr(), 'overlap': True,
                                       'X': {'mem': 'A', 'shape': [n, w]}, 'y': {'mem': 'Y', 'shape': [w]},
                                       'out': {'mem': 'Y', 'shape': [w], 'index': [[0, n, 1]]}},
                                      {'kernel': kernel, 'threads': thr(),      # and the data is still usable
                                       'X': {'mem': 'A', 'shape': [n, w]}, 'y': {'mem': 'Y', 'shape': [w]},
                                       'out': None}]})
    return scripts


def run(ctx):
    arithmetic_scope(ctx)
    valid = gen_valid_cases(ctx)
    malformed = malformed_cases(ctx.rng, ctx.thorough)
    bigs = big_sweeps(ctx) + shape_sweeps(ctx)
    metric_specs = [{'op': 'metric', 'metric': m} for m in ('euclidean', 'manhattan', 'cityblock', 'hamming',
                                                             'no-such-metric')]
    thread_specs = [{'op': 'threads', 'threads': t} for t in (1, 3, 16)]
    scripts = gen_scripts(ctx)
    specs = valid + bigs + metric_specs + thread_specs + scripts
    results, crash, _ = run_worker(specs)
    sres = results[len(specs) - len(scripts):]
    results = results[:len(specs) - len(scripts)]
    mresults, mcrash, _ = run_worker(malformed)
    # model
    PLACEHOLDER = {'op': 'C13.arith'}       # keeps the batch aligned where the model has no value (NaN/inf data)
    vreqs = [model_request(sp) for sp in valid]
    sreqs = [script_model_requests(sp, wr) for sp, wr in zip(scripts, sres)]
    flat_s = [r for l in sreqs for r in l]
    reqs = [r or PLACEHOLDER for r in vreqs] + [malformed_model_request(sp) for sp in malformed] + \
        [{'op': 'C13.metric', 'metric': s['metric']} for s in metric_specs] + [r or PLACEHOLDER for r in flat_s] + \
        [{'op': 'C13.arith'}]
    resp = ctx.driver(reqs)
    ctx.note('model_integer_arithmetic', resp.pop().get('ok'))
    sresp = resp[len(resp) - len(flat_s):]
    resp = resp[:len(resp) - len(flat_s)]
    sresp = [m if q is not None else None for m, q in zip(sresp, flat_s)]
    resp = [(m if (k >= len(vreqs) or vreqs[k] is not None) else None) for k, m in enumerate(resp)]
    ctx.tag('model-skipped-nonfinite-input', sum(1 for r in vreqs if r is None))
    mv, mm, mmet = resp[:len(valid)], resp[len(valid):len(valid) + len(malformed)], resp[len(valid) + len(malformed):]
    crash_idx = crash['case_index'] if crash is not None else None
    for k, (sp, wr, mr) in enumerate(zip(valid, results[:len(valid)], mv)):
        if wr is None and crash_idx is not None and k != crash_idx:
            ctx.skip('valid case not reached after an earlier crash of the kernel process')
            continue
        check_valid(ctx, sp, wr, mr)
    off = len(valid)
    for k, (sp, wr) in enumerate(zip(bigs, results[off:off + len(bigs)])):
        if wr is None and crash_idx is not None and off + k != crash_idx:
            ctx.skip('large case not reached after an earlier crash of the kernel process')
            continue
        check_big(ctx, sp, wr)
    off += len(bigs)
    for sp, wr, mr in zip(metric_specs, results[off:off + len(metric_specs)], mmet):
        if wr is None:
            continue
        ctx.case({'metric': sp['metric']}, nontrivial=True, tags=['metric-map'])
        real = wr['fn'][0] if wr.get('fn') else None
        model = mr.get('ok')
        if sp['metric'] in ('euclidean', 'manhattan', 'cityblock'):
            want = 'manhattan' if sp['metric'] == 'cityblock' else sp['metric']
            if real != want:
                ctx.violation('_get_distance_method(%r) does not return libdist.%s (got %s)' % (
                    sp['metric'], want, wr.get('name', wr.get('err'))), {'metric': sp['metric']})
        if model != real:
            ctx.disagreement('metric map: model %s real %s for %r' % (model, real, sp['metric']),
                             {'metric': sp['metric']})
    off += len(metric_specs)
    tinfo = [r.get('info') for r in results[off:] if r]
    k0 = 0
    for si, (sp, wr, rq) in enumerate(zip(scripts, sres, sreqs)):
        ml = sresp[k0:k0 + len(rq)]
        k0 += len(rq)
        if wr is None and crash_idx is not None and crash_idx != len(specs) - len(scripts) + si:
            ctx.skip('script not reached after an earlier crash of the kernel process')
            continue
        check_script(ctx, sp, wr, ml)
    ctx.note('openmp_thread_limits_observed', tinfo)
    for k, (sp, wr, mr) in enumerate(zip(malformed, mresults, mm)):
        if wr is None and mcrash is not None and mcrash['case_index'] != k:
            ctx.skip('malformed case not reached after an earlier crash')
            continue
        check_malformed(ctx, sp, wr, mr)
    if crash is not None or mcrash is not None:
        ctx.note('kernel_process_crash', {'valid_stream': crash, 'malformed_stream': mcrash})
    if ctx.thorough and not ctx.escalated:
        sub = [sp for sp in valid if sp['tags']['n'] <= 12][:60] + malformed[:40]
        sub = [dict(sp, threads=min(sp.get('threads', 1), 4)) for sp in sub]
        valgrind_run(ctx, sub)


def replay(ctx, case):
    if case.get('valgrind'):
        return
    if case.get('metric'):
        wr = run_worker([{'op': 'metric', 'metric': case['metric']}])[0][0]
        mr = ctx.driver([{'op': 'C13.metric', 'metric': case['metric']}])[0]
        real = wr['fn'][0] if wr and wr.get('fn') else None
        if mr.get('ok') != real:
            ctx.disagreement('metric map', case)
        return
    if case.get('op') == 'C13.term':
        r = ctx.driver([{k: case[k] for k in ('op', 'kernel', 'dtype', 'x', 'y')}])[0]
        o = row_oracle(case['kernel'], case['dtype'], [case['x']], [case['y']])
        m = r.get('ok')
        if m is None or m['no_overflow'] != (not o['overflow']):
            ctx.disagreement('Model.Dist.termInt / NoOverflow vs python classification', case)
        return
    if case.get('script'):
        sp = {k: case[k] for k in ('op', 'family', 'mems', 'calls')}
        wr = run_worker([sp])[0][0]
        rq = script_model_requests(sp, wr)
        ml = ctx.driver([r or {'op': 'C13.arith'} for r in rq])
        check_script(ctx, sp, wr, [m if q is not None else None for m, q in zip(ml, rq)])
        return
    if case.get('big'):
        wr = run_worker([case])[0][0]
        check_big(ctx, case, wr)
        return
    if case.get('malformed'):
        wr = run_worker([case])[0][0]
        mr = ctx.driver([malformed_model_request(case)])[0]
        check_malformed(ctx, case, wr, mr)
        return
    sp = {k: case.get(k) for k in ('kernel', 'X', 'y', 'out', 'threads', 'sched', 'tags')}
    sp['sched'] = sp.get('sched') or []
    sp['tags'] = sp.get('tags') or {}
    wr = run_worker([sp])[0][0]
    rq = model_request(sp)
    mr = ctx.driver([rq])[0] if rq is not None else None
    check_valid(ctx, sp, wr, mr)


if __name__ == '__main__':
    import sys
    if len(sys.argv) == 4 and sys.argv[1] == '--worker':
        worker_main(sys.argv[2], sys.argv[3])
