"""C02 - k-centers is farthest-first, never widens the radius, 2-approximate, stops on cue,
and the triangle-inequality shortcut changes nothing."""
import itertools
from fractions import Fraction

import numpy as np

RULE = ('table metrics (X of shape (n,1) holds frame ids, metric(X,y)=D[X[:,0],y[0]]) with small-integer '
        'entries: shortest-path closures of random weighted graphs, L1 on small grids (with and without '
        'duplicate points), points on a line, and arbitrary integer tables (asymmetric, non-zero diagonal) '
        'for the claims that need no metric; plus the compiled euclidean/manhattan kernels on small-integer '
        'points (table = the kernel\'s own float64 output sent as exact rationals). n = 0..30 (brute-force '
        'optimum for n <= 9). Criteria: every combination of n_clusters in {omitted(np.inf), None, '
        'float(inf), 0..n+2} and dist_cutoff in {omitted(0), None, inf, radii occurring in the run, between '
        'radii, 0}; cold start / init_centers taken from the data / off-data / duplicated / empty; '
        'use_triangle_inequality on/off; entry points kcenters() and KCenters.fit(). A case is non-trivial '
        'when at least one iteration ran; distinct by canonical input')
ASSUMPTIONS = [
    'shortcut = plain is checked for cold starts and for initial centers that are distinct data frames at positive '
    'mutual distance (the hypotheses of triangle_shortcut_same_partial) and, as known finding shortcut-offdata-init, '
    'for distinct off-data centers; repeated / coinciding initial centers are only compared with the model',
    'numpy: argmax/argmin return the first extremal index, boolean-mask assignment, full/inf semantics',
    'small-integer table entries and their halves are exact in float64, so the rational model sees the same numbers',
    'the compiled euclidean/manhattan kernels return bit-identical values for a row whether called on the whole '
    'array or on a masked sub-array (their output is what the model gets as its table)',
    'runs that the model predicts never to stop (n_clusters infinite and radius never <= cutoff) are not '
    'executed on the real code (they would hang); they are counted as skipped',
]

ERRS = {'ImproperlyConfigured': 'improperly-configured', 'NotImplementedError': 'not-implemented',
        'ValueError': 'value-error', 'IndexError': 'index-error'}
OMIT = 'omit'


class TooManyCalls(Exception):
    pass


# ----------------------------------------------------------------------------- generators

def closure(W):
    D = W.copy()
    m = len(D)
    for k in range(m):
        D = np.minimum(D, D[:, [k]] + D[[k], :])
    return D


def gen_table(rng, m, kind):
    """m x m integer table"""
    if kind == 'graph':
        big = 10 ** 6
        W = np.full((m, m), big, dtype=np.int64)
        np.fill_diagonal(W, 0)
        order = rng.permutation(m)
        for i in range(1, m):           # random spanning tree -> connected
            j = order[rng.integers(0, i)]
            w = int(rng.integers(1, 4))
            W[order[i], j] = W[j, order[i]] = w
        for _ in range(int(rng.integers(0, m + 1))):
            a, b = rng.integers(0, m, size=2)
            if a != b:
                w = int(rng.integers(1, 4))
                W[a, b] = W[b, a] = min(W[a, b], w)
        return closure(W)
    if kind in ('grid', 'grid-dup'):
        side = 3 if m <= 9 else (4 if m <= 16 else 6)
        cells = [(a, b) for a in range(side) for b in range(side)]
        if kind == 'grid':
            idx = rng.permutation(len(cells))[:m]
        else:
            idx = rng.integers(0, len(cells), size=m)
        P = np.array([cells[i] for i in idx], dtype=np.int64).reshape(m, 2)
        return np.abs(P[:, None, :] - P[None, :, :]).sum(axis=2)
    if kind == 'line':
        P = rng.permutation(2 * m + 1)[:m].astype(np.int64)
        return np.abs(P[:, None] - P[None, :])
    if kind == 'arbitrary':
        T = rng.integers(0, 5, size=(m, m)).astype(np.int64)
        if rng.random() < 0.5:
            np.fill_diagonal(T, 0)
        return T
    raise ValueError(kind)


def is_metric(D):
    """symmetric + triangle inequality, checked exactly (D holds ints or Fractions)"""
    m = len(D)
    for i in range(m):
        for j in range(m):
            if D[i][j] != D[j][i]:
                return False
    for i in range(m):
        for j in range(m):
            for k in range(m):
                if D[i][k] > D[i][j] + D[j][k]:
                    return False
    return True


def separated(D, ids):
    """D i i = 0 on the data and D i j > 0 for i != j (rows/cols restricted to `ids`)"""
    for a in ids:
        if D[a][a] != 0:
            return False
        for b in ids:
            if a != b and not D[a][b] > 0:
                return False
    return True


def radii_of(D, n, centers):
    """the property's own notion: covering radius after each prefix of `centers` (inf when empty)"""
    out = []
    cur = [None] * n
    out.append(None)
    for c in centers:
        cur = [D[f][c] if (cur[f] is None or D[f][c] < cur[f]) else cur[f] for f in range(n)]
        out.append(max(cur) if n else None)
    return out


def gen_case(rng, big=False, kind=None):
    kind = kind or ['graph', 'grid', 'grid-dup', 'line', 'arbitrary'][int(rng.integers(0, 5))]
    r = rng.random()
    if big:
        n = int(rng.integers(10, 31))
    elif r < 0.03:
        n = 0
    elif r < 0.12:
        n = 1
    elif r < 0.2:
        n = 2
    else:
        n = int(rng.integers(3, 10))
    extra = int(rng.integers(0, 3)) if rng.random() < 0.3 else 0
    m = n + extra
    T = gen_table(rng, m, kind) if m > 0 else np.zeros((0, 0), dtype=np.int64)
    table = [[int(x) for x in row] for row in T[:n]]
    full = [[int(x) for x in row] for row in T] if extra else None   # rows of the off-data ids too
    # init centers
    r = rng.random()
    init = None
    if n > 0 and r < 0.45:
        r2 = rng.random()
        if r2 < 0.6:
            k0 = int(rng.integers(1, min(n, 4) + 1))
            init = [int(x) for x in rng.permutation(n)[:k0]]            # distinct data frames
        elif r2 < 0.75 and m > n:
            k0 = int(rng.integers(1, 4))
            init = [int(x) for x in rng.integers(0, m, size=k0)]        # may be off-data ids
        elif r2 < 0.9:
            k0 = int(rng.integers(2, 5))
            init = [int(x) for x in rng.integers(0, n, size=k0)]        # may repeat
        else:
            init = []
    # radii that occur along the farthest-first sequence, to place the cutoff on / between them
    cold_run = []
    if n > 0:
        seq = list(init) if init else [0]
        for _ in range(n + 1):
            curd = [min(table[f][c] for c in seq) for f in range(n)]
            cold_run.append(max(curd))
            seq.append(int(np.argmax(curd)))
    r = rng.random()
    if r < 0.25:
        cutoff = OMIT
    elif r < 0.35:
        cutoff = None
    elif r < 0.40:
        cutoff = 'inf'
    elif r < 0.45:
        cutoff = [0, 1]
    elif cold_run and r < 0.8:
        v = cold_run[int(rng.integers(0, len(cold_run)))]
        cutoff = [int(v), 1] if rng.random() < 0.6 else [2 * int(v) + (1 if rng.random() < 0.5 else -1), 2]
    else:
        cutoff = [int(rng.integers(0, 9)), 2]
    r = rng.random()
    if r < 0.2:
        ncl = OMIT
    elif r < 0.3:
        ncl = None
    elif r < 0.35:
        ncl = 'inf'
    else:
        ncl = int(rng.integers(0, n + 3))
    tri = bool(rng.random() < 0.5)
    rf = bool(rng.random() < 0.02)
    return {'kind': kind, 'n': n, 'table': table, 'full': full, 'n_clusters': ncl, 'cutoff': cutoff,
            'init': init, 'tri': tri, 'random_first': rf, 'via': 'function', 'metric': 'table'}


def gen_offdata_case(rng):
    """true metric on n + extra points; the data are the first n, at least one supplied center is not"""
    kind = ['graph', 'grid', 'line'][int(rng.integers(0, 3))]
    n = int(rng.integers(2, 8))
    extra = int(rng.integers(1, 3))
    m = n + extra
    T = gen_table(rng, m, kind)
    k0 = int(rng.integers(1, 3))
    init = [int(rng.integers(n, m))]
    while len(init) < k0:
        c = int(rng.integers(0, m))
        if c not in init:
            init.append(c)
    init = [int(x) for x in rng.permutation(init)]
    r = rng.random()
    ncl = OMIT if r < 0.2 else int(rng.integers(1, n + 3))
    r = rng.random()
    cutoff = OMIT if (r < 0.5 and ncl != OMIT) else [int(rng.integers(0, 5)), 2]
    return {'kind': 'offdata-' + kind, 'n': n, 'table': [[int(x) for x in row] for row in T[:n]],
            'full': [[int(x) for x in row] for row in T], 'n_clusters': ncl, 'cutoff': cutoff,
            'init': init, 'tri': bool(rng.random() < 0.5), 'random_first': False, 'via': 'function',
            'metric': 'table'}


def gen_kernel_case(rng):
    """euclidean / manhattan kernels on small-integer points"""
    n = int(rng.integers(1, 10))
    d = int(rng.integers(1, 4))
    side = 10 if d == 1 else 4
    cells = list(itertools.product(range(side), repeat=d))
    pts = np.array([cells[i] for i in rng.permutation(len(cells))[:n]]).reshape(n, d)   # distinct points
    dtype = ['float64', 'float32', 'int32', 'int64'][int(rng.integers(0, 4))]
    metric = ['euclidean', 'manhattan'][int(rng.integers(0, 2))]
    r = rng.random()
    ncl = OMIT if r < 0.2 else (None if r < 0.3 else int(rng.integers(1, n + 2)))
    r = rng.random()
    cutoff = OMIT if r < 0.3 else (None if r < 0.4 else [int(rng.integers(0, 7)), 2])
    init = None
    if rng.random() < 0.3:
        init = [int(x) for x in rng.permutation(n)[:int(rng.integers(1, min(n, 3) + 1))]]
    return {'kind': 'kernel-' + metric, 'n': n, 'points': pts.tolist(), 'dtype': dtype, 'metric': metric,
            'n_clusters': ncl, 'cutoff': cutoff, 'init': init, 'tri': bool(rng.random() < 0.5),
            'random_first': False, 'via': 'function'}


# ----------------------------------------------------------------------------- running the real code

def cutoff_value(c):
    if c == 'inf':
        return float('inf')
    if c is None:
        return None
    return c[0] / c[1]


def real_run(case, tri=None, via=None):
    """returns {'ok': {...}} | {'error': kind} | {'hang': True}; also checks that inputs are unchanged"""
    from enspara.cluster import kcenters as kc
    n = case['n']
    tri = case['tri'] if tri is None else tri
    via = via or case.get('via', 'function')
    if case['metric'] == 'table':
        # rows of ids outside the data exist only for the off-data generator (the code as it is never asks
        # for them: it measures frames against centers, never a supplied center against something)
        T = (np.array(case['full'], dtype=float) if case.get('full')
             else np.array(case['table'], dtype=float).reshape(n, -1) if n else np.zeros((0, 0)))
        X = np.arange(n, dtype=float).reshape(n, 1)
        limit = [0, 6 * (n + len(case['init'] or [])) + 60]

        def metric(A, y):
            limit[0] += 1
            if limit[0] > limit[1]:
                raise TooManyCalls()
            return T[A[:, 0].astype(int), int(y[0])].astype(float)
        init = None if case['init'] is None else np.array(case['init'], dtype=float).reshape(-1, 1)
        ids = lambda c: int(c[0])  # noqa
    else:
        X = np.array(case['points'], dtype=case['dtype']).reshape(n, -1)
        metric = case['metric']
        if not isinstance(case['n_clusters'], int):
            # no finite n_clusters: guard the loop against a broken stopping rule (it would never return)
            from enspara.cluster import util as cu
            kernel = cu._get_distance_method(case['metric'])
            klimit = [0, 6 * n + 60]

            def metric(A, y):
                klimit[0] += 1
                if klimit[0] > klimit[1]:
                    raise TooManyCalls()
                return kernel(A, y)
        init = None if case['init'] is None else X[case['init']].copy()
        rows = {tuple(r): i for i, r in reversed(list(enumerate(X.tolist())))}
        ids = lambda c: rows[tuple(np.asarray(c).tolist())]  # noqa
    kwargs = {}
    if case['n_clusters'] != OMIT:
        kwargs['n_clusters'] = float('inf') if case['n_clusters'] == 'inf' else case['n_clusters']
    if case['cutoff'] != OMIT:
        kwargs['dist_cutoff'] = cutoff_value(case['cutoff'])
    x0 = X.tobytes()
    i0 = None if init is None else init.tobytes()
    try:
        if via == 'class':
            est = kc.KCenters(metric, n_clusters=kwargs.get('n_clusters'),
                              cluster_radius=kwargs.get('dist_cutoff'))
            est.fit(X, init_centers=init)
            res = est.result_
        else:
            res = kc.kcenters(X, metric, init_centers=init, use_triangle_inequality=tri,
                              random_first_center=case.get('random_first', False), **kwargs)
    except TooManyCalls:
        return {'hang': True}
    except Exception as e:  # noqa
        name = type(e).__name__
        return {'error': ERRS.get(name, 'other:' + name)}
    if X.tobytes() != x0 or (init is not None and init.tobytes() != i0):
        return {'error': 'other:input-modified'}
    dist = [None if np.isinf(x) else float(x) for x in np.asarray(res.distances, dtype=float)]
    return {'ok': {'center_indices': [int(i) for i in res.center_indices],
                   'centers': [ids(c) for c in res.centers],
                   'assignments': [int(a) for a in np.asarray(res.assignments)],
                   'distances': dist}}


def kernel_table(case):
    from enspara.cluster import util
    f = util._get_distance_method(case['metric'])
    n = case['n']
    X = np.array(case['points'], dtype=case['dtype']).reshape(n, -1)
    cols = [np.asarray(f(X, X[c]), dtype=float) for c in range(n)]
    return [[Fraction(float(cols[c][r])) for c in range(n)] for r in range(n)]


def model_request(case, table, tri=None, fuel=None):
    rq = {'op': 'C02.kcenters', 'n': case['n'],
          'table': [[[x.numerator, x.denominator] if isinstance(x, Fraction) else x for x in row]
                    for row in table],
          'tri': case['tri'] if tri is None else tri, 'init': case['init'],
          'random_first': case.get('random_first', False)}
    nc = case['n_clusters']
    rq['n_clusters'] = 'npinf' if nc == OMIT else nc
    c = case['cutoff']
    rq['cutoff'] = [0, 1] if c == OMIT else c
    if fuel is not None:
        rq['fuel'] = fuel
    return rq


# ----------------------------------------------------------------------------- the property's predicates

def eff_criteria(case):
    """what the property text calls the requested number of centers / requested cutoff
    (None = no bound); returns None when the call is rejected as unconfigured"""
    nc, cut = case['n_clusters'], case['cutoff']
    k = None if nc in (OMIT, None, 'inf') else nc
    if cut in (OMIT,):
        c = Fraction(0)
    elif cut is None:
        c = Fraction(0)
    elif cut == 'inf':
        c = 'inf'
    else:
        c = Fraction(cut[0], cut[1])
    return k, c


def gt(r, c):
    """radius r (None = inf) > cutoff c ('inf' or Fraction)"""
    if c == 'inf':
        return False
    if r is None:
        return True
    return r > c


def check_predicates(ctx, case, table, out, metric_ok, sep_ok):
    """Evaluate the property's words on one real output. `table` holds exact numbers."""
    n = case['n']
    D = table
    ci, cs, lab, dist = out['center_indices'], out['centers'], out['assignments'], out['distances']
    dist = [None if d is None else Fraction(d) for d in dist]
    init = case['init']
    tri = case['tri']
    m = len(ci)
    bad = lambda what: ctx.violation(what, dict(case))  # noqa
    # --- how many centers existed before the loop
    if init is None:
        m0, pre = 0, []
    else:
        # labels of the nearest supplied center (first on ties); centers before the loop are the
        # labels in use
        if len(init) == 0:
            m0 = 1
        else:
            labs = set()
            for f in range(n):
                row = [D[f][c] for c in init]
                labs.add(row.index(min(row)))
            m0 = len(labs)
        pre = list(init)
    if m < m0 or len(cs) != len(pre) + (m - m0):
        bad('number of returned centers inconsistent with the supplied initial centers')
        return False
    new = ci[m0:]
    # --- first center / supplied centers kept
    if init is None:
        if m >= 1 and ci[0] != 0:
            bad('cold start did not pick frame 0 first')
            return False
    else:
        if cs[:len(pre)] != pre:
            bad('supplied initial centers not kept, in order, at the front of result.centers')
            return False
        if sep_ok and init and len(set(init)) == len(init) and all(c < n for c in init) and ci[:m0] != init:
            bad('supplied initial centers (data frames) not kept at the front of center_indices')
            return False
    if cs[len(pre):] != new:
        bad('centers appended by the loop differ from the appended center indices')
        return False
    # --- greedy replay + radius sequence (running minimum over result.centers)
    replay_ok = (not tri) or metric_ok
    seq = list(pre)
    cur = [None] * n
    for c in seq:
        cur = [D[f][c] if (cur[f] is None or D[f][c] < cur[f]) else cur[f] for f in range(n)]
    radii = []

    def mx(a):
        return None if any(x is None for x in a) else max(a)
    for j, c in enumerate(new):
        r = mx(cur)
        radii.append(r)
        if replay_ok:
            vals = [float('inf') if x is None else x for x in cur]
            best = max(vals)
            first = vals.index(best)
            if vals[c] != best:
                bad('center #%d (frame %d) is not a farthest frame (its distance %s < max %s)'
                    % (m0 + j, c, vals[c], best))
                return False
            if c != first:
                bad('center #%d is a farthest frame but not the first one (tie-break)' % (m0 + j))
                return False
        cur = [D[f][c] if (cur[f] is None or D[f][c] < cur[f]) else cur[f] for f in range(n)]
    r_final = mx(cur)
    radii.append(r_final)
    if replay_ok:
        if dist != cur:
            bad('returned distances are not the running minimum over the returned centers')
            return False
        for a, b in zip(radii, radii[1:]):
            if a is not None and (b is None or b > a):
                bad('covering radius grew when a center was added')
                return False
    else:
        # shortcut on a non-metric: only the returned array can be looked at
        r_final = mx(dist)
    # --- stopping rule
    k, c = eff_criteria(case)
    if replay_ok:
        for j in range(len(new)):
            if not ((k is None or m0 + j < k) and gt(radii[j], c)):
                bad('stopped late: iteration at %d centers ran although n_clusters=%s reached or radius %s <= cutoff %s'
                    % (m0 + j, k, radii[j], c))
                return False
    else:
        if len(new) and k is not None and not (m - 1 < k):
            bad('stopped late: more centers than n_clusters')
            return False
    if not ((k is not None and m >= k) or not gt(r_final, c)):
        bad('stopped early: %d centers < n_clusters=%s and radius %s > cutoff %s' % (m, k, r_final, c))
        return False
    if k is not None and len(new) and m > k:
        bad('more centers than n_clusters')
        return False
    # --- 2-approximation (cold start, true metric, exhaustive optimum)
    if init is None and metric_ok and 1 <= m and n <= 9:
        kk = min(m, n)
        best = None
        for S in itertools.combinations(range(n), kk):
            rad = max(min(D[f][s] for s in S) for f in range(n))
            if best is None or rad < best:
                best = rad
        ctx.tag('bruteforce-opt')
        if r_final is None or r_final > 2 * best:
            bad('final radius %s exceeds twice the optimal %d-center radius %s' % (r_final, kk, best))
            return False
    return True


def compare_model(ctx, case, real, model, what):
    if 'error' in real:
        if model.get('error') != real['error']:
            ctx.disagreement('%s: real raised %s, model %s' % (what, real['error'], model), dict(case))
            return False
        return True
    if 'ok' not in model:
        ctx.disagreement('%s: real returned, model %s' % (what, model), dict(case))
        return False
    mo, ro = model['ok'], real['ok']
    md = [None if d is None else Fraction(d[0], d[1]) for d in mo['distances']]
    rd = [None if d is None else Fraction(d) for d in ro['distances']]
    for key in ('center_indices', 'centers', 'assignments'):
        if mo[key] != ro[key]:
            ctx.disagreement('%s: %s differ (real %s, model %s)' % (what, key, ro[key], mo[key]), dict(case))
            return False
    if md != rd:
        ctx.disagreement('%s: distances differ' % what, dict(case))
        return False
    return True


def process(ctx, case, model=None):
    """one case end to end; `model` = driver response if already available"""
    n = case['n']
    if case['metric'] == 'table':
        table = [[Fraction(x) for x in row] for row in case['table']]
    else:
        table = kernel_table(case)
    need_fuel = case['n_clusters'] in (OMIT, None, 'inf')
    fuel = 4 * n + 12 if need_fuel else None
    if model is None:
        model = ctx.driver([model_request(case, table, fuel=fuel)])[0]
    tags = [case['kind'], 'tri' if case['tri'] else 'plain',
            'cold' if case['init'] is None else 'warm', 'via-' + case['via'],
            'ncl=' + ('omit' if case['n_clusters'] == OMIT else
                      'None' if case['n_clusters'] is None else
                      'inf' if case['n_clusters'] == 'inf' else 'int'),
            'cut=' + ('omit' if case['cutoff'] == OMIT else
                      'None' if case['cutoff'] is None else
                      'inf' if case['cutoff'] == 'inf' else 'val'),
            'n=%s' % (n if n <= 3 else '4-9' if n <= 9 else '10+')]
    if model.get('error') == 'out-of-fuel':
        ctx.case(case, nontrivial=False, tags=tags + ['model-diverges(not-run)'])
        ctx.skip('model predicts an endless loop (n_clusters infinite, radius never <= cutoff)')
        return
    real = real_run(case)
    iters = len(model['ok']['trace']) if 'ok' in model else 0
    if 'error' in real:
        tags.append('raises-' + real['error'])
    elif iters == 0:
        tags.append('zero-iterations')
    ctx.case(case, nontrivial=iters > 0, tags=tags)
    if 'error' in real and real['error'].startswith('other:'):
        ctx.violation('kcenters failed with %s' % real['error'], dict(case))
        return
    if 'hang' in real:
        ctx.violation('kcenters did not stop (metric called more often than any stopping run needs)', dict(case))
        return
    # 1. the property's predicates on the real output (independent of the model)
    if 'ok' in real:
        nviol = len(ctx.violations)
        try:
            real_predicates(ctx, case, table, real)
        except Exception as e:  # noqa  (an oracle tripping over a malformed result is a failure of the result)
            ctx.violation('result of kcenters is malformed (%s: %s)' % (type(e).__name__, e), dict(case))
        if len(ctx.violations) > nviol:
            return
    # 2. model against implementation
    compare_model(ctx, case, real, model, 'kcenters (%s)' % case['via'])


def real_predicates(ctx, case, table, real):
    n = case['n']
    rows = table
    idsn = range(n)
    # hypotheses of the metric-dependent claims, checked exactly on the table the code saw
    square = [r[:n] for r in rows]
    metric_ok = is_metric(square) and all((c < n) for c in (case['init'] or []))
    sep_ok = separated(square, idsn)
    if case['init'] is not None and not (sep_ok and len(set(case['init'])) == len(case['init'])
                                         and len(case['init']) > 0):
        # the shortcut presupposes that centers are data frames owning their label
        metric_tri = False
        ctx.tag('degenerate-init')
    else:
        metric_tri = metric_ok
    if metric_ok:
        ctx.tag('true-metric')
    if not check_predicates(ctx, case, rows, real['ok'], metric_tri, sep_ok):
        return
    # supplied centers that are not frames of the data (a true metric on all ids in play)
    init = case['init']
    if (init and any(c >= n for c in init) and len(set(init)) == len(init) and case['via'] == 'function'
            and case.get('full') and is_metric(case['full'])
            and separated(case['full'], sorted(set(range(n)) | set(init)))):
        other = real_run(case, tri=not case['tri'])
        ctx.tag('shortcut-vs-plain(off-data init)')
        if other != real:
            ctx.violation('triangle-inequality shortcut and plain algorithm return different results when a '
                          'supplied initial center is not a frame of the data', dict(case),
                          key='shortcut-offdata-init')
        return
    # model trace against the replayed radii is implied by the equalities above; shortcut vs plain:
    if metric_tri and case['via'] == 'function':
        other = real_run(case, tri=not case['tri'])
        ctx.tag('shortcut-vs-plain')
        if other != real:
            ctx.violation('triangle-inequality shortcut and plain algorithm return different results',
                          dict(case))
            return


def quiet():
    import logging
    logging.getLogger('enspara').setLevel(logging.ERROR)
    # the compiled kernels use OpenMP; with many idle threads a 6-row call costs 0.3 s of spin-waiting
    from enspara.geometry import libdist  # noqa  (loads libgomp)
    from threadpoolctl import threadpool_limits
    threadpool_limits(limits=1, user_api='openmp')


def run(ctx):
    quiet()
    rng = ctx.rng
    cases = [gen_case(rng) for _ in range(ctx.n(700, 9000))]
    cases += [gen_case(rng, big=True) for _ in range(ctx.n(40, 600))]
    # KCenters.fit: only None/int n_clusters, None/value cluster_radius, no shortcut
    for _ in range(ctx.n(150, 1500)):
        c = gen_case(rng)
        c['tri'] = False
        c['random_first'] = False
        if c['n_clusters'] in (OMIT, 'inf'):
            c['n_clusters'] = None
        if c['cutoff'] in (OMIT, 'inf'):
            c['cutoff'] = None
        c['via'] = 'class'
        cases.append(c)
    cases += [gen_offdata_case(rng) for _ in range(ctx.n(120, 1500))]
    # the witness of known finding shortcut-offdata-init (Props/C02.lean, lineOff)
    posoff = (0, 1, 3, 2)
    toff = [[abs(a - b) for b in posoff] for a in posoff]
    cases.append({'kind': 'offdata-witness', 'n': 3, 'table': toff[:3], 'full': toff, 'n_clusters': 4,
                  'cutoff': OMIT, 'init': [3], 'tri': True, 'random_first': False, 'via': 'function',
                  'metric': 'table'})
    # fixed edge cases
    line5 = [[abs(a - b) for b in (0, 1, 2, 3, 4)] for a in (0, 4, 1, 3, 2)]
    pts = (0, 4, 1, 3, 2)
    line5 = [[abs(a - b) for b in pts] for a in pts]
    for ncl in (OMIT, None, 0, 1, 2, 3, 5, 7):
        for cut in (OMIT, None, [0, 1], [1, 1], [3, 2], [2, 1], [4, 1], 'inf'):
            for tri in (False, True):
                for init in (None, [2], [4, 1]):
                    cases.append({'kind': 'line5', 'n': 5, 'table': line5, 'n_clusters': ncl, 'cutoff': cut,
                                  'init': init, 'tri': tri, 'random_first': False, 'via': 'function',
                                  'metric': 'table'})
    reqs = []
    for c in cases:
        table = c['table']
        need_fuel = c['n_clusters'] in (OMIT, None, 'inf')
        reqs.append(model_request(c, table, fuel=4 * c['n'] + 12 if need_fuel else None))
    resp = ctx.driver(reqs)
    for c, r in zip(cases, resp):
        process(ctx, c, r)
    for _ in range(ctx.n(150, 2000)):
        process(ctx, gen_kernel_case(rng))
    # normalisation of the criteria, exhaustive over the kinds of argument
    norm_scope(ctx)


def norm_scope(ctx):
    """the None/inf/0 normalisation against the real function on a 3-point line (all kinds of criteria)"""
    table = [[0, 1, 2], [1, 0, 1], [2, 1, 0]]
    k = 0
    for ncl in (OMIT, None, 'inf', -1, 0, 1, 2, 3, 4):
        for cut in (OMIT, None, 'inf', [0, 1], [-1, 1], [1, 2], [1, 1], [2, 1], [5, 1]):
            for via in ('function', 'class'):
                if via == 'class' and (ncl in (OMIT, 'inf') or cut in (OMIT, 'inf')):
                    continue
                case = {'kind': 'norm-scope', 'n': 3, 'table': table, 'n_clusters': ncl, 'cutoff': cut,
                        'init': None, 'tri': False, 'random_first': False, 'via': via, 'metric': 'table'}
                process(ctx, case)
                k += 1
    ctx.note('criteria_normalisation_scope', {'cases': k})


def replay(ctx, data):
    quiet()
    case = {k: data[k] for k in data if k in ('kind', 'n', 'table', 'full', 'points', 'dtype', 'metric',
                                              'n_clusters', 'cutoff', 'init', 'tri', 'random_first', 'via')}
    process(ctx, case)
