"""C02 - k-centers is farthest-first, never widens the radius, 2-approximate, stops on cue,
and the triangle-inequality shortcut changes nothing."""
import itertools
from fractions import Fraction

import numpy as np

RULE = ('[audit families: n>256 with up to n centers (model in the loop), n=70000 (oracle only), scale 2^-30/2^30, near-tie and all-tie tables, Fortran/strided data, int/float32 id dtypes, int8/int16 kernels, init_centers as list/tuple/view, positional arguments, md.Trajectory+rmsd (tolerance oracle), result fed back as init_centers / repeated calls on the same objects] table metrics (X of shape (n,1) holds frame ids, metric(X,y)=D[X[:,0],y[0]]) with small-integer '
        'entries: shortest-path closures of random weighted graphs, L1 on small grids (with and without '
        'duplicate points), points on a line, and arbitrary integer tables (asymmetric, non-zero diagonal) '
        'for the claims that need no metric; plus the compiled euclidean/manhattan kernels on small-integer '
        'points (table = the kernel\'s own float64 output sent as exact rationals). n = 0..30 (brute-force '
        'optimum for n <= 9). Criteria: every combination of n_clusters in {omitted(np.inf), None, '
        'float(inf), 0..n+2} and dist_cutoff in {omitted(0), None, inf, radii occurring in the run, between '
        'radii, 0}; cold start / init_centers taken from the data / off-data / duplicated / empty; '
        'use_triangle_inequality on/off; entry points kcenters() and KCenters.fit(). A case is non-trivial '
        'when at least one iteration ran; distinct by canonical input')
ASSUMPTIONS = [
    'shortcut = plain is checked for cold starts and for initial centers that are distinct data frames at positive '
    'mutual distance (the hypotheses of triangle_shortcut_same_partial) and, as known finding shortcut-offdata-init, '
    'for distinct off-data centers; repeated / coinciding initial centers are only compared with the model',
    'numpy: argmax/argmin return the first extremal index, boolean-mask assignment, full/inf semantics',
    'small-integer table entries and their halves are exact in float64, so the rational model sees the same numbers',
    'the compiled euclidean/manhattan kernels return bit-identical values for a row whether called on the whole '
    'array or on a masked sub-array (their output is what the model gets as its table)',
    'runs that the model predicts never to stop (n_clusters infinite and radius never <= cutoff) are not '
    'executed on the real code (they would hang); they are counted as skipped',
]

ERRS = {'ImproperlyConfigured': 'improperly-configured', 'NotImplementedError': 'not-implemented',
        'ValueError': 'value-error', 'IndexError': 'index-error'}
OMIT = 'omit'


class TooManyCalls(Exception):
    pass


# ----------------------------------------------------------------------------- generators

def closure(W):
    D = W.copy()
    m = len(D)
    for k in range(m):
        D = np.minimum(D, D[:, [k]] + D[[k], :])
    return D


def gen_table(rng, m, kind):
    """m x m integer table"""
    if kind == 'graph':
        big = 10 ** 6
        W = np.full((m, m), big, dtype=np.int64)
        np.fill_diagonal(W, 0)
        order = rng.permutation(m)
        for i in range(1, m):           # random spanning tree -> connected
            j = order[rng.integers(0, i)]
            w = int(rng.integers(1, 4))
            W[order[i], j] = W[j, order[i]] = w
        for _ in range(int(rng.integers(0, m + 1))):
            a, b = rng.integers(0, m, size=2)
            if a != b:
                w = int(rng.integers(1, 4))
                W[a, b] = W[b, a] = min(W[a, b], w)
        return closure(W)
    if kind in ('grid', 'grid-dup'):
        side = 3 if m <= 9 else (4 if m <= 16 else 6)
        cells = [(a, b) for a in range(side) for b in range(side)]
        if kind == 'grid':
            idx = rng.permutation(len(cells))[:m]
        else:
            idx = rng.integers(0, len(cells), size=m)
        P = np.array([cells[i] for i in idx], dtype=np.int64).reshape(m, 2)
        return np.abs(P[:, None, :] - P[None, :, :]).sum(axis=2)
    if kind == 'line':
        P = rng.permutation(2 * m + 1)[:m].astype(np.int64)
        return np.abs(P[:, None] - P[None, :])
    if kind == 'nearline':
        # positions differ by a relative ~1e-6: near-ties that are not ties (and some that are)
        P = (rng.permutation(2 * m + 1)[:m].astype(np.int64) // 2) * (1 << 20) + rng.integers(0, 3, size=m)
        return np.abs(P[:, None] - P[None, :])
    if kind == 'const':
        # all frames equidistant (or all identical when c = 0): every choice is a tie
        T = np.full((m, m), int(rng.integers(0, 3)), dtype=np.int64)
        np.fill_diagonal(T, 0)
        return T
    if kind == 'arbitrary':
        T = rng.integers(0, 5, size=(m, m)).astype(np.int64)
        if rng.random() < 0.5:
            np.fill_diagonal(T, 0)
        return T
    raise ValueError(kind)


def is_metric(D):
    """symmetric + triangle inequality, checked exactly (D holds ints or Fractions)"""
    m = len(D)
    if m and all(isinstance(x, (int, np.integer)) or (isinstance(x, Fraction) and x.denominator == 1)
                 for row in D for x in row):
        A = np.array([[int(x) for x in row] for row in D], dtype=np.int64)     # exact
        if A.shape[0] != A.shape[1] or (A != A.T).any():
            return False
        return all(((A[:, [j]] + A[[j], :]) >= A).all() for j in range(m))
    for i in range(m):
        for j in range(m):
            if D[i][j] != D[j][i]:
                return False
    for i in range(m):
        for j in range(m):
            for k in range(m):
                if D[i][k] > D[i][j] + D[j][k]:
                    return False
    return True


def separated(D, ids):
    """D i i = 0 on the data and D i j > 0 for i != j (rows/cols restricted to `ids`)"""
    for a in ids:
        if D[a][a] != 0:
            return False
        for b in ids:
            if a != b and not D[a][b] > 0:
                return False
    return True


def radii_of(D, n, centers):
    """the property's own notion: covering radius after each prefix of `centers` (inf when empty)"""
    out = []
    cur = [None] * n
    out.append(None)
    for c in centers:
        cur = [D[f][c] if (cur[f] is None or D[f][c] < cur[f]) else cur[f] for f in range(n)]
        out.append(max(cur) if n else None)
    return out


def gen_case(rng, big=False, kind=None):
    kind = kind or ['graph', 'grid', 'grid-dup', 'line', 'arbitrary', 'nearline', 'const'][
        int(rng.integers(0, 7))]
    r = rng.random()
    if big:
        n = int(rng.integers(10, 31))
    elif r < 0.03:
        n = 0
    elif r < 0.12:
        n = 1
    elif r < 0.2:
        n = 2
    else:
        n = int(rng.integers(3, 10))
    extra = int(rng.integers(0, 3)) if rng.random() < 0.3 else 0
    m = n + extra
    T = gen_table(rng, m, kind) if m > 0 else np.zeros((0, 0), dtype=np.int64)
    table = [[int(x) for x in row] for row in T[:n]]
    full = [[int(x) for x in row] for row in T] if extra else None   # rows of the off-data ids too
    # init centers
    r = rng.random()
    init = None
    if n > 0 and r < 0.45:
        r2 = rng.random()
        if r2 < 0.6:
            k0 = int(rng.integers(1, min(n, 4) + 1))
            init = [int(x) for x in rng.permutation(n)[:k0]]            # distinct data frames
        elif r2 < 0.75 and m > n:
            k0 = int(rng.integers(1, 4))
            init = [int(x) for x in rng.integers(0, m, size=k0)]        # may be off-data ids
        elif r2 < 0.9:
            k0 = int(rng.integers(2, 5))
            init = [int(x) for x in rng.integers(0, n, size=k0)]        # may repeat
        else:
            init = []
    # radii that occur along the farthest-first sequence, to place the cutoff on / between them
    cold_run = []
    if n > 0:
        seq = list(init) if init else [0]
        for _ in range(n + 1):
            curd = [min(table[f][c] for c in seq) for f in range(n)]
            cold_run.append(max(curd))
            seq.append(int(np.argmax(curd)))
    r = rng.random()
    if r < 0.25:
        cutoff = OMIT
    elif r < 0.35:
        cutoff = None
    elif r < 0.40:
        cutoff = 'inf'
    elif r < 0.45:
        cutoff = [0, 1]
    elif cold_run and r < 0.8:
        v = cold_run[int(rng.integers(0, len(cold_run)))]
        cutoff = [int(v), 1] if rng.random() < 0.6 else [2 * int(v) + (1 if rng.random() < 0.5 else -1), 2]
    else:
        cutoff = [int(rng.integers(0, 9)), 2]
    r = rng.random()
    if r < 0.2:
        ncl = OMIT
    elif r < 0.3:
        ncl = None
    elif r < 0.35:
        ncl = 'inf'
    else:
        ncl = int(rng.integers(0, n + 3))
    tri = bool(rng.random() < 0.5)
    rf = bool(rng.random() < 0.02)
    case = {'kind': kind, 'n': n, 'table': table, 'full': full, 'n_clusters': ncl, 'cutoff': cutoff,
            'init': init, 'tri': tri, 'random_first': rf, 'via': 'function', 'metric': 'table'}
    case.update(gen_variant(rng))
    return case


def gen_variant(rng, kernel=False):
    """how the same call is presented: scale, memory layout / dtype of the data, container of the supplied
    centers, positional vs keyword arguments"""
    v = {}
    r = rng.random()
    if not kernel and r < 0.3:
        v['scale_exp'] = [-30, 30][int(rng.integers(0, 2))]          # ~1e-9 / ~1e+9, exact
    r = rng.random()
    if r < 0.3:
        v['layout'] = ['F', 'strided'][int(rng.integers(0, 2))]
    r = rng.random()
    if not kernel and r < 0.3:
        v['xdtype'] = ['int64', 'int32', 'float32'][int(rng.integers(0, 3))]
    r = rng.random()
    if r < 0.5:
        v['init_container'] = ['list-of-arrays', 'list-of-lists', 'tuple', 'view'][int(rng.integers(0, 4))]
    if rng.random() < 0.2:
        v['positional'] = True
    return v


def gen_big_case(rng, i=0):
    """more than 256 frames and up to more than 255 centers (labels / indices beyond one byte)"""
    n = int([257, 300, 330, 400][int(rng.integers(0, 4))])
    kind = ['line', 'grid', 'nearline'][i % 3]
    if kind == 'grid':
        cells = [(a, b) for a in range(21) for b in range(21)]
        idx = rng.permutation(len(cells))[:n]
        P = np.array([cells[i] for i in idx], dtype=np.int64)
        T = np.abs(P[:, None, :] - P[None, :, :]).sum(axis=2)
    else:
        T = gen_table(rng, n, kind)
    r = rng.random()
    ncl = [256, 257, 300, n - 1, n, n + 1][int(rng.integers(0, 6))]
    cutoff = OMIT if r < 0.7 else [int(rng.integers(1, 4)), 1]
    init = None
    if i % 2 == 1:
        init = [int(x) for x in rng.permutation(n)[:int(rng.integers(1, 4))]]
        if i % 4 == 1:
            init = [int(x) for x in sorted(rng.integers(256, n, size=2))]     # labels of frames > 255
            if init[0] == init[1]:
                init = init[:1]
    case = {'kind': 'big-' + kind, 'n': n, 'table': [[int(x) for x in row] for row in T], 'full': None,
            'n_clusters': int(ncl), 'cutoff': cutoff, 'init': init, 'tri': bool(rng.random() < 0.5),
            'random_first': False, 'via': 'function' if i % 4 != 3 else 'class', 'metric': 'table'}
    if case['via'] == 'class':
        case['tri'] = False
        if case['cutoff'] == OMIT:
            case['cutoff'] = None
    case.update(gen_variant(rng))
    return case


def gen_offdata_case(rng):
    """true metric on n + extra points; the data are the first n, at least one supplied center is not"""
    kind = ['graph', 'grid', 'line'][int(rng.integers(0, 3))]
    n = int(rng.integers(2, 8))
    extra = int(rng.integers(1, 3))
    m = n + extra
    T = gen_table(rng, m, kind)
    k0 = int(rng.integers(1, 3))
    init = [int(rng.integers(n, m))]
    while len(init) < k0:
        c = int(rng.integers(0, m))
        if c not in init:
            init.append(c)
    init = [int(x) for x in rng.permutation(init)]
    r = rng.random()
    ncl = OMIT if r < 0.2 else int(rng.integers(1, n + 3))
    r = rng.random()
    cutoff = OMIT if (r < 0.5 and ncl != OMIT) else [int(rng.integers(0, 5)), 2]
    return {'kind': 'offdata-' + kind, 'n': n, 'table': [[int(x) for x in row] for row in T[:n]],
            'full': [[int(x) for x in row] for row in T], 'n_clusters': ncl, 'cutoff': cutoff,
            'init': init, 'tri': bool(rng.random() < 0.5), 'random_first': False, 'via': 'function',
            'metric': 'table'}


def gen_kernel_case(rng):
    """euclidean / manhattan kernels on small-integer points"""
    n = int(rng.integers(1, 10))
    d = int(rng.integers(1, 4))
    side = 10 if d == 1 else 4
    cells = list(itertools.product(range(side), repeat=d))
    pts = np.array([cells[i] for i in rng.permutation(len(cells))[:n]]).reshape(n, d)   # distinct points
    dtype = ['float64', 'float32', 'int32', 'int64', 'int16', 'int8'][int(rng.integers(0, 6))]
    metric = ['euclidean', 'manhattan'][int(rng.integers(0, 2))]
    r = rng.random()
    ncl = OMIT if r < 0.2 else (None if r < 0.3 else int(rng.integers(1, n + 2)))
    r = rng.random()
    cutoff = OMIT if r < 0.3 else (None if r < 0.4 else [int(rng.integers(0, 7)), 2])
    init = None
    if rng.random() < 0.3:
        init = [int(x) for x in rng.permutation(n)[:int(rng.integers(1, min(n, 3) + 1))]]
    case = {'kind': 'kernel-' + metric, 'n': n, 'points': pts.tolist(), 'dtype': dtype, 'metric': metric,
            'n_clusters': ncl, 'cutoff': cutoff, 'init': init, 'tri': bool(rng.random() < 0.5),
            'random_first': False, 'via': 'function'}
    case.update(gen_variant(rng, kernel=True))
    if rng.random() < 0.3:
        # coordinates at ~1e+9 / ~1e-9 (floats only; the table the model sees is the kernel's own output)
        e = [-30, 30][int(rng.integers(0, 2))]
        if dtype in ('float64',) or (dtype == 'float32' and e == 30):
            case['points'] = (pts.astype(float) * 2.0 ** e).tolist()
            if cutoff not in (OMIT, None):
                case['scale_exp'] = e
    return case


# ----------------------------------------------------------------------------- running the real code

def scale_of(case):
    """tables and value cutoffs are multiplied by 2**scale_exp (exact in float64 and in the rationals)"""
    return Fraction(2) ** int(case.get('scale_exp', 0))


def exact_cutoff(case):
    """OMIT | None | 'inf' | Fraction (scaled)"""
    c = case['cutoff']
    if c in (OMIT, None, 'inf'):
        return c
    return Fraction(c[0], c[1]) * scale_of(case)


def cutoff_value(case):
    c = exact_cutoff(case)
    if c == 'inf':
        return float('inf')
    if c is None:
        return None
    return float(c)       # dyadic, exact


def exact_table(case):
    sc = scale_of(case)
    if sc == 1:
        return case['table']              # integers
    return [[x * sc for x in row] for row in case['table']]


def wrap_init(arr, how, X, ids):
    """the supplied centers in different containers (rows are what the metric sees)"""
    if how == 'list-of-arrays':
        return [np.array(r) for r in arr]
    if how == 'list-of-lists':
        return [list(r) for r in arr.tolist()]
    if how == 'tuple':
        return tuple(np.array(r) for r in arr)
    if how == 'view' and ids and ids == list(range(ids[0], ids[0] + len(ids))) and ids[-1] < len(X):
        return X[ids[0]:ids[0] + len(ids)]          # aliases the data
    return arr


def layout(X, how):
    if how == 'F':
        return np.asfortranarray(X)
    if how == 'strided':
        big = np.repeat(X, 2, axis=0)
        big[1::2] = -7                                # rows that must never be read
        return big[::2]
    return X


def snapshot(obj):
    """bytes of an argument, whatever container it is"""
    if obj is None:
        return None
    if isinstance(obj, np.ndarray):
        return ('a', obj.shape, obj.tobytes())
    return (type(obj).__name__, len(obj),
            tuple(r.xyz.tobytes() if hasattr(r, 'xyz') else np.asarray(r).tobytes() for r in obj))


def md_traj(case):
    """small random md.Trajectory (float32 coordinates), deterministic in case['seed']"""
    import mdtraj as md
    r = np.random.default_rng(int(case['seed']))
    n, a = case['n'], case['atoms']
    xyz = r.integers(-8, 9, size=(n, a, 3)).astype(np.float32) / 4
    top = md.Topology()
    res = top.add_residue('ALA', top.add_chain())
    for i in range(a):
        top.add_atom('C%d' % i, md.element.carbon, res)
    return md.Trajectory(xyz, top)


def build_inputs(case):
    """(X, metric, init, ids, raw bytes of X) for one case"""
    n = case['n']
    if case['metric'] == 'table':
        # rows of ids outside the data exist only for the off-data generator (the code as it is never asks
        # for them: it measures frames against centers, never a supplied center against something)
        T = (np.array(case['full'], dtype=float) if case.get('full')
             else np.array(case['table'], dtype=float).reshape(n, -1) if n else np.zeros((0, 0)))
        T = T * float(scale_of(case))
        xdt = case.get('xdtype', 'float64')
        X = layout(np.arange(n, dtype=xdt).reshape(n, 1), case.get('layout', 'C'))
        limit = [0, 6 * (n + len(case['init'] or [])) + 60]

        def metric(A, y):
            limit[0] += 1
            if limit[0] > limit[1]:
                raise TooManyCalls()
            return T[np.asarray(A)[:, 0].astype(int), int(y[0])].astype(float)
        metric.limit = limit
        init = None if case['init'] is None else np.array(case['init'], dtype=xdt).reshape(-1, 1)
        ids = lambda c: int(c[0])  # noqa
    elif case['metric'] == 'rmsd':
        X = md_traj(case)
        metric = 'rmsd'
        init = None if case['init'] is None else [X[i] for i in case['init']]
        keys = {X.xyz[i].tobytes(): i for i in reversed(range(n))}
        ids = lambda c: keys[c.xyz[0].tobytes()]  # noqa
    else:
        X = layout(np.array(case['points'], dtype=case['dtype']).reshape(n, -1), case.get('layout', 'C'))
        metric = case['metric']
        if not isinstance(case['n_clusters'], int):
            # no finite n_clusters: guard the loop against a broken stopping rule (it would never return)
            from enspara.cluster import util as cu
            kernel = cu._get_distance_method(case['metric'])
            klimit = [0, 6 * n + 60]

            def metric(A, y):
                klimit[0] += 1
                if klimit[0] > klimit[1]:
                    raise TooManyCalls()
                return kernel(A, y)
        init = None if case['init'] is None else np.ascontiguousarray(X[case['init']])
        rows = {tuple(r): i for i, r in reversed(list(enumerate(X.tolist())))}
        ids = lambda c: rows[tuple(np.asarray(c).tolist())]  # noqa
    return X, metric, init, ids


def xbytes(X):
    return X.xyz.tobytes() if hasattr(X, 'xyz') else X.tobytes()


def real_run(case, tri=None, via=None):
    """returns {'ok': {...}} | {'error': kind} | {'hang': True}; also checks that inputs are unchanged"""
    from enspara.cluster import kcenters as kc
    n = case['n']
    tri = case['tri'] if tri is None else tri
    via = via or case.get('via', 'function')
    X, metric, init, ids = build_inputs(case)
    how = case.get('init_container', 'array')
    if init is not None and how != 'array' and case['metric'] != 'rmsd':
        if how == 'list-of-lists' and case['metric'] != 'table':
            how = 'list-of-arrays'                    # the compiled kernels need ndarray rows
        init = wrap_init(init, how, X, case['init'])
    kwargs = {}
    if case['n_clusters'] != OMIT:
        kwargs['n_clusters'] = float('inf') if case['n_clusters'] == 'inf' else case['n_clusters']
    if case['cutoff'] != OMIT:
        kwargs['dist_cutoff'] = cutoff_value(case)
    x0 = xbytes(X)
    i0 = snapshot(init)
    try:
        if via == 'class':
            if case.get('positional'):
                est = kc.KCenters(metric, kwargs.get('n_clusters'), kwargs.get('dist_cutoff'),
                                  case.get('random_first', False))
                est.fit(X, init)
            else:
                est = kc.KCenters(metric, n_clusters=kwargs.get('n_clusters'),
                                  cluster_radius=kwargs.get('dist_cutoff'),
                                  random_first_center=case.get('random_first', False))
                est.fit(X, init_centers=init)
            res = est.result_
        elif case.get('positional') and 'n_clusters' in kwargs and 'dist_cutoff' in kwargs:
            res = kc.kcenters(X, metric, kwargs['n_clusters'], kwargs['dist_cutoff'], init,
                              case.get('random_first', False), tri, False)
        else:
            res = kc.kcenters(X, metric, init_centers=init, use_triangle_inequality=tri,
                              random_first_center=case.get('random_first', False), **kwargs)
    except TooManyCalls:
        return {'hang': True}
    except Exception as e:  # noqa
        name = type(e).__name__
        return {'error': ERRS.get(name, 'other:' + name)}
    if xbytes(X) != x0 or snapshot(init) != i0:
        return {'error': 'other:input-modified'}
    dist = [None if np.isinf(x) else float(x) for x in np.asarray(res.distances, dtype=float)]
    return {'ok': {'center_indices': [int(i) for i in res.center_indices],
                   'centers': [ids(c) for c in res.centers],
                   'assignments': [int(a) for a in np.asarray(res.assignments)],
                   'distances': dist}}


def kernel_table(case):
    from enspara.cluster import util
    f = util._get_distance_method(case['metric'])
    n = case['n']
    if case['metric'] == 'rmsd':
        X = md_traj(case)
        cols = [np.asarray(f(X, X[c]), dtype=float) for c in range(n)]
        return [[Fraction(float(cols[c][r])) for c in range(n)] for r in range(n)]
    X = layout(np.array(case['points'], dtype=case['dtype']).reshape(n, -1), case.get('layout', 'C'))
    cols = [np.asarray(f(X, X[c]), dtype=float) for c in range(n)]
    return [[Fraction(float(cols[c][r])) for c in range(n)] for r in range(n)]


def model_request(case, table, tri=None, fuel=None):
    rq = {'op': 'C02.kcenters', 'n': case['n'],
          'table': [[[x.numerator, x.denominator] if isinstance(x, Fraction) else x for x in row]
                    for row in table],
          'tri': case['tri'] if tri is None else tri, 'init': case['init'],
          'random_first': case.get('random_first', False)}
    nc = case['n_clusters']
    rq['n_clusters'] = 'npinf' if nc == OMIT else nc
    c = exact_cutoff(case)
    rq['cutoff'] = [0, 1] if c == OMIT else ([c.numerator, c.denominator] if isinstance(c, Fraction) else c)
    if fuel is not None:
        rq['fuel'] = fuel
    return rq


# ----------------------------------------------------------------------------- the property's predicates

def eff_criteria(case):
    """what the property text calls the requested number of centers / requested cutoff
    (None = no bound); returns None when the call is rejected as unconfigured"""
    nc, cut = case['n_clusters'], exact_cutoff(case)
    k = None if nc in (OMIT, None, 'inf') else nc
    if cut == OMIT or cut is None:
        c = Fraction(0)
    else:
        c = cut           # 'inf' or Fraction
    return k, c


def gt(r, c):
    """radius r (None = inf) > cutoff c ('inf' or Fraction)"""
    if c == 'inf':
        return False
    if r is None:
        return True
    return r > c


def check_predicates(ctx, case, table, out, metric_ok, sep_ok, frames_metric=False):
    """Evaluate the property's words on one real output. `table` holds exact numbers."""
    n = case['n']
    D = table
    ci, cs, lab, dist = out['center_indices'], out['centers'], out['assignments'], out['distances']
    dist = [None if d is None else Fraction(d) for d in dist]
    init = case['init']
    tri = case['tri']
    m = len(ci)
    bad = lambda what: ctx.violation(what, dict(case))  # noqa
    # --- how many centers existed before the loop
    if init is None:
        m0, pre = 0, []
    else:
        # labels of the nearest supplied center (first on ties); centers before the loop are the
        # labels in use
        if len(init) == 0:
            m0 = 1
        else:
            labs = set()
            for f in range(n):
                row = [D[f][c] for c in init]
                labs.add(row.index(min(row)))
            m0 = len(labs)
        pre = list(init)
    if m < m0 or len(cs) != len(pre) + (m - m0):
        bad('number of returned centers inconsistent with the supplied initial centers')
        return False
    new = ci[m0:]
    # --- first center / supplied centers kept
    if init is None:
        if m >= 1 and ci[0] != 0:
            bad('cold start did not pick frame 0 first')
            return False
    else:
        if cs[:len(pre)] != pre:
            bad('supplied initial centers not kept, in order, at the front of result.centers')
            return False
        if sep_ok and init and len(set(init)) == len(init) and all(c < n for c in init) and ci[:m0] != init:
            bad('supplied initial centers (data frames) not kept at the front of center_indices')
            return False
    if cs[len(pre):] != new:
        bad('centers appended by the loop differ from the appended center indices')
        return False
    # --- greedy replay + radius sequence (running minimum over result.centers)
    replay_ok = (not tri) or metric_ok
    seq = list(pre)
    cur = [None] * n
    for c in seq:
        cur = [D[f][c] if (cur[f] is None or D[f][c] < cur[f]) else cur[f] for f in range(n)]
    radii = []

    def mx(a):
        return None if any(x is None for x in a) else max(a)
    for j, c in enumerate(new):
        r = mx(cur)
        radii.append(r)
        if replay_ok:
            vals = [float('inf') if x is None else x for x in cur]
            best = max(vals)
            first = vals.index(best)
            if vals[c] != best:
                bad('center #%d (frame %d) is not a farthest frame (its distance %s < max %s)'
                    % (m0 + j, c, vals[c], best))
                return False
            if c != first:
                bad('center #%d is a farthest frame but not the first one (tie-break)' % (m0 + j))
                return False
        cur = [D[f][c] if (cur[f] is None or D[f][c] < cur[f]) else cur[f] for f in range(n)]
    r_final = mx(cur)
    radii.append(r_final)
    if replay_ok:
        if dist != cur:
            bad('returned distances are not the running minimum over the returned centers')
            return False
        for a, b in zip(radii, radii[1:]):
            if a is not None and (b is None or b > a):
                bad('covering radius grew when a center was added')
                return False
    else:
        # shortcut on a non-metric: only the returned array can be looked at
        r_final = mx(dist)
    # --- stopping rule
    k, c = eff_criteria(case)
    if replay_ok:
        for j in range(len(new)):
            if not ((k is None or m0 + j < k) and gt(radii[j], c)):
                bad('stopped late: iteration at %d centers ran although n_clusters=%s reached or radius %s <= cutoff %s'
                    % (m0 + j, k, radii[j], c))
                return False
    else:
        if len(new) and k is not None and not (m - 1 < k):
            bad('stopped late: more centers than n_clusters')
            return False
    if not ((k is not None and m >= k) or not gt(r_final, c)):
        bad('stopped early: %d centers < n_clusters=%s and radius %s > cutoff %s' % (m, k, r_final, c))
        return False
    if k is not None and len(new) and m > k:
        bad('more centers than n_clusters')
        return False
    # --- 2-approximation (true metric on the frames, exhaustive optimum): the final radius is at most twice
    #     the best radius for as many centers as the loop ADDED (cold start: all of them)
    t = len(new)
    if frames_metric and (replay_ok or not tri) and t >= 1 and n <= 9:
        kk = min(t, n)
        best = None
        for S in itertools.combinations(range(n), kk):
            rad = max(min(D[f][s] for s in S) for f in range(n))
            if best is None or rad < best:
                best = rad
        ctx.tag('bruteforce-opt' + ('' if init is None else '(warm: added centers)'))
        if r_final is None or r_final > 2 * best:
            bad('final radius %s exceeds twice the optimal %d-center radius %s' % (r_final, kk, best))
            return False
    return True


def compare_model(ctx, case, real, model, what):
    if 'error' in real:
        if model.get('error') != real['error']:
            ctx.disagreement('%s: real raised %s, model %s' % (what, real['error'], model), dict(case))
            return False
        return True
    if 'ok' not in model:
        ctx.disagreement('%s: real returned, model %s' % (what, model), dict(case))
        return False
    mo, ro = model['ok'], real['ok']
    md = [None if d is None else Fraction(d[0], d[1]) for d in mo['distances']]
    rd = [None if d is None else Fraction(d) for d in ro['distances']]
    for key in ('center_indices', 'centers', 'assignments'):
        if mo[key] != ro[key]:
            ctx.disagreement('%s: %s differ (real %s, model %s)' % (what, key, ro[key], mo[key]), dict(case))
            return False
    if md != rd:
        ctx.disagreement('%s: distances differ' % what, dict(case))
        return False
    return True


def table_of(case):
    return exact_table(case) if case['metric'] == 'table' else kernel_table(case)


def fuel_of(case):
    return 4 * case['n'] + 12 if case['n_clusters'] in (OMIT, None, 'inf') else None


def process_batch(ctx, cases):
    """one driver call for many cases"""
    tables = [table_of(c) for c in cases]
    resp = ctx.driver([model_request(c, t, fuel=fuel_of(c)) for c, t in zip(cases, tables)])
    for c, t, r in zip(cases, tables, resp):
        process(ctx, c, r, t)


def process(ctx, case, model=None, table=None):
    """one case end to end; `model` = driver response if already available"""
    n = case['n']
    if table is None:
        table = table_of(case)
    if model is None:
        model = ctx.driver([model_request(case, table, fuel=fuel_of(case))])[0]
    tags = [case['kind'], 'tri' if case['tri'] else 'plain',
            'cold' if case['init'] is None else 'warm', 'via-' + case['via'],
            'ncl=' + ('omit' if case['n_clusters'] == OMIT else
                      'None' if case['n_clusters'] is None else
                      'inf' if case['n_clusters'] == 'inf' else 'int'),
            'cut=' + ('omit' if case['cutoff'] == OMIT else
                      'None' if case['cutoff'] is None else
                      'inf' if case['cutoff'] == 'inf' else 'val'),
            'n=%s' % (n if n <= 3 else '4-9' if n <= 9 else '10-255' if n <= 255 else '256+')]
    for key in ('scale_exp', 'layout', 'xdtype', 'init_container'):
        if key in case and (key != 'init_container' or case['init'] is not None):
            tags.append('%s=%s' % (key, case[key]))
    if case.get('positional'):
        tags.append('positional-args')
    if case['metric'] not in ('table', 'rmsd'):
        tags.append('dtype=' + case['dtype'])
    if model.get('error') == 'out-of-fuel':
        ctx.case(case, nontrivial=False, tags=tags + ['model-diverges(not-run)'])
        ctx.skip('model predicts an endless loop (n_clusters infinite, radius never <= cutoff)')
        return
    real = real_run(case)
    iters = len(model['ok']['trace']) if 'ok' in model else 0
    if 'error' in real:
        tags.append('raises-' + real['error'])
    elif iters == 0:
        tags.append('zero-iterations')
    ctx.case(case, nontrivial=iters > 0, tags=tags)
    if 'error' in real and real['error'].startswith('other:'):
        ctx.violation('kcenters failed with %s' % real['error'], dict(case))
        return
    if 'hang' in real:
        ctx.violation('kcenters did not stop (metric called more often than any stopping run needs)', dict(case))
        return
    # 1. the property's predicates on the real output (independent of the model)
    if 'ok' in real:
        nviol = len(ctx.violations)
        try:
            real_predicates(ctx, case, table, real)
        except Exception as e:  # noqa  (an oracle tripping over a malformed result is a failure of the result)
            ctx.violation('result of kcenters is malformed (%s: %s)' % (type(e).__name__, e), dict(case))
        if len(ctx.violations) > nviol:
            return
    # 2. model against implementation
    compare_model(ctx, case, real, model, 'kcenters (%s)' % case['via'])


def real_predicates(ctx, case, table, real):
    n = case['n']
    rows = table
    idsn = range(n)
    # hypotheses of the metric-dependent claims, checked exactly on the table the code saw
    square = [r[:n] for r in (case['table'] if case['metric'] == 'table' else rows)]   # scale-free
    metric_ok = is_metric(square) and all((c < n) for c in (case['init'] or []))
    sep_ok = separated(square, idsn)
    if case['init'] is not None and not (sep_ok and len(set(case['init'])) == len(case['init'])
                                         and len(case['init']) > 0):
        # the shortcut presupposes that centers are data frames owning their label
        metric_tri = False
        ctx.tag('degenerate-init')
    else:
        metric_tri = metric_ok
    if metric_ok:
        ctx.tag('true-metric')
    if not check_predicates(ctx, case, rows, real['ok'], metric_tri, sep_ok, is_metric(square)):
        return
    # supplied centers that are not frames of the data (a true metric on all ids in play)
    init = case['init']
    if (init and any(c >= n for c in init) and len(set(init)) == len(init) and case['via'] == 'function'
            and case.get('full') and is_metric(case['full'])
            and separated(case['full'], sorted(set(range(n)) | set(init)))):
        other = real_run(case, tri=not case['tri'])
        ctx.tag('shortcut-vs-plain(off-data init)')
        if other != real:
            ctx.violation('triangle-inequality shortcut and plain algorithm return different results when a '
                          'supplied initial center is not a frame of the data', dict(case),
                          key='shortcut-offdata-init')
        return
    # model trace against the replayed radii is implied by the equalities above; shortcut vs plain:
    if metric_tri and case['via'] == 'function':
        other = real_run(case, tri=not case['tri'])
        ctx.tag('shortcut-vs-plain')
        if other != real:
            ctx.violation('triangle-inequality shortcut and plain algorithm return different results',
                          dict(case))
            return


def reuse_check(ctx, case):
    try:
        return _reuse_check(ctx, case)
    except Exception as e:  # noqa
        ctx.violation('kcenters raised %s (%s) in the object-reuse scenario' % (type(e).__name__, e),
                      dict(case, family='reuse'))


def _reuse_check(ctx, case):
    """call history: a result fed back as init_centers (the very list object that was returned), the same
    argument objects used for several calls; earlier results and arguments must stay what they were, repeated
    calls must agree, and continuing from k1 centers must give the farthest-first sequence of a cold run"""
    from enspara.cluster import kcenters as kc
    case = dict(case, init=None)
    X, metric, _, ids = build_inputs(case)
    metric.limit[1] = 10 ** 6
    tri, k2 = case['tri'], case['n_clusters']
    k1 = max(1, k2 // 2)
    bad = lambda what: ctx.violation(what, dict(case, family='reuse'))  # noqa
    ctx.case(dict(case, family='reuse'), nontrivial=True,
             tags=['reuse-result-as-init', 'init-object=' + case.get('init_container', 'list')])
    x0 = X.tobytes()
    r1 = kc.kcenters(X, metric, n_clusters=k1, use_triangle_inequality=tri)
    snap = lambda r: ([int(i) for i in r.center_indices], snapshot(list(r.centers)),  # noqa
                      np.asarray(r.assignments).tobytes(), np.asarray(r.distances).tobytes())
    s1 = snap(r1)
    how = case.get('init_container', 'list')
    initobj = np.array(r1.centers) if how == 'array' else (tuple(r1.centers) if how == 'tuple' else r1.centers)
    i0 = snapshot(initobj)
    r2 = kc.kcenters(X, metric, n_clusters=k2, init_centers=initobj, use_triangle_inequality=tri)
    s2 = snap(r2)
    if snap(r1) != s1:
        return bad('a second call changed the result object returned by the first call')
    if snapshot(initobj) != i0 or X.tobytes() != x0:
        return bad('kcenters modified its init_centers / data argument')
    r3 = kc.kcenters(X, metric, n_clusters=k2, init_centers=initobj, use_triangle_inequality=tri)
    if snap(r2) != s2 or snap(r1) != s1 or snapshot(initobj) != i0:
        return bad('a repeated call with the same argument objects changed an earlier result or an argument')
    if snap(r3) != s2:
        return bad('two calls with the same argument objects returned different results')
    cold = kc.kcenters(X, metric, n_clusters=k2, use_triangle_inequality=tri)
    sq = case['table']
    if separated(sq, range(case['n'])) and is_metric(sq):
        if [int(i) for i in r2.center_indices] != [int(i) for i in cold.center_indices]:
            return bad('continuing from the first %d centers does not give the farthest-first sequence of a '
                       'cold run (%s vs %s)' % (k1, list(r2.center_indices), list(cold.center_indices)))
        if np.asarray(r2.distances).tobytes() != np.asarray(cold.distances).tobytes():
            return bad('continuing from the first centers gives other distances than a cold run')


def huge_check(ctx, data):
    try:
        return _huge_check(ctx, data)
    except Exception as e:  # noqa
        ctx.violation('kcenters raised %s (%s) on %d frames' % (type(e).__name__, e, data['n']), dict(data))


def _huge_check(ctx, data):
    """more frames than 16-bit indices can address; too large for a table, so the predicates are evaluated
    with a numpy oracle only (1-d integer points: the euclidean kernel is exact there)"""
    from enspara.cluster import kcenters as kc
    r = np.random.default_rng(int(data['seed']))
    n, k, tri, dtype = data['n'], data['k'], data['tri'], data['dtype']
    far = [int(v) for v in r.permutation(np.arange(65600, n))[:3]]
    if data.get('mode') == 'dense':
        # after the first two centers (values 0 and 1001) every other frame is farther than half their
        # distance from its center, so the shortcut has to recompute (almost) ALL n frames at once:
        # block-wise / windowed recomputation must not lose a tail
        x = r.integers(500, 1001, size=n)
        x[far[0]] = 1001
        x[far[1] if data['warm'] else 0] = 0
        init_ids = [far[1]] if data['warm'] else None
    else:
        x = r.integers(0, 1000, size=n)
        x[far[0]], x[far[1]], x[far[2]] = 5000, -4000, 2500      # unique extreme values, high indices
        init_ids = far[1:] if data['warm'] else None
    X = x.astype(dtype).reshape(n, 1)
    init = None if init_ids is None else X[init_ids].copy()
    ctx.case(data, nontrivial=True, tags=['model-skipped-huge-n', 'n=65536+' if n <= 2 ** 20 else 'n=2^20+',
                                          'huge-' + data.get('mode', 'sparse') + '-recompute', 'dtype=' + dtype,
                                          'tri' if tri else 'plain', 'warm' if data['warm'] else 'cold'])
    bad = lambda what: ctx.violation(what, dict(data))  # noqa
    x0 = X.tobytes()
    res = kc.kcenters(X, 'euclidean', n_clusters=k, init_centers=init, use_triangle_inequality=tri)
    other = kc.kcenters(X, 'euclidean', n_clusters=k, init_centers=init, use_triangle_inequality=not tri)
    if X.tobytes() != x0:
        return bad('data modified')
    ci = [int(i) for i in res.center_indices]
    xf = x.astype(float)
    cur = np.full(n, np.inf)
    pre = init_ids or []
    if ci[:len(pre)] != pre:
        return bad('supplied initial centers (frames %s) not kept at the front of center_indices %s' % (pre, ci))
    for c in pre:
        cur = np.minimum(cur, np.abs(xf - xf[c]))
    if len(ci) != k:
        return bad('number of centers %d != n_clusters %d although the radius is positive' % (len(ci), k))
    last = np.inf
    for c in ci[len(pre):]:
        if c != int(np.argmax(cur)):
            return bad('center %d is not the first farthest frame %d' % (c, int(np.argmax(cur))))
        if cur.max() > last:
            return bad('radius grew')
        last = cur.max()
        cur = np.minimum(cur, np.abs(xf - xf[c]))
    if not np.array_equal(np.asarray(res.distances, dtype=float), cur):
        return bad('returned distances are not the running minimum over the returned centers')
    if ([int(i) for i in other.center_indices] != ci
            or not np.array_equal(np.asarray(other.assignments), np.asarray(res.assignments))
            or not np.array_equal(np.asarray(other.distances), np.asarray(res.distances))):
        return bad('triangle-inequality shortcut and plain algorithm return different results')


def md_check(ctx, data):
    """md.Trajectory data with the 'rmsd' metric.  mdtraj's float32 RMSD is not reproducible to the last
    digits between calls (measured: up to 2e-3 on these inputs, self-distance up to 1.4e-2), so this family
    is checked with a tolerance oracle only; decisions closer than the tolerance are skipped and counted."""
    import mdtraj as md
    from enspara.cluster import kcenters as kc
    tol = 2e-2
    case = {k: data[k] for k in data if k != 'family'}
    n, k, init_ids, tri = case['n'], case['n_clusters'], case['init'], case['tri']
    ref = md_traj(case)
    Tm = np.array([md.rmsd(ref, ref[c]) for c in range(n)], dtype=float).T        # Tm[f, c]
    ctx.case(data, nontrivial=True, tags=['model-skipped-md-rmsd', 'md-rmsd', 'tri' if tri else 'plain',
                                          'cold' if init_ids is None else 'warm', 'via-' + case['via']])
    bad = lambda what: ctx.violation(what, dict(data))  # noqa

    def run(tri_flag):
        X = md_traj(case)
        init = None if init_ids is None else [X[i] for i in init_ids]
        if case['via'] == 'class':
            est = kc.KCenters('rmsd', n_clusters=k, cluster_radius=None)
            est.fit(X, init_centers=init)
            return est.result_, X
        return kc.kcenters(X, 'rmsd', n_clusters=k, init_centers=init, use_triangle_inequality=tri_flag), X
    try:
        res, X = run(tri)
        other = run(not tri)[0] if case['via'] == 'function' else None
    except Exception as e:  # noqa
        return bad('kcenters on an md.Trajectory raised %s: %s' % (type(e).__name__, e))
    ci = [int(i) for i in res.center_indices]
    pre = init_ids or []
    off = np.abs(Tm - Tm.T).max() + np.abs(np.diag(Tm)).max()
    sep = (Tm + np.eye(n) * 9).min()
    if sep < 10 * tol or off > tol:
        return ctx.skip('md-rmsd frames too close for the tolerance oracle')
    if ci[:len(pre)] != pre:
        return bad('supplied initial centers (frames %s) not kept at the front of center_indices %s' % (pre, ci))
    # centers returned are the frames at the returned indices
    for c, fr in zip(ci[len(pre):], res.centers[len(pre):]):
        if not hasattr(fr, 'xyz') or md.rmsd(fr, ref[c])[0] > tol:
            return bad('returned center is not the frame at the returned index')
    cur = np.full(n, np.inf)
    for c in pre:
        cur = np.minimum(cur, Tm[:, c])
    if len(ci) != max(k, len(pre)) and len(ci) != min(n, max(k, len(pre))):
        return bad('number of centers %d, n_clusters %d' % (len(ci), k))
    last, near_tie = np.inf, False
    for c in ci[len(pre):]:
        top = np.sort(cur)[::-1]
        if cur[c] < top[0] - tol:
            return bad('center (frame %d, distance %.4f) is not a farthest frame (max %.4f)' % (c, cur[c], top[0]))
        if len(top) > 1 and np.isfinite(top[0]) and top[0] - top[1] < tol:
            near_tie = True
        if np.isfinite(last) and cur.max() > last + tol:
            return bad('radius grew')
        last = cur.max()
        cur = np.minimum(cur, Tm[:, c])
    if np.abs(np.asarray(res.distances, dtype=float) - cur).max() > tol:
        return bad('returned distances are not the running minimum over the returned centers')
    if other is not None:
        if [int(i) for i in other.center_indices] != ci:
            if near_tie:
                return ctx.skip('md-rmsd near-tie between farthest frames')
            return bad('triangle-inequality shortcut and plain algorithm choose different centers')
        if np.abs(np.asarray(other.distances, dtype=float) - np.asarray(res.distances, dtype=float)).max() > tol:
            return bad('triangle-inequality shortcut and plain algorithm return different distances')


def gen_md_case(rng):
    n = int(rng.integers(2, 13))
    k = int(rng.integers(1, n + 1))
    init = None
    if rng.random() < 0.3:
        init = [int(x) for x in rng.permutation(n)[:int(rng.integers(1, min(n, 3) + 1))]]
    return {'kind': 'md-rmsd', 'metric': 'rmsd', 'n': n, 'atoms': int(rng.integers(3, 7)),
            'seed': int(rng.integers(0, 2 ** 31)), 'n_clusters': k, 'cutoff': OMIT if rng.random() < 0.6 else None,
            'init': init, 'tri': bool(rng.random() < 0.5), 'random_first': False,
            'via': 'function' if rng.random() < 0.7 else 'class'}


def quiet():
    import logging
    import os
    os.environ.setdefault('OMP_NUM_THREADS', '1')
    logging.getLogger('enspara').setLevel(logging.ERROR)
    # the compiled kernels use OpenMP; with many idle threads a 6-row call costs 0.3 s of spin-waiting
    from enspara.geometry import libdist  # noqa  (loads libgomp)
    from threadpoolctl import threadpool_limits
    threadpool_limits(limits=1, user_api='openmp')


def run(ctx):
    quiet()
    rng = ctx.rng
    cases = [gen_case(rng) for _ in range(ctx.n(550, 9000))]
    cases += [gen_case(rng, big=True) for _ in range(ctx.n(40, 600))]
    # KCenters.fit: only None/int n_clusters, None/value cluster_radius, no shortcut
    for _ in range(ctx.n(150, 1500)):
        c = gen_case(rng)
        c['tri'] = False
        c['random_first'] = False
        if c['n_clusters'] in (OMIT, 'inf'):
            c['n_clusters'] = None
        if c['cutoff'] in (OMIT, 'inf'):
            c['cutoff'] = None
        c['via'] = 'class'
        cases.append(c)
    cases += [gen_offdata_case(rng) for _ in range(ctx.n(80, 1500))]
    # the witness of known finding shortcut-offdata-init (Props/C02.lean, lineOff)
    posoff = (0, 1, 3, 2)
    toff = [[abs(a - b) for b in posoff] for a in posoff]
    cases.append({'kind': 'offdata-witness', 'n': 3, 'table': toff[:3], 'full': toff, 'n_clusters': 4,
                  'cutoff': OMIT, 'init': [3], 'tri': True, 'random_first': False, 'via': 'function',
                  'metric': 'table'})
    # fixed edge cases
    line5 = [[abs(a - b) for b in (0, 1, 2, 3, 4)] for a in (0, 4, 1, 3, 2)]
    pts = (0, 4, 1, 3, 2)
    line5 = [[abs(a - b) for b in pts] for a in pts]
    for ncl in (OMIT, None, 0, 1, 2, 3, 5, 7):
        for cut in (OMIT, None, [0, 1], [1, 1], [3, 2], [2, 1], [4, 1], 'inf'):
            for tri in (False, True):
                for init in (None, [2], [4, 1]):
                    cases.append({'kind': 'line5', 'n': 5, 'table': line5, 'n_clusters': ncl, 'cutoff': cut,
                                  'init': init, 'tri': tri, 'random_first': False, 'via': 'function',
                                  'metric': 'table'})
    process_batch(ctx, cases)
    process_batch(ctx, [gen_kernel_case(rng) for _ in range(ctx.n(150, 2000))])
    # sizes beyond one byte of labels / centers (model still in the loop)
    for i in range(ctx.n(4, 40)):
        process_batch(ctx, [gen_big_case(rng, i)])
    # sizes beyond 16-bit indices (oracle only)
    for i in range(ctx.n(3, 12)):
        huge_check(ctx, {'family': 'huge', 'n': 70000, 'seed': int(rng.integers(0, 2 ** 31)), 'k': 4,
                         'tri': bool(i % 2), 'warm': bool(i % 3 == 1),
                         'dtype': ['int64', 'float64', 'int32', 'float32'][i % 4]})
    # the shortcut recomputing more than 2**16 / 2**20 frames in one iteration (just above each)
    dense = [(2 ** 16 + 4099, 'float32', False), (2 ** 20 + 4099, 'int32', True),
             (3 * 2 ** 20 + 4099, 'float32', False)]
    if ctx.thorough:
        dense += [(3 * 2 ** 20 + 4099, 'int64', True), (2 * 2 ** 16 + 77, 'int64', True),
                  (2 ** 20 + 1, 'float64', False)]
    for nn, dt, warm in dense:
        huge_check(ctx, {'family': 'huge', 'mode': 'dense', 'n': nn, 'seed': int(rng.integers(0, 2 ** 31)),
                         'k': 4, 'tri': True, 'warm': warm, 'dtype': dt})
    # md.Trajectory data with the 'rmsd' metric (the containers with an .xyz)
    for _ in range(ctx.n(25, 300)):
        c = gen_md_case(rng)
        if c['via'] == 'class':
            c['tri'] = False
        md_check(ctx, dict(c, family='md'))
    # call history / object reuse
    k = 0
    while k < ctx.n(40, 400):
        c = gen_case(rng, kind=['graph', 'grid', 'line', 'nearline'][int(rng.integers(0, 4))])
        if c['n'] < 3:
            continue
        c.update(init=None, n_clusters=int(rng.integers(2, c['n'] + 1)), cutoff=OMIT, via='function',
                 random_first=False, init_container=['list', 'array', 'tuple'][int(rng.integers(0, 3))])
        c.pop('positional', None)
        reuse_check(ctx, c)
        k += 1
    # normalisation of the criteria, exhaustive over the kinds of argument
    norm_scope(ctx)


def norm_scope(ctx):
    """the None/inf/0 normalisation against the real function on a 3-point line (all kinds of criteria)"""
    table = [[0, 1, 2], [1, 0, 1], [2, 1, 0]]
    cases = []
    for ncl in (OMIT, None, 'inf', -1, 0, 1, 2, 3, 4):
        for cut in (OMIT, None, 'inf', [0, 1], [-1, 1], [1, 2], [1, 1], [2, 1], [5, 1]):
            for via in ('function', 'class'):
                if via == 'class' and (ncl in (OMIT, 'inf') or cut in (OMIT, 'inf')):
                    continue
                cases.append({'kind': 'norm-scope', 'n': 3, 'table': table, 'n_clusters': ncl, 'cutoff': cut,
                              'init': None, 'tri': False, 'random_first': False, 'via': via,
                              'metric': 'table'})
                if ncl not in (OMIT,) and cut not in (OMIT,):
                    cases.append(dict(cases[-1], positional=True))
    process_batch(ctx, cases)
    ctx.note('criteria_normalisation_scope', {'cases': len(cases)})


def replay(ctx, data):
    quiet()
    case = {k: data[k] for k in data if k in ('kind', 'n', 'table', 'full', 'points', 'dtype', 'metric',
                                              'n_clusters', 'cutoff', 'init', 'tri', 'random_first', 'via',
                                              'scale_exp', 'layout', 'xdtype', 'init_container', 'positional', 'seed', 'atoms')}
    if data.get('family') == 'reuse':
        reuse_check(ctx, case)
        return
    if data.get('family') == 'huge':
        huge_check(ctx, data)
        return
    if data.get('family') == 'md':
        md_check(ctx, data)
        return
    process(ctx, case)
