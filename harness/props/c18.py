"""C18 - joint counts are exact; mutual information obeys its algebraic laws."""
import json
import math
import os
import re
import subprocess
import sys
import warnings
from fractions import Fraction

import numpy as np

# libgomp's default is to spin at barriers; on a loaded machine a 16-thread call of a tiny kernel then costs
# 0.15 s instead of 0.1 ms.  Must be set before libgomp initialises (the extensions are imported lazily).
os.environ.setdefault('OMP_WAIT_POLICY', 'PASSIVE')

RULE = ('random integer feature trajectories (1..40 frames, 1..4 features and 1..6 states per side, equal or '
        'different on the two sides; larger 2000-frame x 40-feature tables for the thread sweep) in each of the 8 '
        'integer dtypes (same or mixed on the two sides, ids up to the dtype maximum), as C / Fortran / strided / '
        'reversed views and 1-D vectors, run under 1..16 OpenMP threads; malformed streams (negative id, id = n, '
        'id > n, different lengths, zero frames, zero features, mixed dtypes with a negative id, state count too '
        'large for a C int); 1-D streams for libinfo.bincount2d (valid and malformed); every call of the compiled '
        'kernels runs in a child process; count tables from the real kernel feed mutual_information / '
        'mi_matrix (1..4 pooled trajectories) / weighted_mi (uniform and random weights) / '
        'channel_capacity_normalization (n_x != n_y, different lengths, scalar or vector) / kl_divergence (zeros, '
        'bases 2, e, 10, 1.5) / shannon_entropy; a case is non-trivial when at least two states occur; distinct by '
        'canonical input')
ASSUMPTIONS = [
    'fewer than 2**32 frames per (feature pair, state pair) cell: counts are uint32 in the code and Nat in the model '
    '(the code asserts a.shape[1] < 2**32, i.e. the number of FEATURES, not of frames; untestable here)',
    'numpy basic indexing / strides, astype between integer dtypes (two\'s-complement wrap), np.add.at (oracle), libm log',
    'libgomp honours threadpoolctl limits (user_api="openmp", checked via omp thread count in the evidence); runs use '
    'OMP_WAIT_POLICY=PASSIVE (threads sleep instead of spinning at barriers); the OS scheduler picks the interleaving '
    '(the theorem covers every interleaving; the run samples some)',
    'float arithmetic of mutual_information / weighted_mi / kl_divergence / shannon_entropy agrees with the exact '
    'rational terms of the model within 1e-9 (rounding is not modelled)',
    'not modelled, exercised on the real code only: memory layout (C / Fortran / strided / reversed views), '
    'and weighted_mi\'s trailing np.clip(mi, 0, inf) (the harness applies max(0, .) to the model value); its default '
    'state counts are int(features.max())+1, modelled as the integer max+1 (ids at the dtype maximum are exercised)',
    'state counts passed to the kernel fit a C int (larger values raise OverflowError, modelled and checked)',
]
TRUSTED_EXTRA = ['Model.Sched / Proofs.Sched (interleaving independence, shared with C13/C15)']

DTYPES = ['int8', 'int16', 'int32', 'int64', 'uint8', 'uint16', 'uint32', 'uint64']
LAYOUTS = ['C', 'F', 'strided', 'reversed']
TOL = 1e-9
HERE = os.path.dirname(os.path.abspath(__file__))


# --------------------------------------------------------------------------------------
# translator: the statements of the two counting kernels, extracted from libinfo.pyx on every run

def _lean_str(x):
    return '"' + x.replace('\\', '\\\\').replace('"', '\\"') + '"'


def _split_top(expr, sep):
    """split at top-level occurrences of `sep` (outside brackets and string literals)"""
    out, depth, cur, q, i = [], 0, '', None, 0
    while i < len(expr):
        ch = expr[i]
        if q:
            cur += ch
            if ch == '\\' and i + 1 < len(expr):
                cur += expr[i + 1]
                i += 1
            elif ch == q:
                q = None
        elif ch in '"\'':
            q = ch
            cur += ch
        elif ch in '([{':
            depth += 1
            cur += ch
        elif ch in ')]}':
            depth -= 1
            cur += ch
        elif depth == 0 and expr.startswith(sep, i):
            out.append(cur)
            cur = ''
            i += len(sep) - 1
        else:
            cur += ch
        i += 1
    out.append(cur)
    return out


def _strip_comment(line):
    q = None
    for i, ch in enumerate(line):
        if q:
            if ch == q:
                q = None
        elif ch in '"\'':
            q = ch
        elif ch == '#':
            return line[:i]
    return line


def _function_lines(src, name):
    """(parameter names, [(indent, statement)]) of `def name(...)`: comments, blank lines and the docstring
    removed, continuation lines joined"""
    lines = src.split('\n')
    k = next((i for i, ln in enumerate(lines) if re.match(r'^def\s+%s\s*\(' % re.escape(name), ln)), None)
    if k is None:
        return None, []
    sig = ''
    while True:
        sig += ' ' + _strip_comment(lines[k]).strip()
        k += 1
        if sig.rstrip().endswith(':') and sig.count('(') == sig.count(')'):
            break
        if k >= len(lines):
            return None, []
    inner = sig[sig.index('(') + 1: sig.rindex(')')]
    params = []
    for x in _split_top(inner, ','):
        if x.strip():
            toks = re.split(r'\s+', x.strip().split('=')[0].strip())
            params.append((toks[-1], ' '.join(toks[:-1]) or 'object'))
    # decorators directly above the def, and module-level `# cython:` directive comments
    k0 = next(i for i, ln in enumerate(lines) if re.match(r'^def\s+%s\s*\(' % re.escape(name), ln))
    decos, j = [], k0 - 1
    while j >= 0 and (lines[j].startswith('@') or not lines[j].strip() or lines[j].lstrip().startswith('#')):
        if lines[j].startswith('@'):
            decos.append(re.sub(r'\s+', '', _strip_comment(lines[j])))
        elif not lines[j].strip():
            break
        j -= 1
    decos = sorted(decos) + sorted('module:' + re.sub(r'\s+', '', ln.lstrip('# '))
                                   for ln in lines if re.match(r'^#\s*cython\s*:', ln))
    _function_lines.decorators = decos
    body, cur, ind, doc = [], '', None, None
    for ln in lines[k:]:
        raw = ln
        if doc:                                   # inside a docstring
            if doc in raw:
                doc = None
            continue
        code = _strip_comment(raw).rstrip()
        if not code.strip():
            continue
        if cur == '' and not code.startswith(' '):
            break                                 # next top-level statement / decorator
        if cur == '':
            st = code.strip()
            m = re.match(r'^[rbuf]*("""|\'\'\')', st)
            if m and not body:                    # docstring of the function
                if st.count(m.group(1)) < 2:
                    doc = m.group(1)
                continue
            ind = len(code) - len(code.lstrip(' '))
            cur = st
        else:
            cur += ' ' + code.strip()
        if sum(cur.count(c) for c in '([{') <= sum(cur.count(c) for c in ')]}'):
            body.append((ind, re.sub(r'\s+', ' ', cur)))
            cur = ''
    return params, body


_IDENT = r'[A-Za-z_]\w*'


def _subst(expr, env):
    """replace identifiers by their aliases (not attribute names after a dot, not keyword-argument names)"""
    def rep(m):
        pre = expr[max(0, m.start() - 1):m.start()]
        post = expr[m.end():m.end() + 1]
        if pre == '.' or (post == '=' and expr[m.end():m.end() + 2] != '=='):
            return m.group(0)
        return env.get(m.group(0), m.group(0))
    prev = None
    for _ in range(6):                            # aliases of aliases
        if prev == expr:
            break
        prev = expr
        expr = re.sub(_IDENT, rep, expr)
    return expr.replace(' ', '')


def normalise_kernel(src, name):
    """a normalised description of a counting kernel of libinfo.pyx:
    guards  - the set of asserted expressions (messages dropped, conjunctions split, conditions as `c=>e`)
    alloc   - [allocator, shape, dtype] of the output array
    loops   - [(kind, bound)] outermost first; `v = 0; while v < n: ...; v = v + 1` is a `range` loop
    writes  - ['depth|OUT[index]op'] with the loop variables named L0, L1, ... by nesting order, the array
              parameters A, B, the state-count parameters NA, NB, scalar temporaries inlined
    ret     - what is returned;  extras - every statement that was not recognised (must be empty)
    Never raises: anything unexpected lands in `extras`."""
    res = {'guards': [], 'alloc': [], 'loops': [], 'writes': [], 'ret': '', 'extras': [], 'types': [], 'tags': []}
    try:
        params, body = _function_lines(src, name)
        if params is None or len(params) != 4:
            res['extras'].append('unrecognised signature of %s' % name)
            return res
        res['tags'] = list(_function_lines.decorators)
        env = dict(zip([q[0] for q in params], ['A', 'B', 'NA', 'NB']))
        types = {role: ty for (_, ty), role in zip(params, ['A', 'B', 'NA', 'NB'])}
        decl = {}                  # declared C type of every local
        seen_loop = [False]
        pending_zero = set()       # names set to 0 (candidate counting-loop variables)
        stack = []                 # open blocks: (indent of their body's parent, kind, var-or-cond)
        out_name = [None]

        def close_to(indent):
            while stack and stack[-1]['indent'] >= indent:
                blk = stack.pop()
                if blk['kind'] == 'while' and not blk['incremented']:
                    res['extras'].append('unrecognised while loop over %s (no final increment)' % blk['var'])

        for indent, st in body:
            close_to(indent)
            depth = sum(1 for b in stack if b['kind'] in ('for', 'while'))
            cond = '&'.join(b['cond'] for b in stack if b['kind'] == 'if')
            m = re.match(r'^assert (.*)$', st)
            if m:
                parts = _split_top(m.group(1), ',')
                expr = parts[0] if len(parts) > 1 and re.match(r'^\s*[rbuf]*["\']', parts[-1]) else m.group(1)
                for g in _split_top(expr, ' and '):
                    g = _subst(g.strip(), env)
                    res['guards'].append(('post:' if seen_loop[0] else 'pre:') + ((cond + '=>' + g) if cond else g))
                continue
            m = re.match(r'^if (.*):$', st)
            if m:
                stack.append({'indent': indent, 'kind': 'if', 'cond': _subst(m.group(1), env)})
                continue
            m = re.match(r'^for (%s) in (prange|range)\((.*)\):$' % _IDENT, st)
            if m:
                args = [x.strip() for x in _split_top(m.group(3), ',')]
                kind = m.group(2)
                if kind == 'prange' and sorted(a.replace(' ', '') for a in args[1:]) != ['nogil=True']:
                    kind = 'prange(' + ','.join(a.replace(' ', '') for a in args[1:]) + ')'
                elif kind == 'range' and len(args) != 1:
                    kind = 'range/%d' % len(args)
                res['loops'].append((kind, _subst(args[0], env)))
                env[m.group(1)] = 'L%d' % depth
                types['L%d' % depth] = decl.get(m.group(1), 'object')
                seen_loop[0] = True
                stack.append({'indent': indent, 'kind': 'for', 'var': m.group(1)})
                continue
            m = re.match(r'^while (%s) < (.*):$' % _IDENT, st)
            if m and m.group(1) in pending_zero:
                pending_zero.discard(m.group(1))
                res['loops'].append(('range', _subst(m.group(2), env)))
                env[m.group(1)] = 'L%d' % depth
                types['L%d' % depth] = decl.get(m.group(1), 'object')
                seen_loop[0] = True
                stack.append({'indent': indent, 'kind': 'while', 'var': m.group(1), 'incremented': False})
                continue
            flat_st = st
            while re.search(r'\[[^\[\]]*\]|\([^()]*\)', flat_st):
                flat_st = re.sub(r'\[[^\[\]]*\]|\([^()]*\)', '', flat_st)
            if st.startswith('cdef '):
                head = st[5:].split(' = ')[0] if ' = ' in flat_st else st[5:]
                dm = re.match(r'^(.*?)\s+(%s(?:\s*,\s*%s)*)$' % (_IDENT, _IDENT), head)
                if dm:
                    for nm_ in re.split(r'\s*,\s*', dm.group(2)):
                        decl[nm_] = re.sub(r'\s+', ' ', dm.group(1)).replace(', ', ',')
                else:
                    res['extras'].append('unrecognised declaration: ' + st)
                if '=' not in flat_st:
                    continue                          # declaration without a value: nothing else happens
            m = re.match(r'^(?:cdef .*?\s)?(%s) = (.*)$' % _IDENT, st)
            if m:
                nm, rhs = m.group(1), m.group(2)
                a = re.match(r'^(?:np|numpy)\.(\w+)\((.*)\)$', rhs)
                if a and a.group(1) in ('zeros', 'empty', 'ones', 'full', 'zeros_like', 'empty_like'):
                    args = [x.strip() for x in _split_top(a.group(2), ',')]
                    dt = [x.split('=', 1)[1].strip() for x in args[1:] if x.replace(' ', '').startswith('dtype=')]
                    res['alloc'] = [a.group(1), _subst(args[0], env), (dt[0] if dt else 'default').replace(' ', '')]
                    if len(args) - 1 != len(dt):
                        res['alloc'].append('extra-args:' + ','.join(args[1:]).replace(' ', ''))
                    res['alloc'].append('buffer:' + decl.get(nm, 'object').replace(' ', ''))
                    out_name[0] = nm
                    env[nm] = 'OUT'
                    continue
                wh = next((b for b in reversed(stack) if b['kind'] == 'while'), None)
                if wh and nm == wh['var'] and rhs.replace(' ', '') in (nm + '+1', '1+' + nm):
                    wh['incremented'] = True          # must be the last statement of the body: checked below
                    wh['inc_seen_at'] = len(res['writes']) + len(res['extras'])
                    continue
                if rhs.strip() == '0' and depth >= 0 and nm not in env:
                    pending_zero.add(nm)
                    continue
                flat = rhs
                while re.search(r'\[[^\[\]]*\]|\([^()]*\)', flat):
                    flat = re.sub(r'\[[^\[\]]*\]|\([^()]*\)', '', flat)
                env[nm] = '(' + _subst(rhs, env) + ')' if re.search(r'[-+*/%<>=]| (and|or|not|if) ', flat) \
                    else _subst(rhs, env)
                if depth > 0:
                    types[env[nm]] = decl.get(nm, 'object')     # an index temporary inside the loop nest
                continue
            m = re.match(r'^(%s) \+= 1$' % _IDENT, st)
            wh = next((b for b in reversed(stack) if b['kind'] == 'while'), None)
            if m and wh and m.group(1) == wh['var']:
                wh['incremented'] = True
                continue
            m = re.match(r'^(%s)\[(.*)\] ?(\+=|-=|\*=|=) ?(.*)$' % _IDENT, st)
            if m:
                if wh and wh.get('incremented'):
                    res['extras'].append('statement after the increment of a counting loop: ' + st)
                res['writes'].append('%d|%s|%s[%s]%s%s' % (depth, cond, _subst(m.group(1), env),
                                                           _subst(m.group(2), env), m.group(3),
                                                           _subst(m.group(4), env)))
                continue
            m = re.match(r'^return (.*)$', st)
            if m:
                res['ret'] = _subst(m.group(1), env)
                continue
            res['extras'].append('unrecognised: ' + st)
        close_to(0)
        for z in sorted(pending_zero):
            res['extras'].append('unrecognised: %s = 0' % z)
        res['guards'] = sorted(set(res['guards']))
        res['types'] = sorted(types.items())
    except Exception as e:  # noqa  (the translator never raises: the obligation then fails readably)
        res['extras'].append('unrecognised: translator error %s: %s' % (type(e).__name__, str(e)[:80]))
    return res


def _fused(src):
    res = {}
    for m in re.finditer(r'ctypedef fused (\w+):\n((?:[ \t]+.*\n)+)', src):
        res[m.group(1)] = re.findall(r'np\.(\w+)_t', m.group(2))
    return res


def _lean_list(xs):
    return '[' + ', '.join(_lean_str(x) for x in xs) + ']'


def translate(repo_dir, gen_dir):
    import hashlib
    path = os.path.join(repo_dir, 'enspara', 'info_theory', 'libinfo.pyx')
    try:
        with open(path) as f:
            src = f.read()
    except OSError as e:
        src = ''
        note = 'unrecognised: cannot read libinfo.pyx: %s' % e
    else:
        note = None
    kernels = {k: normalise_kernel(src, k) for k in ('matrix_bincount2d', 'bincount2d')}
    if note:
        for k in kernels.values():
            k['extras'].append(note)
    try:
        fused = _fused(src)
    except Exception:  # noqa
        fused = {'unrecognised': []}
    L = ['/-! GENERATED by harness/props/c18.py `translate` from enspara/info_theory/libinfo.pyx -- do not edit;',
         'regenerated on every run.  A NORMALISED description of the two counting kernels (comments, docstrings,',
         'assert messages and scalar declarations dropped; locals renamed canonically: array parameters `A`, `B`,',
         'state counts `NA`, `NB`, output array `OUT`, loop variables `L0`, `L1`, … by nesting depth; scalar',
         'temporaries and hoisted bounds inlined; `v = 0; while v < n: …; v = v + 1` is a `range` loop).',
         'Re-checked by `C18.kernel_source_as_modelled` (a `decide`). -/',
         'namespace Ens.Info.Gen', '',
         'structure KernelNorm where',
         '  guards : List String',
         '  alloc : List String',
         '  loops : List (String × String)',
         '  writes : List String',
         '  ret : String',
         '  extras : List String',
         '  types : List (String × String)',
         '  tags : List String', '',
         '/-- `ctypedef fused` blocks: name, member element types -/',
         'def fused : List (String × List String) :=',
         '  [' + ', '.join('(%s, %s)' % (_lean_str(k), _lean_list(v)) for k, v in sorted(fused.items())) + ']', '']
    for k in ('matrix_bincount2d', 'bincount2d'):
        nm = 'matrixBincount2d' if k == 'matrix_bincount2d' else 'bincount2d'
        r = kernels[k]
        L += ['/-- `%s` -/' % k, 'def %s : KernelNorm where' % nm,
              '  guards := ' + _lean_list(r['guards']),
              '  alloc := ' + _lean_list(r['alloc']),
              '  loops := [' + ', '.join('(%s, %s)' % (_lean_str(a), _lean_str(b)) for a, b in r['loops']) + ']',
              '  writes := ' + _lean_list(r['writes']),
              '  ret := ' + _lean_str(r['ret']),
              '  extras := ' + _lean_list(r['extras']),
              '  types := [' + ', '.join('(%s, %s)' % (_lean_str(a), _lean_str(b)) for a, b in r['types']) + ']',
              '  tags := ' + _lean_list(r['tags']), '']
    L.append('end Ens.Info.Gen')
    text = '\n'.join(L) + '\n'
    out = os.path.join(gen_dir, 'InfoKernel.lean')
    try:
        os.makedirs(gen_dir, exist_ok=True)
        old = None
        if os.path.exists(out):
            with open(out) as f:
                old = f.read()
        if old != text:
            with open(out, 'w') as f:
                f.write(text)
    except OSError:
        pass
    return {'summary': 'libinfo.pyx sha256 %s: fused %s; loops %s / %s; unrecognised statements %d' % (
        hashlib.sha256(src.encode()).hexdigest()[:12], {k: len(v) for k, v in fused.items()},
        kernels['matrix_bincount2d']['loops'], kernels['bincount2d']['loops'],
        sum(len(k['extras']) for k in kernels.values())),
        'file': 'lean/Model/Generated/InfoKernel.lean', 'kernels': kernels}


# --------------------------------------------------------------------------------------
# array construction (shared by the in-process run, the child process and replay)

def dt_spec(name):
    d = np.dtype(name)
    return [d.itemsize * 8, d.kind == 'i']


def values_of(spec):
    """the integer values of an array spec as a (T, F) ndarray: explicit `rows`, or - for long streams - the
    generated pattern `(t * mul + 3 f) % mod` with a few overridden cells `over = [[t, f, value], ...]`"""
    T, F = spec['T'], spec['F']
    if 'rows' in spec:
        return np.array(spec['rows'], dtype=object).reshape(T, F) if T * F else np.zeros((T, F), dtype=object)
    g = spec['gen']
    v = (np.arange(T, dtype=np.int64)[:, None] * g['mul'] + 3 * np.arange(F, dtype=np.int64)[None, :]) % g['mod']
    for t, f, val in spec.get('over', []):
        v[t, f] = val
    return v


def rows_of(spec):
    return spec['rows'] if 'rows' in spec else values_of(spec).tolist()


def build_array(spec):
    """spec = {'rows': [[..]], 'T':, 'F':, 'dtype':, 'layout':, 'one_d': bool} -> numpy array (a view for
    strided / reversed layouts; the surrounding memory holds ids that are out of every declared range)"""
    T, F, dt = spec['T'], spec['F'], np.dtype(spec['dtype'])
    vals = values_of(spec)
    info = np.iinfo(dt)
    junk = info.max                      # an id no declared range contains (ranges here are < max)
    layout = spec.get('layout', 'C')
    if layout == 'C':
        a = np.zeros((T, F), dtype=dt, order='C')
        a[...] = vals.astype(dt) if T * F else a
    elif layout == 'F':
        a = np.zeros((T, F), dtype=dt, order='F')
        a[...] = vals.astype(dt) if T * F else a
    elif layout == 'strided':
        base = np.full((2 * T + 3, 3 * F + 4), junk, dtype=dt)
        a = base[1:1 + 2 * T:2, 2:2 + 3 * F:3]
        if T * F:
            a[...] = vals.astype(dt)
    elif layout == 'reversed':
        base = np.zeros((T, F), dtype=dt)
        if T * F:
            base[...] = vals.astype(dt)[::-1, ::-1]
        a = base[::-1, ::-1]
    else:
        raise ValueError(layout)
    assert a.shape == (T, F)
    if spec.get('one_d'):
        assert F == 1
        a = a[:, 0]
    return a


def model_arr(spec):
    return {'rows': rows_of(spec), 'T': spec['T'], 'F': spec['F'], 'dt': dt_spec(spec['dtype'])}


_CTL = []


def omp_threads(k):
    """context manager limiting libgomp to k threads (one controller, created after the extension is loaded)"""
    if not _CTL:
        from threadpoolctl import ThreadpoolController
        from enspara.info_theory import libinfo  # noqa: F401  (loads libgomp)
        _CTL.append(ThreadpoolController())
    return _CTL[0].limit(limits=int(k), user_api='openmp')


ERR_KIND = {'AssertionError': 'assertion', 'ValueError': 'value-error', 'DataInvalid': 'data-invalid',
            'OverflowError': 'overflow-error', 'RuntimeError': 'runtime-error'}


def n_arg(n, kind):
    if n is None or kind in (None, 'pyint'):
        return n
    t = {'np.int64': np.int64, 'np.int32': np.int32, 'np.uint16': np.uint16, 'np.int8': np.int8}[kind]
    return t(n) if np.iinfo(t).min <= n <= np.iinfo(t).max else np.int64(n)


def call_jc(case):
    """run the real joint_counts / matrix_bincount2d for one case (twice, with the same array objects); returns
    {'ok': table, 'dtype'} or {'error': kind}"""
    from enspara.info_theory import mutual_info, libinfo
    X = build_array(case['X'])
    Y = build_array(case['Y']) if case.get('Y') is not None else None
    kind = case.get('n_kind')
    nx, ny = n_arg(case.get('n_x'), kind), n_arg(case.get('n_y'), kind)
    snap = (X.tobytes(), None if Y is None else Y.tobytes())

    def once():
        if case.get('entry') == 'kernel':
            return libinfo.matrix_bincount2d(X, Y, nx, ny)
        if case.get('argstyle') == 'kw':
            return mutual_info.joint_counts(X=X, Y=Y, n_x=nx, n_y=ny)
        if case.get('argstyle') == 'short' and Y is None and ny is None:
            return mutual_info.joint_counts(X) if nx is None else mutual_info.joint_counts(X, n_x=nx)
        return mutual_info.joint_counts(X, Y, nx, ny)
    try:
        with warnings.catch_warnings():
            warnings.simplefilter('ignore')
            with omp_threads(case.get('threads', 1)):
                jc = once()
                jc2 = once()
    except BaseException as e:  # noqa
        nm = type(e).__name__
        return {'error': ERR_KIND.get(nm, nm)}
    if snap != (X.tobytes(), None if Y is None else Y.tobytes()):
        return {'error': 'inputs-modified'}
    if jc2 is jc or not np.array_equal(jc, jc2):
        return {'error': 'second-call-differs'}
    return {'ok': jc, 'dtype': str(jc.dtype)}


def oracle_counts(case):
    """brute force: the property's own words (valid inputs only)"""
    X = values_of(case['X'])
    Ys = case.get('Y') or case['X']
    Y = values_of(Ys)
    nx = case.get('n_x')
    ny = case.get('n_y')
    if nx is None:
        nx = int(max(X.ravel())) + 1
    if case.get('Y') is None:
        ny = nx
    elif ny is None:
        ny = int(max(Y.ravel())) + 1
    if X.shape[0] > 2000:                  # long streams: numpy scatter-add instead of the Python triple loop
        return oracle_counts_fast(X.astype(np.int64), Y.astype(np.int64), nx, ny)
    o = np.zeros((X.shape[1], Y.shape[1], nx, ny), dtype=np.int64)
    for t in range(X.shape[0]):
        for x in range(X.shape[1]):
            for y in range(Y.shape[1]):
                o[x, y, int(X[t, x]), int(Y[t, y])] += 1
    return o


def oracle_counts_fast(X, Y, nx, ny):
    o = np.zeros((X.shape[1], Y.shape[1], nx, ny), dtype=np.int64)
    for x in range(X.shape[1]):
        for y in range(Y.shape[1]):
            np.add.at(o[x, y], (X[:, x].astype(np.int64), Y[:, y].astype(np.int64)), 1)
    return o


def jc_request(case):
    if case.get('entry') == 'kernel':
        return {'op': 'C18.bincount', 'a': model_arr(case['X']), 'b': model_arr(case['Y']),
                'n_a': case['n_x'], 'n_b': case['n_y']}
    r = {'op': 'C18.jc', 'X': model_arr(case['X'])}
    if case.get('Y') is not None:
        r['Y'] = model_arr(case['Y'])
    if case.get('n_x') is not None:
        r['n_x'] = case['n_x']
    if case.get('n_y') is not None:
        r['n_y'] = case['n_y']
    return r


# --------------------------------------------------------------------------------------
# helpers for the real-valued part

def frac(x):
    return Fraction(float(x))


def fj(x):
    f = frac(x)
    return [f.numerator, f.denominator]


def eval_terms(terms):
    """sum of coef * log(arg) with libm; terms = [[[n,d],[n,d]], ...]"""
    s = 0.0
    for (cn, cd), (an, ad) in terms:
        s += float(Fraction(cn, cd)) * (math.log(an) - math.log(ad))
    return s


def allclose(a, b, tol=TOL):
    """np.allclose that answers False (instead of raising) for outputs of different shapes"""
    a, b = np.asarray(a), np.asarray(b)
    return a.shape == b.shape and bool(np.allclose(a, b, rtol=tol, atol=tol))


def close(a, b, tol=TOL):
    return abs(a - b) <= tol * max(1.0, abs(a), abs(b))


def entropy_oracle(counts):
    c = np.asarray(counts, dtype=float)
    n = c.sum()
    if n == 0:
        return 0.0
    p = c[c > 0] / n
    return float(-(p * np.log(p)).sum())


def mi_oracle(tab):
    tab = np.asarray(tab, dtype=float)
    n = tab.sum()
    if n == 0:
        return 0.0
    p = tab / n
    px = p.sum(1)
    py = p.sum(0)
    s = 0.0
    for u in range(p.shape[0]):
        for v in range(p.shape[1]):
            if p[u, v] > 0:
                s += p[u, v] * math.log(p[u, v] / (px[u] * py[v]))
    return s


# --------------------------------------------------------------------------------------
# generators

def gen_table(rng, T, F, n):
    return [[int(v) for v in row] for row in rng.integers(0, n, size=(T, F))]


def gen_jc_case(rng, idx):
    self_mode = rng.random() < 0.3
    T = int(rng.choice([1, 2, 3, 5, 8, 13, 21, 40]))
    # feature counts: Fa > Fb, Fa < Fb and Fa = Fb each get a third of the two-sided cases
    shape_mode = ['Fa>Fb', 'Fa<Fb', 'Fa=Fb'][idx % 3]
    if shape_mode == 'Fa>Fb':
        Fa = int(rng.integers(2, 6))
        Fb = int(rng.integers(1, Fa))
    elif shape_mode == 'Fa<Fb':
        Fb = int(rng.integers(2, 6))
        Fa = int(rng.integers(1, Fb))
    else:
        Fa = Fb = int(rng.integers(1, 5))
    na = int(rng.integers(1, 7))
    nb = na if rng.random() < 0.3 else int(rng.integers(1, 7))
    dta = DTYPES[idx % 8] if rng.random() < 0.7 else str(rng.choice(DTYPES))
    dtb = dta if rng.random() < 0.55 else str(rng.choice(DTYPES))
    case = {'kind': 'jc', 'threads': int(rng.integers(1, 17)),
            'X': {'rows': gen_table(rng, T, Fa, na), 'T': T, 'F': Fa, 'dtype': dta,
                  'layout': str(rng.choice(LAYOUTS))}}
    if Fa == 1 and rng.random() < 0.5:
        case['X']['one_d'] = True
    pad = int(rng.integers(0, 3))
    case['n_x'] = None if rng.random() < 0.35 else na + pad
    case['argstyle'] = str(rng.choice(['pos', 'kw', 'short']))
    case['n_kind'] = str(rng.choice(['pyint', 'np.int64', 'np.int32', 'np.uint16', 'np.int8']))
    if rng.random() < 0.15 and T > 1:                 # a feature that never changes state
        k = int(rng.integers(0, na))
        for r in case['X']['rows']:
            r[0] = k
    if self_mode:
        case['Y'] = None
        # n_y given although Y is None: documented as unused (a warning), the table is (F, F, n_x, n_x)
        case['n_y'] = None if rng.random() < 0.7 else int(rng.integers(1, 9))
        if case['n_y'] is not None:
            case['argstyle'] = 'kw'
    else:
        case['Y'] = {'rows': gen_table(rng, T, Fb, nb), 'T': T, 'F': Fb, 'dtype': dtb,
                     'layout': str(rng.choice(LAYOUTS))}
        if Fb == 1 and rng.random() < 0.5:
            case['Y']['one_d'] = True
        case['n_y'] = None if rng.random() < 0.35 else nb + int(rng.integers(0, 3))
        if dta == dtb and rng.random() < 0.3 and not case['X'].get('one_d') and not case['Y'].get('one_d') \
                and case['n_x'] is not None and case['n_y'] is not None:
            case['entry'] = 'kernel'
    return case


def gen_jc_special(rng, idx):
    """size boundaries: state counts beyond the int8 / uint8 / int16 / uint16 ranges (ids near the top of the
    declared range, dtypes that can hold them), many features (more than 255), a single frame"""
    fam = ['big-n-x', 'big-n-y', 'big-n-self', 'many-features-x', 'many-features-y', 'big-n-x'][idx % 6]
    T = int(rng.choice([1, 2, 5, 12]))
    case = {'kind': 'jc', 'threads': int(rng.integers(1, 17)), 'special': fam,
            'argstyle': str(rng.choice(['pos', 'kw'])), 'n_kind': str(rng.choice(['pyint', 'np.int64', 'np.int32']))}
    if fam.startswith('big-n'):
        n = int(rng.choice([128, 129, 255, 256, 257, 300, 32767, 32768, 32769, 65535, 65536, 65537, 70000]))
        small = int(rng.integers(1, 4))
        F1 = int(rng.integers(1, 3))
        F2 = 1 if n > 1000 else int(rng.integers(1, 3))
        ids = [n - 1, n - 2, 0, n // 2, 127, 128, 255, 256]
        bigrows = [[int(min(n - 1, rng.choice(ids))) for _ in range(F1)] for _ in range(T)]
        bigrows[0][0] = n - 1
        dt_big = str(rng.choice(fitting_dtypes(n - 1)))
        dt_small = str(rng.choice(DTYPES))
        big = {'rows': bigrows, 'T': T, 'F': F1, 'dtype': dt_big, 'layout': str(rng.choice(LAYOUTS))}
        sm = {'rows': gen_table(rng, T, F2, small), 'T': T, 'F': F2, 'dtype': dt_small,
              'layout': str(rng.choice(LAYOUTS))}
        default_n = rng.random() < 0.4
        if fam == 'big-n-x':
            case.update(X=big, Y=sm, n_x=None if default_n else n, n_y=small)
        elif fam == 'big-n-y':
            case.update(X=sm, Y=big, n_x=small, n_y=None if default_n else n)
        else:
            n = min(n, 300)                      # self table is (F, F, n, n)
            big['rows'] = [[int(min(n - 1, v)) for v in r] for r in bigrows]
            big['rows'][0][0] = n - 1
            big['F'] = F1 = 1
            big['rows'] = [r[:1] for r in big['rows']]
            big['dtype'] = str(rng.choice(fitting_dtypes(n - 1)))
            case.update(X=big, Y=None, n_x=None if default_n else n, n_y=None)
        cells = F1 * (F1 if case['Y'] is None else F2) * n * (n if case['Y'] is None else small)
        if cells > 5000:
            case['wide'] = True                  # no MI loop over a huge table
    else:
        F = int(rng.choice([256, 257, 300]))
        many = {'rows': gen_table(rng, T, F, 2), 'T': T, 'F': F, 'dtype': str(rng.choice(DTYPES)),
                'layout': str(rng.choice(LAYOUTS))}
        one = {'rows': gen_table(rng, T, 1, 3), 'T': T, 'F': 1, 'dtype': str(rng.choice(DTYPES)),
               'layout': 'C'}
        if fam == 'many-features-x':
            case.update(X=many, Y=one, n_x=2, n_y=3)
        else:
            case.update(X=one, Y=many, n_x=3, n_y=2)
        case['wide'] = True
    return case


def width_pairs():
    """(wide dtype, narrow dtype) for every pair of integer dtypes of different width"""
    return [(w, n) for w in DTYPES for n in DTYPES if np.dtype(w).itemsize > np.dtype(n).itemsize]


def foreign_ids(wide, narrow, n):
    """out-of-range ids built from dtype bounds and powers of two (+0, +1, +2, and + a residue inside the
    declared range), representable in the wide dtype"""
    hi = np.iinfo(np.dtype(wide)).max
    cand = {n, n + 1}
    for b in (np.iinfo(np.dtype(narrow)).max, 2 ** 7, 2 ** 8, 2 ** 15, 2 ** 16, 2 ** 31, 2 ** 32):
        for d in (0, 1, 2, n - 1, n):
            cand.add(b + d)
    for k in (8, 16, 32):
        cand.add(3 * 2 ** k + 1)
    return sorted(v for v in cand if n <= v <= hi)


def gen_long_case(rng, idx, malformed):
    """mixed-width dtypes with the wide array at least 1 MiB (or just below): a malformed stream carries one
    foreign id in the WIDE array; a valid one has ids up to n - 1 with n around the narrow dtype's maximum"""
    pairs = width_pairs()
    wide, narrow = pairs[idx % len(pairs)]
    wide_is_x = (idx // len(pairs)) % 2 == 0 if malformed else bool(rng.integers(0, 2))
    isz = np.dtype(wide).itemsize
    F = 1 if rng.random() < 0.8 else 2
    below = rng.random() < 0.15
    T = (2 ** 20) // (isz * F) + (int(rng.integers(0, 40)) if not below else -int(rng.integers(1, 40)))
    nmax = int(np.iinfo(np.dtype(narrow)).max)
    if malformed:
        n_wide = int(rng.integers(2, 6))
        n_narrow = int(rng.integers(1, 5))
    else:
        n_wide = int(rng.choice([3, nmax - 1, nmax, nmax + 1, nmax + 2])) if nmax <= 255 else int(rng.integers(2, 7))
        n_narrow = int(rng.integers(1, 5))
    W = {'gen': {'mul': int(rng.choice([1, 7, 11])), 'mod': n_wide}, 'T': T, 'F': F, 'dtype': wide,
         'layout': str(rng.choice(LAYOUTS)), 'over': []}
    N = {'gen': {'mul': int(rng.choice([1, 5])), 'mod': n_narrow}, 'T': T, 'F': 1, 'dtype': narrow,
         'layout': str(rng.choice(LAYOUTS)), 'over': []}
    case = {'threads': int(rng.integers(1, 17)), 'long': True, 'wide': True,
            'pair': '%s/%s' % (wide, narrow), 'below_1MiB': bool(below)}
    if malformed:
        ids = foreign_ids(wide, narrow, n_wide)
        # most of the time an id whose residue modulo the narrow width lies inside the declared range (a wrapping
        # cast would count it in another cell); otherwise any of the boundary values
        wrapping = [v for v in ids if v % (2 ** (8 * np.dtype(narrow).itemsize)) < n_wide]
        pool = wrapping if (wrapping and rng.random() < 0.7) else ids
        fid = int(pool[int(rng.integers(0, len(pool)))])
        W['over'] = [[int(rng.integers(0, T)), int(rng.integers(0, F)), fid]]
        case.update(kind='malformed', why='long-mixed-width-foreign-id', foreign=fid)
    else:
        W['over'] = [[int(rng.integers(0, T)), 0, n_wide - 1]]       # the top state is visited
        case.update(kind='jc')
    # explicit counts, or the default on the narrow side (the default of the wide side would cover the foreign id)
    n_narrow_arg = None if rng.random() < 0.3 else n_narrow
    if wide_is_x:
        case.update(X=W, Y=N, n_x=n_wide, n_y=n_narrow_arg)
    else:
        case.update(X=N, Y=W, n_x=n_narrow_arg, n_y=n_wide)
    return case


def gen_wide_case(rng):
    """ids near the dtype maximum: exercises the default state count and the harmonisation casts"""
    pairs = [('uint8', 'int8', 255, 127), ('int8', 'uint8', 127, 255), ('uint8', 'uint8', 255, 255),
             ('int8', 'int8', 127, 127), ('uint8', 'int16', 255, 300), ('int16', 'uint8', 300, 255),
             ('uint16', 'int8', 400, 127), ('int8', 'uint64', 127, 200), ('uint64', 'int64', 300, 300),
             ('int64', 'uint64', 300, 300), ('uint32', 'int32', 300, 300), ('int32', 'uint32', 260, 260),
             ('uint16', 'int16', 280, 280), ('int16', 'uint16', 280, 280)]
    dta, dtb, ma, mb = pairs[int(rng.integers(0, len(pairs)))]
    T = int(rng.integers(1, 7))
    xs = [[int(rng.integers(max(0, ma - 3), ma + 1))] for _ in range(T)]
    ys = [[int(rng.integers(max(0, mb - 3), mb + 1))] for _ in range(T)]
    xs[0][0] = ma
    ys[0][0] = mb
    case = {'kind': 'jc', 'threads': int(rng.integers(1, 17)), 'wide': True,
            'X': {'rows': xs, 'T': T, 'F': 1, 'dtype': dta, 'layout': str(rng.choice(LAYOUTS))},
            'Y': {'rows': ys, 'T': T, 'F': 1, 'dtype': dtb, 'layout': str(rng.choice(LAYOUTS))},
            'n_x': None if rng.random() < 0.5 else ma + 1, 'n_y': None if rng.random() < 0.5 else mb + 1}
    if rng.random() < 0.25:
        case['Y'] = None
        case['n_y'] = None
    return case


def gen_malformed(rng, idx):
    """one malformed stream; `why` names the defect"""
    why = ['negative-x', 'negative-y', 'too-large-x', 'too-large-y', 'much-too-large', 'length-mismatch',
           'zero-frames', 'zero-features', 'mixed-dtype-negative', 'n-overflow', 'negative-self',
           'too-large-default-y'][idx % 12]
    T = int(rng.integers(1, 9))
    Fa, Fb = int(rng.integers(1, 4)), int(rng.integers(1, 4))
    na, nb = int(rng.integers(1, 6)), int(rng.integers(1, 6))
    signed = ['int8', 'int16', 'int32', 'int64']
    dt = str(rng.choice(DTYPES))
    X = gen_table(rng, T, Fa, na)
    Y = gen_table(rng, T, Fb, nb)
    case = {'kind': 'malformed', 'why': why, 'threads': int(rng.integers(1, 17)), 'n_x': na, 'n_y': nb}
    dta = dtb = dt
    t, fa, fb = int(rng.integers(0, T)), int(rng.integers(0, Fa)), int(rng.integers(0, Fb))
    if why == 'negative-x':
        dta = dtb = str(rng.choice(signed))
        X[t][fa] = -int(rng.integers(1, 4))
    elif why == 'negative-y':
        dta = dtb = str(rng.choice(signed))
        Y[t][fb] = -int(rng.integers(1, 4))
    elif why == 'too-large-x':
        X[t][fa] = na
    elif why == 'too-large-y':
        Y[t][fb] = nb
    elif why == 'much-too-large':
        X[t][fa] = na + int(rng.integers(1, 100))
    elif why == 'length-mismatch':
        T2 = T + int(rng.choice([-1, 1, 2])) if T > 1 else T + 1
        Y = gen_table(rng, T2, Fb, nb)
    elif why == 'zero-frames':
        X, Y, T = [], [], 0
    elif why == 'zero-features':
        if rng.random() < 0.5:
            X, Fa = [[] for _ in range(T)], 0
        else:
            Y, Fb = [[] for _ in range(T)], 0
    elif why == 'mixed-dtype-negative':
        pairs = [('int8', 'uint8'), ('int16', 'uint16'), ('int8', 'uint16'), ('int32', 'uint8'),
                 ('int64', 'uint64'), ('int16', 'uint8'), ('int8', 'int16'), ('int32', 'uint32'),
                 ('int16', 'uint32'), ('int8', 'uint64')]
        dta, dtb = pairs[int(rng.integers(0, len(pairs)))]
        X[t][fa] = -int(rng.integers(1, 4))
        # a cast of the negative id to the unsigned / wider type would wrap to 2**bits - k: declare a range so
        # large that the wrapped id fits (when such a table is small enough) - it must still be rejected
        wide = max(np.dtype(dta).itemsize, np.dtype(dtb).itemsize)
        big = 2 ** (8 * wide) if wide <= 2 else None
        side_x = rng.random() < 0.7
        if not side_x:              # the negative id on the second side
            X[t][fa] = 0
            dta, dtb = dtb, dta
            Y[t][fb] = -int(rng.integers(1, 4))
        if big is not None and rng.random() < 0.8:
            if side_x:
                case['n_x'] = big
                case['n_y'] = min(nb, 2) if big > 256 else nb
                Y = [[min(v, case['n_y'] - 1) for v in r] for r in Y]
            else:
                case['n_y'] = big
                case['n_x'] = min(na, 2) if big > 256 else na
                X = [[min(v, case['n_x'] - 1) for v in r] for r in X]
    elif why == 'n-overflow':
        case['n_x'] = int(rng.choice([2 ** 31, 2 ** 40, -2 ** 31 - 1]))
    elif why == 'negative-self':
        dta = str(rng.choice(signed))
        X[t][fa] = -1
        Y = None
        case['n_y'] = None
    elif why == 'too-large-default-y':
        # n_x given too small while n_y is left to its default
        X[t][fa] = na + 1
        case['n_y'] = None
    case['X'] = {'rows': X, 'T': len(X), 'F': Fa, 'dtype': dta, 'layout': str(rng.choice(LAYOUTS))}
    case['Y'] = None if Y is None else {'rows': Y, 'T': len(Y), 'F': Fb, 'dtype': dtb,
                                          'layout': str(rng.choice(LAYOUTS))}
    if case['Y'] is not None and dta == dtb and why != 'n-overflow' and case['n_x'] is not None \
            and case['n_y'] is not None and rng.random() < 0.4:
        case['entry'] = 'kernel'
    return case


def vec(vals, dtype, layout):
    a = np.array(vals, dtype=dtype) if len(vals) else np.zeros(0, dtype=dtype)
    if layout == 'strided':
        base = np.full(3 * len(vals) + 2, np.iinfo(np.dtype(dtype)).max, dtype=dtype)
        base[1:1 + 3 * len(vals):3] = a
        return base[1:1 + 3 * len(vals):3]
    if layout == 'reversed':
        return np.ascontiguousarray(a[::-1])[::-1]
    return a


def call_b1d(c):
    """libinfo.bincount2d (1-D kernel); runs in the child"""
    from enspara.info_theory import libinfo
    try:
        H = libinfo.bincount2d(vec(c['a'], c['dtype'], c['layout']), vec(c['b'], c['dtype'], c['layout']),
                               c['n_a'], c['n_b'])
    except BaseException as e:  # noqa
        return {'error': ERR_KIND.get(type(e).__name__, type(e).__name__)}
    return {'ok': H.tolist(), 'dtype': str(H.dtype), 'shape': list(H.shape), 'total': int(H.sum())}


def gen_b1d(rng, idx):
    T = int(rng.choice([0, 1, 2, 5, 12, 30]))
    na, nb = int(rng.integers(1, 6)), int(rng.integers(1, 6))
    a = [int(v) for v in rng.integers(0, na, size=T)]
    b = [int(v) for v in rng.integers(0, nb, size=T)]
    c = {'kind': 'b1d', 'a': a, 'b': b, 'n_a': na, 'n_b': nb, 'dtype': DTYPES[idx % 8],
         'layout': str(rng.choice(['C', 'strided', 'reversed'])), 'why': None}
    if idx % 2 == 1:
        why = ['negative', 'too-large', 'length'][(idx // 2) % 3]
        if T == 0:
            T = 3
            c['a'] = [int(v) for v in rng.integers(0, na, size=T)]
            c['b'] = [int(v) for v in rng.integers(0, nb, size=T)]
        t = int(rng.integers(0, T))
        side = 'a' if rng.random() < 0.5 else 'b'
        if why == 'negative':
            c['dtype'] = str(rng.choice(['int8', 'int16', 'int32', 'int64']))
            c[side][t] = -int(rng.integers(1, 3))
        elif why == 'too-large':
            c[side][t] = (na if side == 'a' else nb) + int(rng.integers(0, 3))
        else:
            c[side] = c[side] + [0]
        c['why'] = why
    return c


def b1d_request(c):
    col = lambda v: {'rows': [[x] for x in v], 'T': len(v), 'F': 1, 'dt': dt_spec(c['dtype'])}  # noqa: E731
    return {'op': 'C18.bincount1', 'a': col(c['a']), 'b': col(c['b']), 'n_a': c['n_a'], 'n_b': c['n_b']}


def check_b1d(ctx, c, got, model):
    if not_run(ctx, got):
        return
    ctx.case(c, nontrivial=len(c['a']) > 0, tags=['bincount2d-1D', 'b1d-' + (c['why'] or 'valid'), 'dtype-x=' + c['dtype']])
    if c['why']:
        # malformed 1-D stream: must be rejected
        if 'crash' in got:
            ctx.violation('malformed 1-D stream (%s) crashed or hung the process in libinfo.bincount2d (%s)'
                          % (c['why'], got['crash']), c)
        elif 'error' not in got:
            ctx.violation('malformed 1-D stream (%s) was accepted by libinfo.bincount2d: %s counts for %d frames'
                          % (c['why'], got.get('total'), len(c['a'])), c)
        elif model.get('error') != got['error']:
            ctx.disagreement('Model.Info.bincount2d guard stage vs libinfo.bincount2d (%s): %s vs %s'
                             % (c['why'], _short(model), got['error']), c)
        return
    if 'crash' in got or 'error' in got:
        ctx.violation('libinfo.bincount2d failed on a valid 1-D stream: %s' % _short(got), c)
        return
    ref = np.zeros((c['n_a'], c['n_b']), dtype=np.int64)
    for i, j in zip(c['a'], c['b']):
        ref[i, j] += 1
    if got['shape'] != list(ref.shape) or got['ok'] != ref.tolist():
        ctx.violation('libinfo.bincount2d table differs from the number of frames', c)
        return
    if model.get('ok') != got['ok']:
        ctx.disagreement('Model.Info.bincount2d vs libinfo.bincount2d', dict(c, model=_short(model)))


# --------------------------------------------------------------------------------------
# child process for calls that would write out of bounds if a guard were missing

CHILD = r'''
import sys, json
sys.path.insert(0, %r)
from props import c18
import numpy as np
print('READY', flush=True)
for line in sys.stdin:
    path = line.strip()
    if not path:
        continue
    cases = json.load(open(path))
    for i, c in enumerate(cases):
        print('START %%d' %% i, flush=True)
        if c.get('kind') == 'sweep':
            r = {'sweep': c18.run_sweep(c)}
        elif c.get('kind') == 'b1d':
            r = c18.call_b1d(c)
        else:
            r = c18.call_jc(c)
            if 'ok' in r:
                jc = r['ok']
                r = {'dtype': str(jc.dtype), 'shape': list(jc.shape), 'total': int(jc.sum(dtype=np.uint64))}
                if jc.size <= 20000:
                    r['ok'] = jc.tolist()
                else:                   # big table: only the non-zero cells travel
                    nz = np.argwhere(jc)
                    r['ok'] = None
                    r['nz'] = [list(map(int, ix)) + [int(jc[tuple(ix)])] for ix in nz]
        print('RESULT %%d %%s' %% (i, json.dumps(r)), flush=True)
    print('DONE', flush=True)
''' % os.path.dirname(HERE)

CHILD_START_TIMEOUT = 300      # seconds until the child has imported enspara (loaded machine: tens of seconds)
CHILD_CASE_TIMEOUT = int(os.environ.get('C18_CASE_TIMEOUT', '60'))   # one small case (they take milliseconds)
CHILD_SWEEP_TIMEOUT = 300      # seconds for one 16-thread sweep over a large table
CHILD_MAX_FAILS = 4            # after that many crashes / hangs the remaining cases are not run


class Worker:
    '''one long-lived child process that executes batches of kernel calls (importing enspara costs seconds on a
    loaded machine, so the child is reused until it crashes or hangs; it exits when its stdin closes)'''
    current = None

    def __init__(self):
        import queue
        import tempfile
        import threading
        self.errf = tempfile.TemporaryFile(mode='w+')
        self.proc = subprocess.Popen([sys.executable, '-u', '-c', CHILD], stdin=subprocess.PIPE,
                                     stdout=subprocess.PIPE, stderr=self.errf, text=True)
        self.q = queue.Queue()

        def reader(proc, q):
            try:
                for line in proc.stdout:
                    q.put(line)
            except Exception:  # noqa
                pass
            q.put(None)
        threading.Thread(target=reader, args=(self.proc, self.q), daemon=True).start()
        self.ready = False

    def get(self, limit):
        import queue
        try:
            return self.q.get(timeout=limit)
        except queue.Empty:
            return 'TIMEOUT'

    def kill(self):
        try:
            self.proc.kill()
        except Exception:  # noqa
            pass
        try:
            rc = self.proc.wait(timeout=30)
        except Exception:  # noqa
            rc = None
        try:
            self.errf.seek(0)
            err = self.errf.read()[-300:]
            self.errf.close()
        except Exception:  # noqa
            err = ''
        try:
            self.proc.stdin.close()
        except Exception:  # noqa
            pass
        Worker.current = None
        return rc, err


def _child_once(cases):
    '''run `cases` in the (re-used) child; returns (results-by-index dict, failure) where failure is None or
    (index of the case that was running | None, description)'''
    import tempfile
    res, started, failure = {}, None, None
    try:
        w = Worker.current or Worker()
    except OSError as e:
        return res, (None, 'could not start the child: %s' % e)
    Worker.current = w
    if not w.ready:
        while True:
            line = w.get(CHILD_START_TIMEOUT)
            if line == 'TIMEOUT' or line is None:
                rc, err = w.kill()
                return res, (None, 'the child did not start (return code %s): %s' % (rc, err.strip()[-200:]))
            if line.startswith('READY'):
                w.ready = True
                break
    fd, path = tempfile.mkstemp(prefix='c18_cases_', suffix='.json')
    with os.fdopen(fd, 'w') as f:
        json.dump(cases, f)
    try:
        try:
            w.proc.stdin.write(path + '\n')
            w.proc.stdin.flush()
        except Exception as e:  # noqa
            rc, err = w.kill()
            return res, (None, 'the child is gone (return code %s): %s %s' % (rc, e, err.strip()[-200:]))
        while True:
            if started is None or started in res:
                limit = CHILD_CASE_TIMEOUT
            else:
                limit = CHILD_SWEEP_TIMEOUT if cases[started].get('kind') == 'sweep' else CHILD_CASE_TIMEOUT
            line = w.get(limit)
            if line == 'TIMEOUT':
                w.kill()
                failure = (started, 'no answer within %d s (hang)' % limit)
                break
            if line is None:
                rc, err = w.kill()
                failure = (started, 'child ended with return code %s: %s' % (rc, err.strip()[-200:]))
                break
            if line.startswith('DONE'):
                break
            if line.startswith('START '):
                started = int(line.split()[1])
            elif line.startswith('RESULT '):
                _, i, payload = line.split(' ', 2)
                try:
                    res[int(i)] = json.loads(payload)
                except ValueError:
                    w.kill()
                    failure = (int(i), 'unreadable answer')
                    break
    finally:
        try:
            os.unlink(path)
        except OSError:
            pass
    if failure is None and len(res) < len(cases):
        w.kill()
        failure = (started, 'the child skipped cases')
    return res, failure


def run_in_child(cases):
    """every call of the compiled kernel on a generated stream happens here, in a child process, so that an
    out-of-bounds access (dropped guard, wrong index) is reported instead of killing the check: a child that
    crashes, hangs or answers garbage while case i runs gives {'crash': ...} for case i (a violation for the
    caller) and a fresh child continues after it; after CHILD_MAX_FAILS such failures the remaining cases get
    {'not_run': ...}.  Never raises for anything the code under test does.
    Returns one result per case: {'error': kind} | {'ok': table, 'dtype', 'shape', 'total'} | {'sweep': ...} |
    {'crash': description} | {'not_run': reason}"""
    out = [None] * len(cases)
    start, fails, startup_fails = 0, 0, 0
    while start < len(cases):
        res, failure = _child_once(cases[start:])
        for i, r in res.items():
            out[start + i] = r
        if failure is None:
            break
        idx, what = failure
        if idx is None or out[start + idx] is not None:
            # died before the first case / between two cases: retry once, then give up on the rest
            startup_fails += 1
            nxt = start + (max(res) + 1 if res else 0)
            if startup_fails >= 2:
                for k in range(nxt, len(cases)):
                    if out[k] is None:
                        out[k] = {'not_run': 'child process unusable: %s' % what}
                break
            start = nxt
            continue
        out[start + idx] = {'crash': what}
        fails += CHILD_MAX_FAILS if 'hang' in what else 1      # a hang costs a whole timeout: stop after one
        start = start + idx + 1
        if fails >= CHILD_MAX_FAILS:
            for k in range(start, len(cases)):
                if out[k] is None:
                    out[k] = {'not_run': 'child crashed or hung %d times before this case' % fails}
            break
    for k in range(len(cases)):
        if out[k] is None:
            out[k] = {'not_run': 'no answer'}
    return out


def not_run(ctx, got):
    if got is not None and 'not_run' in got:
        ctx.skip('kernel call not run: ' + got['not_run'][:60])
        return True
    return False


# --------------------------------------------------------------------------------------
# checks

def jc_tags(case):
    tags = ['dtype-x=' + case['X']['dtype'], 'layout-x=' + case['X']['layout'], 'threads=%d' % case['threads'],
            'entry=' + case.get('entry', 'joint_counts')]
    if case.get('Y') is None:
        tags.append('self')
    else:
        tags += ['dtype-y=' + case['Y']['dtype'], 'layout-y=' + case['Y']['layout'],
                 'mixed-dtype' if case['Y']['dtype'] != case['X']['dtype'] else 'same-dtype',
                 'Fa>Fb' if case['X']['F'] > case['Y']['F'] else
                 ('Fa<Fb' if case['X']['F'] < case['Y']['F'] else 'Fa=Fb')]
    if case['X'].get('one_d') or (case.get('Y') or {}).get('one_d'):
        tags.append('1-D')
    tags.append('default-n' if case.get('n_x') is None or (case.get('Y') is not None and case.get('n_y') is None)
                else 'explicit-n')
    if case.get('wide'):
        tags.append('wide-ids')
    if case.get('special'):
        tags.append('special=' + case['special'])
    if case.get('long'):
        tags += ['long-mixed-width', 'long-pair=' + case['pair'],
                 'long-below-1MiB' if case.get('below_1MiB') else 'long>=1MiB']
    tags += ['args-' + case.get('argstyle', 'pos'), 'n-kind=' + case.get('n_kind', 'pyint')]
    if case.get('Y') is None and case.get('n_y') is not None:
        tags.append('self-with-unused-n_y')
    return tags


def table_of(got):
    """the table a child result carries (dense list, or the non-zero cells of a big table)"""
    if got.get('ok') is not None:
        return np.array(got['ok'], dtype=np.uint32).reshape(got['shape'])
    jc = np.zeros(got['shape'], dtype=np.uint32)
    for *ix, v in got['nz']:
        jc[tuple(ix)] = v
    return jc


def check_jc_case(ctx, case, got, model):
    """valid stream: real table (computed in the child) == brute force (cell by cell) == model"""
    if not_run(ctx, got):
        return None
    ref = oracle_counts(case)
    flat = [v for r in case['X']['rows'] for v in r] if 'rows' in case['X'] else [0, 1]
    ctx.case(case, nontrivial=len(set(flat)) > 1 or case['X']['T'] > 1, tags=jc_tags(case))
    if 'crash' in got:
        ctx.violation('joint counts of a valid stream crashed or hung the process (%s)' % got['crash'], case)
        return None
    if 'error' in got:
        ctx.violation('joint counts of a valid stream raised %s' % got['error'], case)
        return None
    if got['dtype'] != 'uint32':
        ctx.violation('joint-count table dtype is %s, not uint32' % got['dtype'], case)
        return None
    if list(got['shape']) != list(ref.shape):
        ctx.violation('joint-count table shape %s != %s' % (list(got['shape']), list(ref.shape)), case)
        return None
    jc = table_of(got)
    if not np.array_equal(jc.astype(np.int64), ref):
        bad = np.argwhere(jc.astype(np.int64) != ref)[0].tolist()
        ctx.violation('joint-count table differs from the number of frames at cell %s: got %d, expected %d'
                      % (bad, int(jc[tuple(bad)]), int(ref[tuple(bad)])), case)
        return None
    if model is not None:
        if model.get('ok') != jc.tolist():
            ctx.disagreement('Model.Info.jointCounts vs joint_counts', dict(case, model=_short(model)))
    return jc


def _short(m):
    s = json.dumps(m)
    return m if len(s) < 400 else s[:400] + '...'


def check_malformed(ctx, case, got, model):
    if not_run(ctx, got):
        return
    ctx.case(case, nontrivial=True, tags=['malformed', 'why=' + case['why'],
                                          'entry=' + case.get('entry', 'joint_counts'),
                                          'dtype-x=' + case['X']['dtype']] +
             (['long-pair=' + case['pair'], 'long-below-1MiB' if case.get('below_1MiB') else 'long>=1MiB']
              if case.get('long') else []))
    if 'crash' in got:
        ctx.violation('malformed stream (%s) crashed or hung the process (%s): out-of-bounds access'
                      % (case['why'], got['crash']), case)
        return
    if 'error' not in got:
        ctx.violation('malformed stream (%s) was accepted: table of shape %s with %s counts'
                      % (case['why'], got.get('shape'), got.get('total')), case)
        return
    if model is None:
        ctx.tag('model-skipped-long-input')
    elif model.get('error') != got['error']:
        ctx.disagreement('Model.Info guard stage vs real code on a malformed stream (%s): model %s, code %s'
                         % (case['why'], _short(model), got['error']), case)


def guarded(ctx, what, replay, fn):
    """run a real call on VALID input: an exception is a violation of the property, not harness trouble"""
    try:
        with warnings.catch_warnings():
            warnings.simplefilter('ignore')
            return True, fn()
    except BaseException as e:  # noqa
        ctx.violation('%s raised %s on valid input: %s' % (what, type(e).__name__, str(e)[:100]), replay)
        return False, None


def mi_real(ctx, jc, replay):
    from enspara.info_theory import mutual_info
    ok, v = guarded(ctx, 'mutual_information', replay, lambda: np.asarray(mutual_info.mutual_information(jc)))
    return v if ok else None


def check_mi_laws(ctx, case, jc, tr, got2, model):
    """mutual_information on a real table: model terms and the laws, on the real output"""
    from enspara.info_theory import entropy
    mi = mi_real(ctx, jc, dict(case, stage='mi'))
    if mi is None:
        return
    Fa, Fb, na, nb = jc.shape
    ctx.tag('mi-table')
    if mi.shape != (Fa, Fb):
        ctx.violation('mutual_information shape %s != (%d, %d)' % (mi.shape, Fa, Fb), dict(case, stage='mi'))
        return
    self_mode = case.get('Y') is None
    disagreed = False
    for x in range(Fa):
        for y in range(Fb):
            v = float(mi[x, y])
            rc = dict(case, stage='mi', cell=[x, y], got=v)
            if not (v >= -1e-12) or math.isnan(v):
                ctx.violation('mutual information is negative: %r' % v, rc)
                return
            ref = mi_oracle(jc[x, y])
            if not close(v, ref):
                ctx.violation('mutual information %r differs from sum P log(P/(PxPy)) = %r' % (v, ref), rc)
                return
            hx = entropy_oracle(jc[x, y].sum(1))
            hy = entropy_oracle(jc[x, y].sum(0))
            if v > min(hx, hy) + TOL:
                ctx.violation('mutual information %r exceeds the smaller marginal entropy %r' % (v, min(hx, hy)), rc)
                return
            if 'ok' in model and not disagreed:
                mv = eval_terms(model['ok'][x][y])
                if not close(v, mv):
                    ctx.disagreement('Model.Info.mutualInformationTerms vs mutual_information: %r vs %r' % (mv, v), rc)
                    disagreed = True      # keep evaluating the property's predicate on the real output
    if 'ok' not in model:
        ctx.disagreement('Model.Info.mutualInformationTerms failed: %s' % _short(model), dict(case, stage='mi'))
    if self_mode:
        ctx.tag('mi-self')
        for x in range(Fa):
            for y in range(Fa):
                if not close(float(mi[x, y]), float(mi[y, x])):
                    ctx.violation('mutual information of a data set against itself is not symmetric: '
                                  'mi[%d,%d]=%r mi[%d,%d]=%r' % (x, y, mi[x, y], y, x, mi[y, x]),
                                  dict(case, stage='mi-symm'))
                    return
            cnt = np.diagonal(jc[x, x]).astype(float)
            ok, H = guarded(ctx, 'shannon_entropy', dict(case, stage='mi-diag'),
                            lambda: float(entropy.shannon_entropy(cnt)) if cnt.sum() > 0 else 0.0)
            if not ok:
                return
            if not close(float(mi[x, x]), H) or not close(H, entropy_oracle(cnt)):
                ctx.violation('diagonal mutual information %r != Shannon entropy %r of feature %d'
                              % (mi[x, x], H, x), dict(case, stage='mi-diag'))
                return
    # relabelling states and reordering frames: the real pipeline was re-run (in the child) on the transformed stream
    if tr is None or not_run(ctx, got2):
        return
    c2, pa, pb = tr['case'], tr['pa'], tr['pb']
    if 'crash' in got2:
        ctx.violation('relabelled / frame-permuted valid stream crashed or hung the process (%s)' % got2['crash'],
                      dict(case, stage='relabel', transformed=c2))
        return
    if 'error' in got2:
        ctx.violation('relabelled / frame-permuted valid stream raised %s' % got2['error'],
                      dict(case, stage='relabel', transformed=c2))
        return
    jc2 = table_of(got2)
    expect = np.zeros_like(jc)
    for x in range(Fa):
        for y in range(Fb):
            ia = np.array(pa[x])
            ib = np.array(pb[y])
            expect[x, y][np.ix_(ia, ib)] = jc[x, y]
    if jc2.shape != expect.shape or not np.array_equal(expect, jc2):
        ctx.violation('joint counts are not equivariant under relabelling states / reordering frames',
                      dict(case, stage='relabel', transformed=c2))
        return
    mi2 = mi_real(ctx, jc2, dict(case, stage='relabel', transformed=c2))
    if mi2 is None:
        return
    if not allclose(mi, mi2, TOL):
        ctx.violation('mutual information changed under relabelling states / reordering frames: %s'
                      % (('max diff %r' % float(np.abs(mi - mi2).max())) if mi.shape == mi2.shape else
                         'shapes %s / %s' % (mi.shape, mi2.shape)), dict(case, stage='relabel', transformed=c2))
        return
    ctx.tag('mi-relabel+frame-perm')


def make_transform(rng, case, shape):
    """a random relabelling of the states of every feature + a random reordering of the frames"""
    X = case['X']
    Ys = case.get('Y')
    nx, ny = shape[2], shape[3]
    if nx - 1 > np.iinfo(np.dtype(X['dtype'])).max or \
            (Ys is not None and ny - 1 > np.iinfo(np.dtype(Ys['dtype'])).max):
        return None
    perm_t = [int(i) for i in rng.permutation(X['T'])]
    pa = [[int(i) for i in rng.permutation(nx)] for _ in range(X['F'])]
    pb = pa if Ys is None else [[int(i) for i in rng.permutation(ny)] for _ in range(Ys['F'])]
    c2 = json.loads(json.dumps(case))
    c2['n_x'] = nx
    c2['X']['rows'] = [[pa[f][X['rows'][t][f]] for f in range(X['F'])] for t in perm_t]
    if Ys is not None:
        c2['n_y'] = ny
        c2['Y']['rows'] = [[pb[f][Ys['rows'][t][f]] for f in range(Ys['F'])] for t in perm_t]
    return {'case': c2, 'pa': pa, 'pb': pb}


MM_CONTAINERS = ['list', 'tuple', 'ragged', 'ndarray3d']
MM_NKINDS = ['list', 'tuple', 'int64', 'int8', 'uint8', 'int32', 'pyint', 'npint']


def fitting_dtypes(maxval):
    return [d for d in DTYPES if np.iinfo(np.dtype(d)).max >= maxval]


def gen_mi_matrix_case(rng, idx=None):
    k = int(rng.integers(1, 5))
    Fa, Fb = int(rng.integers(1, 4)), int(rng.integers(1, 4))
    n_x = [int(rng.integers(2, 6)) for _ in range(Fa)]
    n_y = [int(rng.integers(2, 6)) for _ in range(Fb)]
    big = idx is not None and idx % 5 == 0
    if big:        # a state count beyond the int8 / uint8 range on one side (ids near the top are visited)
        n_x[int(rng.integers(0, Fa))] = int(rng.choice([128, 129, 200, 255, 256, 257, 300]))
    container = MM_CONTAINERS[idx % 4] if idx is not None else 'list'
    dta = str(rng.choice(fitting_dtypes(max(n_x) - 1)))
    dtb = str(rng.choice(DTYPES))
    trajs = []
    T0 = int(rng.integers(1, 25))
    const_feature = rng.random() < 0.2
    for _ in range(k):
        T = T0 if container == 'ndarray3d' else int(rng.integers(1, 25))
        X = [[int(rng.integers(0, n_x[f])) if n_x[f] < 100 else int(n_x[f] - 1 - rng.integers(0, 3))
              for f in range(Fa)] for _ in range(T)]
        Y = [[int(rng.integers(0, n_y[f])) for f in range(Fb)] for _ in range(T)]
        if rng.random() < 0.4 and Fa == Fb:       # correlated sides
            Y = [[min(X[t][f], n_y[f] - 1) for f in range(Fb)] for t in range(T)]
        if const_feature:                         # a feature that never changes state
            for r in Y:
                r[0] = n_y[0] - 1
        lay = ['C', 'C'] if container in ('ragged', 'ndarray3d') else [str(rng.choice(LAYOUTS)) for _ in range(2)]
        trajs.append({'X': {'rows': X, 'T': T, 'F': Fa, 'dtype': dta, 'layout': lay[0]},
                      'Y': {'rows': Y, 'T': T, 'F': Fb, 'dtype': dtb, 'layout': lay[1]}})
    n_kind = MM_NKINDS[(idx // 4) % len(MM_NKINDS)] if idx is not None else 'list'
    if max(n_x) > 127 and n_kind == 'int8':
        n_kind = 'int32'
    if max(n_x) > 255 and n_kind == 'uint8':
        n_kind = 'int64'
    scalar = n_kind in ('pyint', 'npint')
    return {'kind': 'mi_matrix', 'trajs': trajs, 'n_x': max(n_x) if scalar else n_x,
            'n_y': max(n_y) if scalar else n_y, 'threads': int(rng.integers(1, 17)),
            'container': container, 'n_kind': n_kind, 'argstyle': str(rng.choice(['pos', 'kw']))}


def mm_args(case):
    from enspara import ra
    Xs = [build_array(t['X']) for t in case['trajs']]
    Ys = [build_array(t['Y']) for t in case['trajs']]
    cont = case.get('container', 'list')
    if cont == 'tuple':
        CX, CY = tuple(Xs), tuple(Ys)
    elif cont == 'ragged':
        CX = ra.RaggedArray(array=np.concatenate(Xs), lengths=[len(x) for x in Xs])
        CY = ra.RaggedArray(array=np.concatenate(Ys), lengths=[len(y) for y in Ys])
    elif cont == 'ndarray3d':
        CX, CY = np.stack(Xs), np.stack(Ys)
    else:
        CX, CY = Xs, Ys
    kind = case.get('n_kind', 'list')

    def conv(n):
        if kind == 'pyint' or not isinstance(n, list):
            return np.int64(n) if kind == 'npint' else int(n)
        if kind == 'tuple':
            return tuple(n)
        if kind == 'list':
            return list(n)
        return np.array(n, dtype=kind)
    return Xs, Ys, CX, CY, conv(case['n_x']), conv(case['n_y'])


def check_mi_matrix(ctx, case, model):
    from enspara.info_theory import mutual_info
    Xs, Ys, CX, CY, n_x, n_y = mm_args(case)
    mx = int(np.max(case['n_x']))
    my = int(np.max(case['n_y']))
    ctx.case(case, nontrivial=True, tags=['mi_matrix', 'trajs=%d' % len(Xs),
                                          'trajs-container=' + case.get('container', 'list'),
                                          'n-kind=' + case.get('n_kind', 'list'),
                                          'n>127' if max(mx, my) > 127 else 'n<=127',
                                          'args-' + case.get('argstyle', 'pos')])

    def mm(normalize):
        if case.get('argstyle') == 'kw':
            return np.asarray(mutual_info.mi_matrix(Xs=CX, Ys=CY, n_x=n_x, n_y=n_y, normalize=normalize))
        return np.asarray(mutual_info.mi_matrix(CX, CY, n_x, n_y, normalize))
    snap = [a.tobytes() for a in Xs + Ys]
    try:
        with warnings.catch_warnings():
            warnings.simplefilter('ignore')
            with omp_threads(case['threads']):
                # the first trajectory's table, handed to the caller BEFORE mi_matrix accumulates in place
                first = mutual_info.joint_counts(Xs[0], Ys[0], mx, my)
                first_copy = first.copy()
                raw = mm(False)
                nrm = mm(True)
                raw2 = mm(False)                  # same argument objects again
                first_again = mutual_info.joint_counts(Xs[0], Ys[0], mx, my)
                pooled_jc = mutual_info.joint_counts(np.concatenate([np.asarray(x) for x in Xs]),
                                                     np.concatenate([np.asarray(y) for y in Ys]), mx, my)
                pj_snap = pooled_jc.tobytes()
                pooled = np.asarray(mutual_info.mutual_information(pooled_jc))
                # the same table as int64 with every count multiplied by a large constant, and as floats
                scaled = np.asarray(mutual_info.mutual_information(pooled_jc.astype(np.int64) * 1000003))
                asfloat = np.asarray(mutual_info.mutual_information(pooled_jc.astype(float)))
    except BaseException as e:  # noqa
        ctx.violation('mi_matrix on valid trajectories raised %s: %s' % (type(e).__name__, str(e)[:80]), case)
        return
    if snap != [a.tobytes() for a in Xs + Ys] or pj_snap != pooled_jc.tobytes():
        ctx.violation('mi_matrix / mutual_information modified its arguments', case)
        return
    if not np.array_equal(first, first_copy) or not np.array_equal(first, first_again):
        ctx.violation('the joint-count table of the first trajectory changed after mi_matrix accumulated the others',
                      case)
        return
    if not np.array_equal(raw, raw2):
        ctx.violation('mi_matrix called twice with the same argument objects gave different results', case)
        return
    if not allclose(scaled, pooled, TOL) or not allclose(asfloat, pooled, TOL):
        ctx.violation('mutual_information depends on the count dtype / a common factor of the counts '
                      '(uint32 vs int64 x 1000003 vs float64)', case)
        return
    n_x, n_y = case['n_x'], case['n_y']
    Xc = np.concatenate([np.array(t['X']['rows'], dtype=np.int64).reshape(t['X']['T'], t['X']['F'])
                         for t in case['trajs']])
    Yc = np.concatenate([np.array(t['Y']['rows'], dtype=np.int64).reshape(t['Y']['T'], t['Y']['F'])
                         for t in case['trajs']])
    ref_jc = oracle_counts_fast(Xc, Yc, mx, my)
    if not np.array_equal(ref_jc, pooled_jc.astype(np.int64)):
        ctx.violation('joint counts of the concatenated trajectories differ from the frame counts', case)
        return
    Fa, Fb = raw.shape
    nxv = n_x if isinstance(n_x, list) else [n_x] * Fa
    nyv = n_y if isinstance(n_y, list) else [n_y] * Fb
    disagreed = False
    for x in range(Fa):
        for y in range(Fb):
            ref = mi_oracle(ref_jc[x, y])
            rc = dict(case, cell=[x, y])
            if not close(float(raw[x, y]), ref) or not close(float(raw[x, y]), float(pooled[x, y])):
                ctx.violation('mi_matrix entry %r is not the mutual information %r of the pooled counts'
                              % (float(raw[x, y]), ref), rc)
                return
            want = float(raw[x, y]) / math.log(min(nxv[x], nyv[y]))
            if not close(float(nrm[x, y]), want):
                ctx.violation('normalised mi_matrix entry (%d,%d) = %r is not mi / log(min(n_x[i], n_y[j])) = %r'
                              % (x, y, float(nrm[x, y]), want), rc)
                return
            if model is not None and 'ok' in model and not disagreed:
                mv = eval_terms(model['ok']['terms'][x][y])
                if not close(mv, float(raw[x, y])):
                    ctx.disagreement('Model.Info.miMatrixCounts terms vs mi_matrix: %r vs %r'
                                     % (mv, float(raw[x, y])), rc)
                    disagreed = True
    if model is not None and ('ok' not in model or model['ok']['jc'] != pooled_jc.tolist()):
        ctx.disagreement('Model.Info.miMatrixCounts pooled table vs joint_counts of the concatenation',
                         dict(case, model=_short(model)))


WMI_MODES = ['uniform', 'uniform-unnormalised', 'random', 'random-with-zeros', 'uniform-scaled-1e-9',
             'uniform-scaled-1e9', 'uniform-scaled-1e-300', 'random-scaled-1e9', 'one-hot', 'int-weights',
             'int-weights-sum-1']
WMI_CONTAINERS = ['ndarray', 'list', 'tuple', 'float32']


def gen_wmi_case(rng, idx=None):
    T = int(rng.integers(1, 25))
    F = int(rng.integers(1, 4))
    n = int(rng.integers(2, 5))
    rows = gen_table(rng, T, F, n)
    if F >= 2 and rng.random() < 0.4:
        for r in rows:
            r[1] = r[0]
    if rng.random() < 0.2:                      # a feature that never changes state
        k = int(rng.integers(0, n))
        for r in rows:
            r[0] = k
    mode = WMI_MODES[idx % len(WMI_MODES)] if idx is not None else str(rng.choice(WMI_MODES[:4]))
    if mode == 'uniform':
        w = [1.0 / T] * T
    elif mode == 'uniform-unnormalised':
        w = [float(rng.choice([0.5, 1.0, 3.0]))] * T
    elif mode.startswith('uniform-scaled'):
        w = [{'uniform-scaled-1e-9': 1e-9, 'uniform-scaled-1e9': 1e9, 'uniform-scaled-1e-300': 1e-300}[mode]] * T
    elif mode == 'one-hot':
        w = [0.0] * T
        w[int(rng.integers(0, T))] = float(rng.choice([1.0, 0.25, 7.0]))
    elif mode == 'int-weights':
        w = [int(v) for v in rng.integers(0, 4, size=T)]
        if sum(w) in (0, 1):
            w[0] += 2
    elif mode == 'int-weights-sum-1':
        w = [0] * T
        w[int(rng.integers(0, T))] = 1
    else:
        w = [float(v) for v in rng.random(T)]
        if mode == 'random-with-zeros' and T > 1:
            w[int(rng.integers(0, T))] = 0.0
        if sum(w) == 0:
            w[0] = 1.0
        if mode == 'random-scaled-1e9':
            w = [v * 1e9 for v in w]
    container = 'ndarray' if idx is None else WMI_CONTAINERS[(idx // len(WMI_MODES)) % len(WMI_CONTAINERS)]
    if mode.startswith('int-weights'):
        container = str(rng.choice(['ndarray', 'list', 'tuple']))
    if mode == 'uniform-scaled-1e-300' and container == 'float32':
        container = 'ndarray'                   # 1e-300 is 0 in single precision: not a weight vector
    if container == 'float32':
        w = [float(np.float32(v)) for v in w]          # the model sees exactly the float32 values
    nfs = None if rng.random() < 0.3 else [n + int(rng.integers(0, 2)) for _ in range(F)]
    dtype = str(rng.choice(['int64', 'int32', 'int16', 'int8', 'uint8', 'uint64', 'bool']))
    if dtype == 'bool':
        rows = [[min(v, 1) for v in r] for r in rows]
        n = 2
        nfs = None if nfs is None else [2 + int(rng.integers(0, 2)) for _ in range(F)]
    return {'kind': 'wmi', 'rows': rows, 'T': T, 'F': F, 'n': n, 'w': w, 'nfs': nfs, 'mode': mode,
            'dtype': dtype, 'container': container,
            'nfs_kind': str(rng.choice(['list', 'tuple', 'int64', 'int8', 'uint16'])),
            'argstyle': str(rng.choice(['pos', 'kw']))}


def gen_wmi_edge(rng, k):
    """default n_feature_states with an id equal to the feature dtype's maximum (127 in int8, 255 in uint8):
    the default count `int(features.max()) + 1` must not wrap in the feature dtype"""
    dtype, top = [('int8', 127), ('uint8', 255)][k % 2]
    T, F = int(rng.integers(2, 5)), int(rng.integers(1, 3))
    rows = [[int(rng.choice([0, 1, top - 1, top])) for _ in range(F)] for _ in range(T)]
    rows[0][0] = top
    return {'kind': 'wmi', 'rows': rows, 'T': T, 'F': F, 'n': top + 1, 'w': [1.0 / T] * T, 'nfs': None,
            'mode': 'uniform', 'dtype': dtype, 'container': 'ndarray', 'nfs_kind': 'list', 'argstyle': 'pos',
            'edge': 'default-states-at-dtype-max'}


def wmi_args(case):
    X = np.array(case['rows'], dtype=case['dtype']).reshape(case['T'], case['F'])
    cont = case.get('container', 'ndarray')
    if cont == 'list':
        w = list(case['w'])
    elif cont == 'tuple':
        w = tuple(case['w'])
    elif cont == 'float32':
        w = np.array(case['w'], dtype=np.float32)
    else:
        w = np.array(case['w'])           # float64, or an integer array for integer weights
    nfs = case['nfs']
    if nfs is not None:
        k = case.get('nfs_kind', 'list')
        nfs = list(nfs) if k == 'list' else (tuple(nfs) if k == 'tuple' else np.array(nfs, dtype=k))
    return X, w, nfs


def call_wmi(case, X, w, nfs, normalize):
    from enspara.info_theory import mutual_info
    if case.get('argstyle') == 'kw':
        return np.asarray(mutual_info.weighted_mi(features=X, weights=w, n_feature_states=nfs, normalize=normalize))
    return np.asarray(mutual_info.weighted_mi(X, w, nfs, normalize))


def check_wmi(ctx, case, model):
    from enspara.info_theory import mutual_info
    X, w, nfs = wmi_args(case)
    tol = 1e-5 if case.get('container') == 'float32' else TOL      # float32 weights: eps 6e-8 times a few sums
    ctx.case(case, nontrivial=case['T'] > 1, tags=['weighted_mi', 'weights=' + case['mode'],
                                                    'weights-container=' + case.get('container', 'ndarray'),
                                                    'features-dtype=' + case['dtype'],
                                                    'nfs-default' if case['nfs'] is None else
                                                    'nfs-' + case.get('nfs_kind', 'list'),
                                                    'args-' + case.get('argstyle', 'pos')] +
             (['wmi-' + case['edge']] if case.get('edge') else []))
    snap = (X.tobytes(), repr(w) if not isinstance(w, np.ndarray) else w.tobytes())
    try:
        with warnings.catch_warnings():
            warnings.simplefilter('ignore')
            raw = call_wmi(case, X, w, nfs, False)
            nrm = None
            states = list(case['nfs']) if case['nfs'] is not None else [int(X.max()) + 1] * case['F']
            if min(states) >= 2:
                nrm = call_wmi(case, X, w, nfs, True)
            again = call_wmi(case, X, w, nfs, False)        # same argument objects, second call
    except BaseException as e:  # noqa
        ctx.violation('weighted_mi on a valid weighted sample raised %s: %s' % (type(e).__name__, str(e)[:80]), case)
        return
    if snap != (X.tobytes(), repr(w) if not isinstance(w, np.ndarray) else w.tobytes()):
        ctx.violation('weighted_mi modified its arguments', case)
        return
    if not np.array_equal(raw, again):
        ctx.violation('weighted_mi called twice with the same argument objects gave different results', case)
        return
    F = case['F']
    if raw.shape != (F, F):
        ctx.violation('weighted_mi shape %s' % (raw.shape,), case)
        return
    if 'ok' not in model:
        ctx.disagreement('Model.Info.weightedMi failed: %s' % _short(model), case)
    disagreed = False
    for f in range(F):
        for g in range(F):
            v = float(raw[f, g])
            rc = dict(case, cell=[f, g], got=v)
            if not (v >= -1e-12):
                ctx.violation('weighted mutual information is negative: %r' % v, rc)
                return
            if not close(v, float(raw[g, f]), tol):
                ctx.violation('weighted mutual information is not symmetric', rc)
                return
            if 'ok' in model and not disagreed:
                mv = max(0.0, eval_terms(model['ok']['terms'][f][g]))
                if not close(mv, v, tol):
                    ctx.disagreement('Model.Info.weightedMi terms vs weighted_mi: %r vs %r' % (mv, v), rc)
                    disagreed = True
            if nrm is not None:
                want = v / math.log(min(states[f], states[g]))
                if not close(float(nrm[f, g]), want, tol):
                    ctx.violation('normalised weighted_mi entry %r is not mi / log(min(n_i, n_j)) = %r'
                                  % (float(nrm[f, g]), want), rc)
                    return
    if case['mode'].startswith('uniform'):
        # the weighted estimator under uniform weights = the counts-based estimator
        n = max(states)
        ok, cm = guarded(ctx, 'mutual_information(joint_counts(X))', case,
                         lambda: np.asarray(mutual_info.mutual_information(
                             mutual_info.joint_counts(X.astype(np.int8) if X.dtype == bool else X, n_x=n))))
        if not ok:
            return
        ctx.tag('weighted-uniform-vs-counts')
        if not allclose(cm, raw, tol):
            ctx.violation('weighted_mi under uniform weights differs from the counts-based mutual information: '
                          '%s' % (('max diff %r' % float(np.abs(cm - raw).max())) if cm.shape == raw.shape else
                                  'shapes %s / %s' % (cm.shape, raw.shape)), case)


def gen_ccn_case(rng, idx):
    r, c = int(rng.integers(1, 6)), int(rng.integers(1, 6))
    if idx % 3 == 0 and r == c:
        c = r + 1
    scale = [1.0, 1.0, 1e-9, 1e9, 1e-300, 1e300][idx % 6]       # entries at every magnitude: compared relatively
    mi = [[float(v) * scale for v in row] for row in rng.random((r, c))]
    nx = [int(rng.integers(2, 9)) for _ in range(r)]
    ny = [int(rng.integers(2, 9)) for _ in range(c)]
    case = {'kind': 'ccn', 'mi': mi, 'rows': r, 'cols': c, 'n_x': nx, 'n_y': ny, 'bad': None,
            'nx_dtype': None if rng.random() < 0.5 else str(rng.choice(DTYPES)),
            'ny_dtype': None if rng.random() < 0.5 else str(rng.choice(DTYPES)),
            'container': str(rng.choice(['ndarray', 'list', 'tuple'])), 'scale': scale,
            'order': str(rng.choice(['C', 'F']))}
    if idx % 4 == 1:
        # state counts beyond the int8 / uint8 / int16 ranges, in dtypes that can hold them
        big = [127, 128, 129, 255, 256, 257, 300, 32767, 32768, 65535, 65536, 70000]
        nx[int(rng.integers(0, r))] = int(rng.choice(big))
        ny[int(rng.integers(0, c))] = int(rng.choice(big))
        case['nx_dtype'] = None if rng.random() < 0.3 else str(rng.choice(fitting_dtypes(max(nx))))
        case['ny_dtype'] = None if rng.random() < 0.3 else str(rng.choice(fitting_dtypes(max(ny))))
    u = rng.random()
    if u < 0.15:
        case['n_x'] = int(rng.integers(2, 9))
        case['nx_scalar'] = str(rng.choice(['pyint', 'np.int64', 'np.int8']))
    elif u < 0.3:
        case['n_y'] = int(rng.integers(2, 9))
        case['ny_scalar'] = str(rng.choice(['pyint', 'np.int64', 'np.uint8']))
    elif u < 0.4:
        case['bad'] = 'length'
        if rng.random() < 0.5:
            case['n_x'] = nx + [3]
        else:
            case['n_y'] = ny[:-1] if c > 1 else ny + [2]
    elif u < 0.5:
        case['bad'] = 'n<2'
        signed_ok = ('int8', 'int16', 'int32', 'int64') if max(max(nx), max(ny)) <= 127 else ('int32', 'int64')
        case['nx_dtype'] = case['nx_dtype'] if case['nx_dtype'] in signed_ok else None
        case['ny_dtype'] = case['ny_dtype'] if case['ny_dtype'] in signed_ok else None
        if rng.random() < 0.5:
            case['n_x'] = [int(rng.choice([1, 0, -1]))] + nx[1:]
        else:
            case['n_y'] = int(rng.choice([1, 0]))
    return case


def ccn_states(n, dtype, container, scalar_kind):
    if not isinstance(n, list):
        return {'np.int64': np.int64, 'np.int8': np.int8, 'np.uint8': np.uint8}.get(scalar_kind, int)(n)
    if dtype is not None or container == 'ndarray':
        return np.array(n, dtype=dtype)
    return tuple(n) if container == 'tuple' else list(n)


def check_ccn(ctx, case, model):
    from enspara.info_theory import mutual_info
    mi = np.array(case['mi'], dtype=float).reshape(case['rows'], case['cols'])
    if case.get('order') == 'F':
        mi = np.asfortranarray(mi)
    before = mi.copy()
    ctx.case(case, nontrivial=True, tags=['ccn', 'ccn-' + (case['bad'] or 'valid'),
                                          'rows!=cols' if case['rows'] != case['cols'] else 'rows=cols',
                                          'ccn-scale=%g' % case.get('scale', 1.0),
                                          'ccn-n>255' if max(np.max(case['n_x']), np.max(case['n_y'])) > 255
                                          else 'ccn-n<=255'])
    nx, ny = case['n_x'], case['n_y']
    ax = ccn_states(nx, case.get('nx_dtype'), case.get('container', 'ndarray'), case.get('nx_scalar'))
    ay = ccn_states(ny, case.get('ny_dtype'), case.get('container', 'ndarray'), case.get('ny_scalar'))
    snap = (repr(ax), repr(ay))
    try:
        with warnings.catch_warnings():
            warnings.simplefilter('ignore')
            out = np.asarray(mutual_info.channel_capacity_normalization(mi, ax, ay))
            out2 = np.asarray(mutual_info.channel_capacity_normalization(mi=mi, n_x=ax, n_y=ay))
        got = {'ok': out}
    except BaseException as e:  # noqa
        got = {'error': ERR_KIND.get(type(e).__name__, type(e).__name__)}
    if case['bad']:
        if 'error' not in got:
            ctx.violation('channel_capacity_normalization accepted malformed state counts (%s)' % case['bad'], case)
        elif model.get('error') != got['error']:
            ctx.disagreement('Model.Info.channelCapacityArgs vs real validator: %s vs %s'
                             % (_short(model), got['error']), case)
        return
    if 'error' in got:
        ctx.violation('channel_capacity_normalization raised %s on valid input' % got['error'], case)
        return
    nxv = nx if isinstance(nx, list) else [nx] * case['rows']
    nyv = ny if isinstance(ny, list) else [ny] * case['cols']
    if out.shape != mi.shape:
        ctx.violation('channel_capacity_normalization changed the shape', case)
        return
    if not np.array_equal(mi, before) or snap != (repr(ax), repr(ay)) or not np.array_equal(out, out2):
        ctx.violation('channel_capacity_normalization modified its arguments / gave a different result on the '
                      'second call with the same objects', case)
        return
    # (the state-count vectors come in every integer dtype: the log must be taken in double precision)
    gdt = np.result_type(np.asarray(ax).dtype, np.asarray(ay).dtype)
    ctx.tag('ccn-grid-dtype=%s' % gdt)
    for i in range(case['rows']):
        for j in range(case['cols']):
            want = before[i, j] / math.log(min(nxv[i], nyv[j]))
            # one division of doubles: relative to the entry's own scale (entries range from 1e-300 to 1e300)
            if abs(float(out[i, j]) - want) > 1e-12 * abs(want):
                ctx.violation('normalised entry (%d,%d) = %r is not mi / log(min(n_x[%d], n_y[%d])) = %r '
                              '(state-count dtype %s)' % (i, j, float(out[i, j]), i, j, want, gdt),
                              dict(case, cell=[i, j]))
                return
    if model.get('ok') != [[min(nxv[i], nyv[j]) for j in range(case['cols'])] for i in range(case['rows'])]:
        ctx.disagreement('Model.Info.ccnGrid vs min(n_x[i], n_y[j])', dict(case, model=_short(model)))


def gen_dist(rng, n, zeros=True):
    p = rng.random(n)
    if zeros and n > 1 and rng.random() < 0.5:
        p[rng.integers(0, n, size=int(rng.integers(1, n)))] = 0.0
    if p.sum() == 0:
        p[0] = 1.0
    p = p / p.sum()
    return [float(v) for v in p]


KL_FAMILIES = ['equal', 'near', 'different', 'different', 'near-1e-6', 'near-1e-9', 'tiny-entries', 'denormal',
               'one-hot', 'equal-tiny', 'different']
KL_CONTAINERS = ['ndarray', 'list', 'tuple', 'float32']


def gen_kl_case(rng, idx=None):
    n = int(rng.integers(1, 7))
    P = gen_dist(rng, n)
    rel = KL_FAMILIES[idx % len(KL_FAMILIES)] if idx is not None else 'different'
    container = KL_CONTAINERS[(idx // len(KL_FAMILIES)) % 4] if idx is not None else 'ndarray'
    if rel == 'equal':
        Q = list(P)
    elif rel == 'near':
        Q = [float(v) for v in (np.array(P) * (1 - 1e-13) + 1e-13 / n)]
    elif rel in ('near-1e-6', 'near-1e-9'):
        n = max(n, 2)
        P = gen_dist(rng, n, zeros=False)
        eps = 1e-6 if rel == 'near-1e-6' else 1e-9
        q = np.array(P) * (1 + eps * rng.choice([-1.0, 1.0], size=n) * (0.5 + rng.random(n)))
        Q = [float(v) for v in q / q.sum()]
        container = 'ndarray'
    elif rel in ('tiny-entries', 'denormal', 'equal-tiny'):
        # some probabilities at the 1e-300 / denormal scale (the rest carries the mass)
        n = max(n, 2)
        tiny = 5e-324 if rel == 'denormal' else float(rng.choice([1e-300, 1e-200, 2.5e-308]))
        P = gen_dist(rng, n, zeros=False)
        Q = gen_dist(rng, n, zeros=False)
        def with_tiny(D, i, v):
            rest = sum(x for k, x in enumerate(D) if k != i)
            return [v if k == i else x / rest for k, x in enumerate(D)]     # still sums to 1 (v << 1e-16)
        P = with_tiny(P, int(rng.integers(0, n)), tiny)
        if rng.random() < 0.5:
            Q = with_tiny(Q, int(rng.integers(0, n)), tiny * float(rng.choice([1.0, 3.0])))
        if rel == 'equal-tiny':
            Q = list(P)
        container = container if container != 'float32' else 'ndarray'
    elif rel == 'one-hot':
        P = [0.0] * n
        P[int(rng.integers(0, n))] = 1.0
        if rng.random() < 0.5:
            Q = list(P)
        else:
            Q = gen_dist(rng, n, zeros=False)
        if rng.random() < 0.3:
            P = [int(v) for v in P]               # integer one-hot vectors
            container = 'list'
    else:
        Q = gen_dist(rng, n, zeros=rng.random() < 0.3)
    if container == 'float32':
        P = [float(np.float32(v)) for v in P]
        Q = [float(np.float32(v)) for v in Q]
    base = [2, math.e, 10.0, 1.5, 2.0][int(rng.integers(0, 5))]
    bad = None
    v = rng.random()
    if v < 0.06:
        bad = 'negative'
        P = [float(x) for x in P]
        P[0] = -P[0] if P[0] != 0 else -0.25
    elif v < 0.12:
        bad = 'shape'
        Q = list(Q) + [0.0]
    return {'kind': 'kl', 'P': P, 'Q': Q, 'base': base, 'rel': rel, 'bad': bad, 'container': container,
            'default_base': bool(rng.random() < 0.3)}


def kl_args(case):
    c = case.get('container', 'ndarray')
    if c == 'list':
        return list(case['P']), list(case['Q'])
    if c == 'tuple':
        return tuple(case['P']), tuple(case['Q'])
    if c == 'float32':
        return np.array(case['P'], dtype=np.float32), np.array(case['Q'], dtype=np.float32)
    return np.array(case['P']), np.array(case['Q'])


def check_kl(ctx, case, model):
    from enspara.info_theory import entropy
    P, Q = case['P'], case['Q']
    tol = 1e-5 if case.get('container') == 'float32' else TOL
    ctx.case(case, nontrivial=len(P) > 1, tags=['kl', 'kl-' + (case['bad'] or case['rel']),
                                                'kl-container=' + case.get('container', 'ndarray'),
                                                'base=%s' % ('default' if case['default_base'] else
                                                             ('e' if case['base'] == math.e else case['base']))])
    aP, aQ = kl_args(case)
    snap = (repr(aP), repr(aQ))
    try:
        with warnings.catch_warnings():
            warnings.simplefilter('ignore')
            if case['default_base']:
                d = entropy.kl_divergence(aP, aQ)
                d2 = entropy.kl_divergence(aP, aQ)
            else:
                d = entropy.kl_divergence(aP, aQ, base=case['base'])
                d2 = entropy.kl_divergence(P=aP, Q=aQ, base=case['base'])
        got = {'ok': float(d), 'again': float(d2)}
    except BaseException as e:  # noqa
        got = {'error': ERR_KIND.get(type(e).__name__, type(e).__name__)}
    base = 2 if case['default_base'] else case['base']
    if case['bad']:
        if 'error' not in got:
            ctx.violation('kl_divergence accepted a malformed distribution (%s)' % case['bad'], case)
        elif model.get('error') != got['error']:
            ctx.disagreement('Model.Info.klTerms error branch: %s vs %s' % (_short(model), got['error']), case)
        return
    if 'error' in got:
        ctx.violation('kl_divergence raised %s on probability distributions' % got['error'], case)
        return
    d = got['ok']
    if snap != (repr(aP), repr(aQ)) or not (got['again'] == d or (math.isnan(d) and math.isnan(got['again']))):
        ctx.violation('kl_divergence modified its arguments / gave a different result on the second call', case)
        return
    if math.isnan(d) or not (d >= -1e-12):
        ctx.violation('relative entropy is negative / nan: %r' % d, case)
        return
    l1 = sum(abs(a - b) for a, b in zip(P, Q))
    if list(P) == list(Q) and abs(d) > 1e-12:
        ctx.violation('relative entropy of equal distributions is %r, not 0' % d, case)
        return
    if l1 > 1e-3 and not (d > 0):
        ctx.violation('relative entropy of different distributions (L1 distance %r) is %r, not > 0' % (l1, d), case)
        return
    if case['rel'] == 'near-1e-6':
        # distributions that differ by a relative 1e-6: KL ~ 1e-12, far above the rounding noise (~1e-16)
        ref = math.fsum(p * -math.log1p((q - p) / p) for p, q in zip(P, Q)) / math.log(base)
        # (rounding noise of sum p log(p/q): a few 1e-16)
        if (ref > 1e-14 and not (d > 0)) or abs(d - ref) > 1e-2 * abs(ref) + 1e-15:
            ctx.violation('relative entropy of nearly equal distributions is %r, expected %r (> 0)' % (d, ref), case)
        return
    if case['rel'] == 'near-1e-9':
        # KL ~ 1e-18 is below the rounding noise of the formula: only the sign slack and the size are checked
        if abs(d) > 1e-12:
            ctx.violation('relative entropy of distributions equal to 1e-9 is %r' % d, case)
        return
    # reference: sum p (log p - log q) / log(base)
    if any(p > 0 and q == 0 for p, q in zip(P, Q)):
        ref = math.inf
    else:
        ref = math.fsum(p * (math.log(p) - math.log(q)) for p, q in zip(P, Q) if p > 0) / math.log(base)
    with np.errstate(all='ignore'):
        ratios = [np.float64(p) / np.float64(q) for p, q in zip(P, Q) if p > 0 and q > 0]
    if any(math.isinf(r) or r == 0 for r in ratios):
        ctx.skip('kl: p/q overflows a double (denormal q): value not compared, laws checked')
        return
    if not (d == ref or close(d, ref, tol)):
        ctx.violation('kl_divergence = %r differs from sum p log_base(p/q) = %r' % (d, ref), case)
        return
    if model.get('ok') == 'inf':
        mv = math.inf
    elif 'ok' in model:
        mv = eval_terms(model['ok']) / math.log(base)
    else:
        ctx.disagreement('Model.Info.klTerms failed: %s' % _short(model), case)
        return
    if not (mv == d or close(mv, d, tol)):
        ctx.disagreement('Model.Info.klTerms vs kl_divergence: %r vs %r' % (mv, d), case)


def check_kl_rows(ctx, cases):
    """2-D input: one divergence per row"""
    from enspara.info_theory import entropy
    by_n = {}
    for c in cases:
        if not c['bad'] and len(c['P']) == len(c['Q']):
            by_n.setdefault(len(c['P']), []).append(c)
    for n, cs in by_n.items():
        if len(cs) < 2:
            continue
        P = np.array([c['P'] for c in cs])
        Q = np.array([c['Q'] for c in cs])
        rp = {'kind': 'kl2d', 'P': P.tolist(), 'Q': Q.tolist()}
        ok, res = guarded(ctx, 'kl_divergence (2-D)', rp, lambda: (
            np.asarray(entropy.kl_divergence(P, Q, base=math.e)),
            [float(entropy.kl_divergence(np.array(c['P']), np.array(c['Q']), base=math.e)) for c in cs]))
        if not ok:
            continue
        d, single = res
        ctx.tag('kl-2d')
        if d.shape != (len(cs),) or not all(a == b or close(a, b) for a, b in zip(d.tolist(), single)):
            ctx.violation('kl_divergence on a 2-D stack differs from the row-wise divergences',
                          {'kind': 'kl2d', 'P': P.tolist(), 'Q': Q.tolist()})


ENT_FAMILIES = ['counts', 'dist', 'counts-int', 'scaled-1e-300', 'scaled-1e-320', 'scaled-1e-9', 'scaled-1e9',
                'scaled-1e300', 'one-state', 'tiny-entry', 'counts-list']


def gen_entropy_case(rng, idx=None):
    n = int(rng.integers(1, 8))
    fam = ENT_FAMILIES[idx % len(ENT_FAMILIES)] if idx is not None else str(rng.choice(['counts', 'dist']))
    normalize = True
    counts = [float(v) for v in rng.integers(0, 20, size=n)]
    if sum(counts) == 0:
        counts[0] = 1.0
    if fam == 'dist':
        p = gen_dist(rng, n)
        normalize = bool(rng.random() < 0.5)
    elif fam.startswith('scaled-'):
        p = [v * float(fam[len('scaled-'):]) for v in counts]     # H(normalised) must not depend on the scale
    elif fam == 'one-state':
        p = [0.0] * n                     # a feature that never changes state: H = 0
        p[int(rng.integers(0, n))] = float(rng.choice([1.0, 17.0]))
        normalize = bool(rng.random() < 0.7) or max(p) != 1.0
    elif fam == 'tiny-entry':
        p = gen_dist(rng, max(n, 2), zeros=False)
        p[0] = float(rng.choice([1e-300, 5e-324, 1e-200]))
        normalize = bool(rng.random() < 0.5)
    else:
        p = counts
    return {'kind': 'entropy', 'p': p, 'normalize': normalize, 'family': fam}


def check_entropy(ctx, case, model):
    from enspara.info_theory import entropy
    fam = case.get('family', 'counts')
    if fam == 'counts-int':
        p = np.array([int(v) for v in case['p']], dtype=str(ctx.rng.choice(['int64', 'int32', 'uint8', 'uint32'])))
    elif fam == 'counts-list' and case['normalize']:
        p = [float(v) for v in case['p']]
    else:
        p = np.array(case['p'], dtype=float)
    snap = repr(p) if isinstance(p, list) else p.tobytes()
    ctx.case(case, nontrivial=len(case['p']) > 1, tags=['shannon_entropy', 'entropy-' + fam,
                                                         'normalize' if case['normalize'] else 'as-is'])
    ok, res = guarded(ctx, 'shannon_entropy', case, lambda: (
        float(entropy.shannon_entropy(p, normalize=case['normalize'])),
        float(entropy.shannon_entropy(p, normalize=case['normalize']))))
    if not ok:
        return
    H, H2 = res
    pf = [float(v) for v in case['p']]
    tot = math.fsum(pf)
    q = [v / tot for v in pf] if case['normalize'] else pf
    ref = float(-math.fsum(x * math.log(x) for x in q if x > 0))
    if (repr(p) if isinstance(p, list) else p.tobytes()) != snap or H2 != H:
        ctx.violation('shannon_entropy modified its argument / gave a different result on the second call', case)
        return
    if not close(H, ref):
        ctx.violation('shannon_entropy = %r differs from -sum p log p = %r' % (H, ref), case)
        return
    if H < -1e-12:
        ctx.violation('Shannon entropy of a distribution is negative: %r' % H, case)
        return
    if 'ok' not in model:
        ctx.disagreement('Model.Info.entropyTerms failed: %s' % _short(model), case)
    elif not close(eval_terms(model['ok']), H):
        ctx.disagreement('Model.Info.entropyTerms vs shannon_entropy: %r vs %r' % (eval_terms(model['ok']), H), case)


def gen_sweep(rng, k):
    if k % 8 == 3:
        # more than 65535 frames in one cell (the counts are uint32): one or two features, one or two states
        return {'kind': 'sweep', 'seed': int(rng.integers(0, 2 ** 31)), 'T': int(rng.choice([65536, 70000, 140000])),
                'Fa': int(rng.integers(1, 3)), 'Fb': int(rng.integers(1, 3)), 'na': int(rng.integers(1, 3)),
                'nb': int(rng.integers(1, 3)), 'dta': DTYPES[(k // 8) % 8], 'dtb': DTYPES[(k // 8) % 8],
                'layout': str(rng.choice(LAYOUTS)), 'family': 'long-trajectory'}
    if k % 8 == 6:
        # more features than any thread count / than 255
        return {'kind': 'sweep', 'seed': int(rng.integers(0, 2 ** 31)), 'T': int(rng.choice([30, 100])),
                'Fa': int(rng.choice([256, 300, 513])), 'Fb': int(rng.integers(1, 4)), 'na': 2, 'nb': 3,
                'dta': DTYPES[(k // 8) % 8], 'dtb': str(rng.choice(DTYPES)),
                'layout': str(rng.choice(LAYOUTS)), 'family': 'many-features'}
    T = int(rng.choice([200, 700, 2000]))
    return {'kind': 'sweep', 'seed': int(rng.integers(0, 2 ** 31)), 'T': T,
            'Fa': int(rng.integers(8, 41)), 'Fb': int(rng.integers(1, 13)),
            'na': int(rng.integers(2, 7)), 'nb': int(rng.integers(2, 7)),
            'dta': DTYPES[k % 8], 'dtb': DTYPES[k % 8] if rng.random() < 0.6 else str(rng.choice(DTYPES)),
            'layout': str(rng.choice(LAYOUTS))}


def run_sweep(d):
    """(runs in the child) a larger table under every thread count 1..16 (or d['threads']): real kernel vs numpy
    brute force.  Returns {'threads': [...], 'omp': [...], 'bad': None | {'threads': k, 'what': ...}}"""
    from enspara.info_theory import mutual_info
    r2 = np.random.default_rng(d['seed'])
    X64 = r2.integers(0, d['na'], size=(d['T'], d['Fa']))
    Y64 = r2.integers(0, d['nb'], size=(d['T'], d['Fb']))
    ref = oracle_counts_fast(X64, Y64, d['na'], d['nb'])
    lay = d['layout']

    def mk(A, dt):
        A = A.astype(dt)
        if lay == 'F':
            return np.asfortranarray(A)
        if lay == 'strided':
            base = np.full((2 * A.shape[0], 2 * A.shape[1]), np.iinfo(np.dtype(dt)).max, dtype=dt)
            base[::2, 1::2] = A
            return base[::2, 1::2]
        if lay == 'reversed':
            return np.ascontiguousarray(A[::-1, ::-1])[::-1, ::-1]
        return np.ascontiguousarray(A)
    X, Y = mk(X64, d['dta']), mk(Y64, d['dtb'])
    out = {'threads': [], 'omp': [], 'bad': None}
    for th in ([d['threads']] if 'threads' in d else range(1, 17)):
        with warnings.catch_warnings():
            warnings.simplefilter('ignore')
            with omp_threads(th):
                # what libgomp reports under the limit (evidence that the limit is effective)
                out['omp'].append(max([m['num_threads'] for m in _CTL[0].info() if m['user_api'] == 'openmp'] or [0]))
                try:
                    jc = mutual_info.joint_counts(X, Y, d['na'], d['nb'])
                except BaseException as e:  # noqa
                    out['bad'] = {'threads': th, 'what': 'joint_counts raised %s on a valid stream' % type(e).__name__}
                    return out
        out['threads'].append(th)
        if not np.array_equal(jc.astype(np.int64), ref):
            out['bad'] = {'threads': th, 'what': 'joint-count table differs from the number of frames'}
            return out
    return out


def check_sweep(ctx, d, got):
    if not_run(ctx, got):
        return
    ctx.case(d, nontrivial=True, tags=['thread-sweep', 'sweep-' + d.get('family', 'large-table'),
                                       'dtype-x=' + d['dta'], 'layout-x=' + d['layout']])
    if 'crash' in got:
        ctx.violation('joint_counts on a valid stream crashed or hung the process (%s)' % got['crash'], d)
        return
    r = got['sweep']
    for th, omp in zip(r['threads'], r['omp']):
        ctx.tag('threads=%d' % th)
        ctx.evaluations += 1
        if omp != th:
            ctx.skip('libgomp reported %d threads under a limit of %d' % (omp, th))
    if r['bad']:
        ctx.violation('%s (%d threads)' % (r['bad']['what'], r['bad']['threads']), dict(d, threads=r['bad']['threads']))


def sched_requests(ctx, cases):
    """the model under random schedules of the prange: requests for the driver"""
    reqs, keep = [], []
    for c, jc in cases:
        if c.get('Y') is None or c['X']['dtype'] != c['Y']['dtype']:
            continue
        n_steps = c['X']['T'] * c['X']['F'] * c['Y']['F']
        choices = [int(v) for v in ctx.rng.integers(0, max(1, c['X']['F']), size=n_steps)]
        reqs.append({'op': 'C18.bincount', 'a': model_arr(c['X']), 'b': model_arr(c['Y']),
                     'n_a': jc.shape[2], 'n_b': jc.shape[3], 'choices': choices})
        keep.append((c, jc))
    return reqs, keep


def sched_check(ctx, cases):
    """the model run under random schedules of the prange equals the table the real kernel produced (under
    whatever interleaving the OS chose)"""
    reqs, keep = sched_requests(ctx, cases)
    resp = ctx.driver(reqs)
    for (c, jc), r in zip(keep, resp):
        ctx.tag('model-schedule')
        if r.get('ok') != jc.tolist():
            ctx.disagreement('Model.Info.matrixBincount2dSched (random schedule) vs matrix_bincount2d',
                             dict(c, stage='sched'))


# --------------------------------------------------------------------------------------

def jc_pipeline(ctx, cases, n_mi, n_sched):
    """valid streams: kernel calls in the child; tables vs brute force vs model; MI laws on the real tables.
    Returns False when the kernel crashed (then nothing else is run in this process)."""
    def table_cells(c):
        nx = c.get('n_x') or (int(values_of(c['X']).max()) + 1)
        ny = nx if c.get('Y') is None else (c.get('n_y') or (int(values_of(c['Y']).max()) + 1))
        return c['X']['F'] * (c['X']['F'] if c.get('Y') is None else c['Y']['F']) * nx * ny
    def cheap(c):
        # the model's table is a closure over the schedule: a lookup costs O(#steps)
        steps = c['X']['T'] * c['X']['F'] * (c['X']['F'] if c.get('Y') is None else c['Y']['F'])
        return table_cells(c) * max(1, steps) <= 400000
    for_model = [c for c in cases if cheap(c)]
    it = iter(ctx.driver([jc_request(c) for c in for_model]))
    resp = []
    for c in cases:
        if cheap(c):
            resp.append(next(it))
        else:
            ctx.tag('model-skipped-big-table')      # the closure-based model table is too slow for n ~ 70000
            resp.append(None)
    got = run_in_child(cases)
    tables = []
    crashed = False
    for c, g, r in zip(cases, got, resp):
        crashed = crashed or 'crash' in g or 'not_run' in g
        jc = check_jc_case(ctx, c, g, r)
        if jc is not None and not c.get('wide'):
            tables.append((c, jc))
    if crashed:
        return False, tables
    todo = [(c, jc) for c, jc in tables if c.get('entry') != 'kernel'][:n_mi]
    trs = [make_transform(ctx.rng, c, jc.shape) for c, jc in todo]
    got2 = run_in_child([t['case'] for t in trs if t is not None])
    models = ctx.driver([{'op': 'C18.mi', 'jc': jc.tolist(), 'n_a': jc.shape[2], 'n_b': jc.shape[3]}
                         for _, jc in todo])
    it = iter(got2)
    for (c, jc), t, m in zip(todo, trs, models):
        g2 = next(it) if t is not None else None
        check_mi_laws(ctx, c, jc, t, g2, m)
        crashed = crashed or (g2 is not None and ('crash' in g2 or 'not_run' in g2))
    sched_check(ctx, tables[:n_sched])
    return not crashed, tables


def run(ctx):
    import time
    rng = ctx.rng
    t0 = time.time()
    times = {}

    def lap(k):
        nonlocal t0
        times[k] = round(time.time() - t0, 2)
        t0 = time.time()
    # 1. valid streams: table == brute force == model; then the MI laws on the real table
    cases = [gen_jc_case(rng, i) for i in range(ctx.n(230, 5000))]
    cases += [gen_wide_case(rng) for _ in range(ctx.n(40, 400))]
    cases += [gen_jc_special(rng, i) for i in range(ctx.n(24, 160))]
    off = int(rng.integers(0, 1000))
    cases += [gen_long_case(rng, off + i, False) for i in range(ctx.n(6, 48))]     # valid, long, mixed widths
    ok, _ = jc_pipeline(ctx, cases, ctx.n(90, 3000), ctx.n(60, 2000))
    lap('jc+mi-laws+sched')
    if not ok:
        # the compiled kernel crashed / hung on a valid stream (violations recorded): stop here
        ctx.note('stopped_after_crash', True)
        ctx.note('section_seconds', times)
        return
    # 2. malformed streams (child process)
    bad = [gen_malformed(rng, i) for i in range(ctx.n(120, 2400))]
    mresp = ctx.driver([jc_request(c) for c in bad])
    # long mixed-width streams with one foreign id in the wide array (every width pair, both sides over the
    # seeds); the model sees the first few (a million-row request each), the rest only must raise
    longbad = [gen_long_case(rng, off + i, True) for i in range(ctx.n(14, 96))]
    n_model = ctx.n(4, 12)
    mresp += ctx.driver([jc_request(c) for c in longbad[:n_model]]) + [None] * (len(longbad) - n_model)
    bad += longbad
    got = run_in_child(bad)
    for c, g, m in zip(bad, got, mresp):
        check_malformed(ctx, c, g, m)
        ok = ok and 'crash' not in g and 'not_run' not in g
    lap('malformed')
    # 3. thread sweep on larger tables (child process)
    sw = [gen_sweep(rng, k) for k in range(ctx.n(16, 200))]
    for d, g in zip(sw, run_in_child(sw)):
        check_sweep(ctx, d, g)
        ok = ok and 'crash' not in g and 'not_run' not in g
    lap('sweep')
    # 3b. the 1-D kernel libinfo.bincount2d (child process)
    b1 = [gen_b1d(rng, i) for i in range(ctx.n(48, 1200))]
    for c, g, m in zip(b1, run_in_child(b1), ctx.driver([b1d_request(c) for c in b1])):
        check_b1d(ctx, c, g, m)
        ok = ok and 'crash' not in g and 'not_run' not in g
    lap('bincount2d-1D')
    if not ok:
        # the compiled kernel accesses memory out of bounds: do not call it in this process
        ctx.note('stopped_after_crash', True)
        ctx.note('section_seconds', times)
        return
    # 4. mi_matrix: pooled counts
    mm = [gen_mi_matrix_case(rng, i) for i in range(ctx.n(64, 1600))]
    small = [c for c in mm if max(int(np.max(c['n_x'])), int(np.max(c['n_y']))) <= 16]
    resp = iter(ctx.driver([mi_matrix_request(c) for c in small]))
    for c in mm:
        if max(int(np.max(c['n_x'])), int(np.max(c['n_y']))) <= 16:
            check_mi_matrix(ctx, c, next(resp))
        else:
            ctx.tag('model-skipped-big-table')       # the closure-based model table is too slow for n ~ 300
            check_mi_matrix(ctx, c, None)
    lap('mi_matrix')
    # 5. weighted_mi
    wm = [gen_wmi_case(rng, i) for i in range(ctx.n(88, 2200))] + [gen_wmi_edge(rng, k) for k in range(ctx.n(1, 8))]
    resp = ctx.driver([wmi_request(c) for c in wm])
    for c, r in zip(wm, resp):
        check_wmi(ctx, c, r)
    lap('wmi')
    # 6. channel capacity normalisation
    cc = [gen_ccn_case(rng, i) for i in range(ctx.n(150, 3000))]
    resp = ctx.driver([ccn_request(c) for c in cc])
    for c, r in zip(cc, resp):
        check_ccn(ctx, c, r)
    lap('ccn')
    # 7. relative entropy, Shannon entropy
    kl = [gen_kl_case(rng, i) for i in range(ctx.n(264, 6160))]
    resp = ctx.driver([kl_request(c) for c in kl])
    for c, r in zip(kl, resp):
        check_kl(ctx, c, r)
    check_kl_rows(ctx, kl)
    en = [gen_entropy_case(rng, i) for i in range(ctx.n(132, 3080))]
    resp = ctx.driver([entropy_request(c) for c in en])
    for c, r in zip(en, resp):
        check_entropy(ctx, c, r)
    lap('kl+entropy')
    ctx.note('section_seconds', times)


def mi_matrix_request(c):
    return {'op': 'C18.mi_matrix', 'trajs': [{'X': model_arr(t['X']), 'Y': model_arr(t['Y'])} for t in c['trajs']],
            'n_x': int(np.max(c['n_x'])), 'n_y': int(np.max(c['n_y']))}


def ccn_request(c):
    return {'op': 'C18.ccn', 'rows': c['rows'], 'cols': c['cols'], 'n_x': c['n_x'], 'n_y': c['n_y']}


def kl_request(c):
    return {'op': 'C18.kl', 'P': [fj(v) for v in c['P']], 'Q': [fj(v) for v in c['Q']]}


def entropy_request(c):
    return {'op': 'C18.entropy', 'p': [fj(v) for v in c['p']], 'normalize': c['normalize']}


def wmi_request(c):
    r = {'op': 'C18.wmi', 'X': {'rows': c['rows'], 'T': c['T'], 'F': c['F']}, 'w': [fj(v) for v in c['w']]}
    if c['nfs'] is not None:
        r['nfs'] = c['nfs']
    return r


def replay(ctx, data):
    kind = data.get('kind')
    drop = ('stage', 'cell', 'got', 'transformed', 'model')
    base = {k: v for k, v in data.items() if k not in drop}
    if kind == 'jc':
        jc_pipeline(ctx, [base], 1, 1)
    elif kind == 'malformed':
        m = ctx.driver([jc_request(base)])[0]
        g = run_in_child([base])[0]
        check_malformed(ctx, base, g, m)
    elif kind == 'sweep':
        check_sweep(ctx, base, run_in_child([base])[0])
    elif kind == 'b1d':
        check_b1d(ctx, base, run_in_child([base])[0], ctx.driver([b1d_request(base)])[0])
    elif kind == 'mi_matrix':
        big = max(int(np.max(base['n_x'])), int(np.max(base['n_y']))) > 16
        check_mi_matrix(ctx, base, None if big else ctx.driver([mi_matrix_request(base)])[0])
    elif kind == 'wmi':
        check_wmi(ctx, base, ctx.driver([wmi_request(base)])[0])
    elif kind == 'ccn':
        check_ccn(ctx, base, ctx.driver([ccn_request(base)])[0])
    elif kind == 'kl':
        check_kl(ctx, base, ctx.driver([kl_request(base)])[0])
    elif kind == 'kl2d':
        from enspara.info_theory import entropy
        P, Q = np.array(data['P']), np.array(data['Q'])
        ok, res = guarded(ctx, 'kl_divergence (2-D)', data, lambda: (
            np.asarray(entropy.kl_divergence(P, Q, base=math.e)).tolist(),
            [float(entropy.kl_divergence(p_, q_, base=math.e)) for p_, q_ in zip(P, Q)]))
        if ok and not all(a_ == b_ or close(a_, b_) for a_, b_ in zip(*res)):
            ctx.violation('kl_divergence on a 2-D stack differs from the row-wise divergences', data)
    elif kind == 'entropy':
        check_entropy(ctx, base, ctx.driver([entropy_request(base)])[0])
    else:
        raise ValueError('unknown replay kind %r' % kind)
