"""C18 - joint counts are exact; mutual information obeys its algebraic laws."""
import json
import math
import os
import subprocess
import sys
import warnings
from fractions import Fraction

import numpy as np

# libgomp's default is to spin at barriers; on a loaded machine a 16-thread call of a tiny kernel then costs
# 0.15 s instead of 0.1 ms.  Must be set before libgomp initialises (the extensions are imported lazily).
os.environ.setdefault('OMP_WAIT_POLICY', 'PASSIVE')

RULE = ('random integer feature trajectories (1..40 frames, 1..4 features and 1..6 states per side, equal or '
        'different on the two sides; larger 2000-frame x 40-feature tables for the thread sweep) in each of the 8 '
        'integer dtypes (same or mixed on the two sides, ids up to the dtype maximum), as C / Fortran / strided / '
        'reversed views and 1-D vectors, run under 1..16 OpenMP threads; malformed streams (negative id, id = n, '
        'id > n, different lengths, zero frames, zero features, mixed dtypes with a negative id, state count too '
        'large for a C int); 1-D streams for libinfo.bincount2d (valid and malformed); every call of the compiled '
        'kernels runs in a child process; count tables from the real kernel feed mutual_information / '
        'mi_matrix (1..4 pooled trajectories) / weighted_mi (uniform and random weights) / '
        'channel_capacity_normalization (n_x != n_y, different lengths, scalar or vector) / kl_divergence (zeros, '
        'bases 2, e, 10, 1.5) / shannon_entropy; a case is non-trivial when at least two states occur; distinct by '
        'canonical input')
ASSUMPTIONS = [
    'fewer than 2**32 frames per (feature pair, state pair) cell: counts are uint32 in the code and Nat in the model '
    '(the code asserts a.shape[1] < 2**32, i.e. the number of FEATURES, not of frames; untestable here)',
    'numpy basic indexing / strides, astype between integer dtypes (two\'s-complement wrap), np.add.at (oracle), libm log',
    'libgomp honours threadpoolctl limits (user_api="openmp", checked via omp thread count in the evidence); runs use '
    'OMP_WAIT_POLICY=PASSIVE (threads sleep instead of spinning at barriers); the OS scheduler picks the interleaving '
    '(the theorem covers every interleaving; the run samples some)',
    'float arithmetic of mutual_information / weighted_mi / kl_divergence / shannon_entropy agrees with the exact '
    'rational terms of the model within 1e-9 (rounding is not modelled)',
    'state counts passed to the kernel fit a C int (larger values raise OverflowError, modelled and checked)',
]
TRUSTED_EXTRA = ['Model.Sched / Proofs.Sched (interleaving independence, shared with C13/C15)']

DTYPES = ['int8', 'int16', 'int32', 'int64', 'uint8', 'uint16', 'uint32', 'uint64']
LAYOUTS = ['C', 'F', 'strided', 'reversed']
TOL = 1e-9
HERE = os.path.dirname(os.path.abspath(__file__))


# --------------------------------------------------------------------------------------
# array construction (shared by the in-process run, the child process and replay)

def dt_spec(name):
    d = np.dtype(name)
    return [d.itemsize * 8, d.kind == 'i']


def build_array(spec):
    """spec = {'rows': [[..]], 'T':, 'F':, 'dtype':, 'layout':, 'one_d': bool} -> numpy array (a view for
    strided / reversed layouts; the surrounding memory holds ids that are out of every declared range)"""
    T, F, dt = spec['T'], spec['F'], np.dtype(spec['dtype'])
    vals = np.array(spec['rows'], dtype=object).reshape(T, F) if T * F else np.zeros((T, F), dtype=object)
    info = np.iinfo(dt)
    junk = info.max                      # an id no declared range contains (ranges here are < max)
    layout = spec.get('layout', 'C')
    if layout == 'C':
        a = np.zeros((T, F), dtype=dt, order='C')
        a[...] = vals.astype(dt) if T * F else a
    elif layout == 'F':
        a = np.zeros((T, F), dtype=dt, order='F')
        a[...] = vals.astype(dt) if T * F else a
    elif layout == 'strided':
        base = np.full((2 * T + 3, 3 * F + 4), junk, dtype=dt)
        a = base[1:1 + 2 * T:2, 2:2 + 3 * F:3]
        if T * F:
            a[...] = vals.astype(dt)
    elif layout == 'reversed':
        base = np.zeros((T, F), dtype=dt)
        if T * F:
            base[...] = vals.astype(dt)[::-1, ::-1]
        a = base[::-1, ::-1]
    else:
        raise ValueError(layout)
    assert a.shape == (T, F)
    if spec.get('one_d'):
        assert F == 1
        a = a[:, 0]
    return a


def model_arr(spec):
    return {'rows': spec['rows'], 'T': spec['T'], 'F': spec['F'], 'dt': dt_spec(spec['dtype'])}


_CTL = []


def omp_threads(k):
    """context manager limiting libgomp to k threads (one controller, created after the extension is loaded)"""
    if not _CTL:
        from threadpoolctl import ThreadpoolController
        from enspara.info_theory import libinfo  # noqa: F401  (loads libgomp)
        _CTL.append(ThreadpoolController())
    return _CTL[0].limit(limits=int(k), user_api='openmp')


ERR_KIND = {'AssertionError': 'assertion', 'ValueError': 'value-error', 'DataInvalid': 'data-invalid',
            'OverflowError': 'overflow-error', 'RuntimeError': 'runtime-error'}


def call_jc(case):
    """run the real joint_counts / matrix_bincount2d for one case; returns {'ok': nested list} or {'error': kind}"""
    from enspara.info_theory import mutual_info, libinfo
    X = build_array(case['X'])
    Y = build_array(case['Y']) if case.get('Y') is not None else None
    try:
        with warnings.catch_warnings():
            warnings.simplefilter('ignore')
            with omp_threads(case.get('threads', 1)):
                if case.get('entry') == 'kernel':
                    jc = libinfo.matrix_bincount2d(X, Y, case['n_x'], case['n_y'])
                else:
                    jc = mutual_info.joint_counts(X, Y, case.get('n_x'), case.get('n_y'))
    except BaseException as e:  # noqa
        nm = type(e).__name__
        return {'error': ERR_KIND.get(nm, nm)}
    return {'ok': jc, 'dtype': str(jc.dtype)}


def oracle_counts(case):
    """brute force: the property's own words (valid inputs only)"""
    X = np.array(case['X']['rows'], dtype=object).reshape(case['X']['T'], case['X']['F'])
    Ys = case.get('Y') or case['X']
    Y = np.array(Ys['rows'], dtype=object).reshape(Ys['T'], Ys['F'])
    nx = case.get('n_x')
    ny = case.get('n_y')
    if nx is None:
        nx = int(max(X.ravel())) + 1
    if case.get('Y') is None:
        ny = nx
    elif ny is None:
        ny = int(max(Y.ravel())) + 1
    o = np.zeros((X.shape[1], Y.shape[1], nx, ny), dtype=np.int64)
    for t in range(X.shape[0]):
        for x in range(X.shape[1]):
            for y in range(Y.shape[1]):
                o[x, y, int(X[t, x]), int(Y[t, y])] += 1
    return o


def oracle_counts_fast(X, Y, nx, ny):
    o = np.zeros((X.shape[1], Y.shape[1], nx, ny), dtype=np.int64)
    for x in range(X.shape[1]):
        for y in range(Y.shape[1]):
            np.add.at(o[x, y], (X[:, x].astype(np.int64), Y[:, y].astype(np.int64)), 1)
    return o


def jc_request(case):
    if case.get('entry') == 'kernel':
        return {'op': 'C18.bincount', 'a': model_arr(case['X']), 'b': model_arr(case['Y']),
                'n_a': case['n_x'], 'n_b': case['n_y']}
    r = {'op': 'C18.jc', 'X': model_arr(case['X'])}
    if case.get('Y') is not None:
        r['Y'] = model_arr(case['Y'])
    if case.get('n_x') is not None:
        r['n_x'] = case['n_x']
    if case.get('n_y') is not None:
        r['n_y'] = case['n_y']
    return r


# --------------------------------------------------------------------------------------
# helpers for the real-valued part

def frac(x):
    return Fraction(float(x))


def fj(x):
    f = frac(x)
    return [f.numerator, f.denominator]


def eval_terms(terms):
    """sum of coef * log(arg) with libm; terms = [[[n,d],[n,d]], ...]"""
    s = 0.0
    for (cn, cd), (an, ad) in terms:
        s += float(Fraction(cn, cd)) * (math.log(an) - math.log(ad))
    return s


def close(a, b, tol=TOL):
    return abs(a - b) <= tol * max(1.0, abs(a), abs(b))


def entropy_oracle(counts):
    c = np.asarray(counts, dtype=float)
    n = c.sum()
    if n == 0:
        return 0.0
    p = c[c > 0] / n
    return float(-(p * np.log(p)).sum())


def mi_oracle(tab):
    tab = np.asarray(tab, dtype=float)
    n = tab.sum()
    if n == 0:
        return 0.0
    p = tab / n
    px = p.sum(1)
    py = p.sum(0)
    s = 0.0
    for u in range(p.shape[0]):
        for v in range(p.shape[1]):
            if p[u, v] > 0:
                s += p[u, v] * math.log(p[u, v] / (px[u] * py[v]))
    return s


# --------------------------------------------------------------------------------------
# generators

def gen_table(rng, T, F, n):
    return [[int(v) for v in row] for row in rng.integers(0, n, size=(T, F))]


def gen_jc_case(rng, idx):
    self_mode = rng.random() < 0.3
    T = int(rng.choice([1, 2, 3, 5, 8, 13, 21, 40]))
    # feature counts: Fa > Fb, Fa < Fb and Fa = Fb each get a third of the two-sided cases
    shape_mode = ['Fa>Fb', 'Fa<Fb', 'Fa=Fb'][idx % 3]
    if shape_mode == 'Fa>Fb':
        Fa = int(rng.integers(2, 6))
        Fb = int(rng.integers(1, Fa))
    elif shape_mode == 'Fa<Fb':
        Fb = int(rng.integers(2, 6))
        Fa = int(rng.integers(1, Fb))
    else:
        Fa = Fb = int(rng.integers(1, 5))
    na = int(rng.integers(1, 7))
    nb = na if rng.random() < 0.3 else int(rng.integers(1, 7))
    dta = DTYPES[idx % 8] if rng.random() < 0.7 else str(rng.choice(DTYPES))
    dtb = dta if rng.random() < 0.55 else str(rng.choice(DTYPES))
    case = {'kind': 'jc', 'threads': int(rng.integers(1, 17)),
            'X': {'rows': gen_table(rng, T, Fa, na), 'T': T, 'F': Fa, 'dtype': dta,
                  'layout': str(rng.choice(LAYOUTS))}}
    if Fa == 1 and rng.random() < 0.5:
        case['X']['one_d'] = True
    pad = int(rng.integers(0, 3))
    case['n_x'] = None if rng.random() < 0.35 else na + pad
    if self_mode:
        case['Y'] = None
        case['n_y'] = None
    else:
        case['Y'] = {'rows': gen_table(rng, T, Fb, nb), 'T': T, 'F': Fb, 'dtype': dtb,
                     'layout': str(rng.choice(LAYOUTS))}
        if Fb == 1 and rng.random() < 0.5:
            case['Y']['one_d'] = True
        case['n_y'] = None if rng.random() < 0.35 else nb + int(rng.integers(0, 3))
        if dta == dtb and rng.random() < 0.3 and not case['X'].get('one_d') and not case['Y'].get('one_d') \
                and case['n_x'] is not None and case['n_y'] is not None:
            case['entry'] = 'kernel'
    return case


def gen_wide_case(rng):
    """ids near the dtype maximum: exercises the default state count and the harmonisation casts"""
    pairs = [('uint8', 'int8', 255, 127), ('int8', 'uint8', 127, 255), ('uint8', 'uint8', 255, 255),
             ('int8', 'int8', 127, 127), ('uint8', 'int16', 255, 300), ('int16', 'uint8', 300, 255),
             ('uint16', 'int8', 400, 127), ('int8', 'uint64', 127, 200), ('uint64', 'int64', 300, 300),
             ('int64', 'uint64', 300, 300), ('uint32', 'int32', 300, 300), ('int32', 'uint32', 260, 260),
             ('uint16', 'int16', 280, 280), ('int16', 'uint16', 280, 280)]
    dta, dtb, ma, mb = pairs[int(rng.integers(0, len(pairs)))]
    T = int(rng.integers(1, 7))
    xs = [[int(rng.integers(max(0, ma - 3), ma + 1))] for _ in range(T)]
    ys = [[int(rng.integers(max(0, mb - 3), mb + 1))] for _ in range(T)]
    xs[0][0] = ma
    ys[0][0] = mb
    case = {'kind': 'jc', 'threads': int(rng.integers(1, 17)), 'wide': True,
            'X': {'rows': xs, 'T': T, 'F': 1, 'dtype': dta, 'layout': str(rng.choice(LAYOUTS))},
            'Y': {'rows': ys, 'T': T, 'F': 1, 'dtype': dtb, 'layout': str(rng.choice(LAYOUTS))},
            'n_x': None if rng.random() < 0.5 else ma + 1, 'n_y': None if rng.random() < 0.5 else mb + 1}
    if rng.random() < 0.25:
        case['Y'] = None
        case['n_y'] = None
    return case


def gen_malformed(rng, idx):
    """one malformed stream; `why` names the defect"""
    why = ['negative-x', 'negative-y', 'too-large-x', 'too-large-y', 'much-too-large', 'length-mismatch',
           'zero-frames', 'zero-features', 'mixed-dtype-negative', 'n-overflow', 'negative-self',
           'too-large-default-y'][idx % 12]
    T = int(rng.integers(1, 9))
    Fa, Fb = int(rng.integers(1, 4)), int(rng.integers(1, 4))
    na, nb = int(rng.integers(1, 6)), int(rng.integers(1, 6))
    signed = ['int8', 'int16', 'int32', 'int64']
    dt = str(rng.choice(DTYPES))
    X = gen_table(rng, T, Fa, na)
    Y = gen_table(rng, T, Fb, nb)
    case = {'kind': 'malformed', 'why': why, 'threads': int(rng.integers(1, 17)), 'n_x': na, 'n_y': nb}
    dta = dtb = dt
    t, fa, fb = int(rng.integers(0, T)), int(rng.integers(0, Fa)), int(rng.integers(0, Fb))
    if why == 'negative-x':
        dta = dtb = str(rng.choice(signed))
        X[t][fa] = -int(rng.integers(1, 4))
    elif why == 'negative-y':
        dta = dtb = str(rng.choice(signed))
        Y[t][fb] = -int(rng.integers(1, 4))
    elif why == 'too-large-x':
        X[t][fa] = na
    elif why == 'too-large-y':
        Y[t][fb] = nb
    elif why == 'much-too-large':
        X[t][fa] = na + int(rng.integers(1, 100))
    elif why == 'length-mismatch':
        T2 = T + int(rng.choice([-1, 1, 2])) if T > 1 else T + 1
        Y = gen_table(rng, T2, Fb, nb)
    elif why == 'zero-frames':
        X, Y, T = [], [], 0
    elif why == 'zero-features':
        if rng.random() < 0.5:
            X, Fa = [[] for _ in range(T)], 0
        else:
            Y, Fb = [[] for _ in range(T)], 0
    elif why == 'mixed-dtype-negative':
        pairs = [('int8', 'uint8'), ('int16', 'uint16'), ('int8', 'uint16'), ('int32', 'uint8'),
                 ('int64', 'uint64'), ('int16', 'uint8'), ('int8', 'int16'), ('int32', 'uint32'),
                 ('int16', 'uint32'), ('int8', 'uint64')]
        dta, dtb = pairs[int(rng.integers(0, len(pairs)))]
        X[t][fa] = -int(rng.integers(1, 4))
        # a cast of the negative id to the unsigned / wider type would wrap to 2**bits - k: declare a range so
        # large that the wrapped id fits (when such a table is small enough) - it must still be rejected
        wide = max(np.dtype(dta).itemsize, np.dtype(dtb).itemsize)
        big = 2 ** (8 * wide) if wide <= 2 else None
        side_x = rng.random() < 0.7
        if not side_x:              # the negative id on the second side
            X[t][fa] = 0
            dta, dtb = dtb, dta
            Y[t][fb] = -int(rng.integers(1, 4))
        if big is not None and rng.random() < 0.8:
            if side_x:
                case['n_x'] = big
                case['n_y'] = min(nb, 2) if big > 256 else nb
                Y = [[min(v, case['n_y'] - 1) for v in r] for r in Y]
            else:
                case['n_y'] = big
                case['n_x'] = min(na, 2) if big > 256 else na
                X = [[min(v, case['n_x'] - 1) for v in r] for r in X]
    elif why == 'n-overflow':
        case['n_x'] = int(rng.choice([2 ** 31, 2 ** 40, -2 ** 31 - 1]))
    elif why == 'negative-self':
        dta = str(rng.choice(signed))
        X[t][fa] = -1
        Y = None
        case['n_y'] = None
    elif why == 'too-large-default-y':
        # n_x given too small while n_y is left to its default
        X[t][fa] = na + 1
        case['n_y'] = None
    case['X'] = {'rows': X, 'T': len(X), 'F': Fa, 'dtype': dta, 'layout': str(rng.choice(LAYOUTS))}
    case['Y'] = None if Y is None else {'rows': Y, 'T': len(Y), 'F': Fb, 'dtype': dtb,
                                          'layout': str(rng.choice(LAYOUTS))}
    if case['Y'] is not None and dta == dtb and why != 'n-overflow' and case['n_x'] is not None \
            and case['n_y'] is not None and rng.random() < 0.4:
        case['entry'] = 'kernel'
    return case


def vec(vals, dtype, layout):
    a = np.array(vals, dtype=dtype) if len(vals) else np.zeros(0, dtype=dtype)
    if layout == 'strided':
        base = np.full(3 * len(vals) + 2, np.iinfo(np.dtype(dtype)).max, dtype=dtype)
        base[1:1 + 3 * len(vals):3] = a
        return base[1:1 + 3 * len(vals):3]
    if layout == 'reversed':
        return np.ascontiguousarray(a[::-1])[::-1]
    return a


def call_b1d(c):
    """libinfo.bincount2d (1-D kernel); runs in the child"""
    from enspara.info_theory import libinfo
    try:
        H = libinfo.bincount2d(vec(c['a'], c['dtype'], c['layout']), vec(c['b'], c['dtype'], c['layout']),
                               c['n_a'], c['n_b'])
    except BaseException as e:  # noqa
        return {'error': ERR_KIND.get(type(e).__name__, type(e).__name__)}
    return {'ok': H.tolist(), 'dtype': str(H.dtype), 'shape': list(H.shape), 'total': int(H.sum())}


def gen_b1d(rng, idx):
    T = int(rng.choice([0, 1, 2, 5, 12, 30]))
    na, nb = int(rng.integers(1, 6)), int(rng.integers(1, 6))
    a = [int(v) for v in rng.integers(0, na, size=T)]
    b = [int(v) for v in rng.integers(0, nb, size=T)]
    c = {'kind': 'b1d', 'a': a, 'b': b, 'n_a': na, 'n_b': nb, 'dtype': DTYPES[idx % 8],
         'layout': str(rng.choice(['C', 'strided', 'reversed'])), 'why': None}
    if idx % 2 == 1:
        why = ['negative', 'too-large', 'length'][(idx // 2) % 3]
        if T == 0:
            T = 3
            c['a'] = [int(v) for v in rng.integers(0, na, size=T)]
            c['b'] = [int(v) for v in rng.integers(0, nb, size=T)]
        t = int(rng.integers(0, T))
        side = 'a' if rng.random() < 0.5 else 'b'
        if why == 'negative':
            c['dtype'] = str(rng.choice(['int8', 'int16', 'int32', 'int64']))
            c[side][t] = -int(rng.integers(1, 3))
        elif why == 'too-large':
            c[side][t] = (na if side == 'a' else nb) + int(rng.integers(0, 3))
        else:
            c[side] = c[side] + [0]
        c['why'] = why
    return c


def b1d_request(c):
    col = lambda v: {'rows': [[x] for x in v], 'T': len(v), 'F': 1, 'dt': dt_spec(c['dtype'])}  # noqa: E731
    return {'op': 'C18.bincount1', 'a': col(c['a']), 'b': col(c['b']), 'n_a': c['n_a'], 'n_b': c['n_b']}


def check_b1d(ctx, c, got, model):
    if not_run(ctx, got):
        return
    ctx.case(c, nontrivial=len(c['a']) > 0, tags=['bincount2d-1D', 'b1d-' + (c['why'] or 'valid'), 'dtype-x=' + c['dtype']])
    if c['why']:
        # malformed 1-D stream: must be rejected
        if 'crash' in got:
            ctx.violation('malformed 1-D stream (%s) crashed or hung the process in libinfo.bincount2d (%s)'
                          % (c['why'], got['crash']), c)
        elif 'error' not in got:
            ctx.violation('malformed 1-D stream (%s) was accepted by libinfo.bincount2d: %s counts for %d frames'
                          % (c['why'], got.get('total'), len(c['a'])), c)
        elif model.get('error') != got['error']:
            ctx.disagreement('Model.Info.bincount2d guard stage vs libinfo.bincount2d (%s): %s vs %s'
                             % (c['why'], _short(model), got['error']), c)
        return
    if 'crash' in got or 'error' in got:
        ctx.violation('libinfo.bincount2d failed on a valid 1-D stream: %s' % _short(got), c)
        return
    ref = np.zeros((c['n_a'], c['n_b']), dtype=np.int64)
    for i, j in zip(c['a'], c['b']):
        ref[i, j] += 1
    if got['shape'] != list(ref.shape) or got['ok'] != ref.tolist():
        ctx.violation('libinfo.bincount2d table differs from the number of frames', c)
        return
    if model.get('ok') != got['ok']:
        ctx.disagreement('Model.Info.bincount2d vs libinfo.bincount2d', dict(c, model=_short(model)))


# --------------------------------------------------------------------------------------
# child process for calls that would write out of bounds if a guard were missing

CHILD = r'''
import sys, json
sys.path.insert(0, %r)
from props import c18
import numpy as np
cases = json.load(open(sys.argv[1]))
for i, c in enumerate(cases):
    print('START %%d' %% i, flush=True)
    if c.get('kind') == 'sweep':
        r = {'sweep': c18.run_sweep(c)}
    elif c.get('kind') == 'b1d':
        r = c18.call_b1d(c)
    else:
        r = c18.call_jc(c)
        if 'ok' in r:
            jc = r['ok']
            r = {'ok': jc.tolist() if jc.size <= 400000 else None, 'dtype': str(jc.dtype),
                 'shape': list(jc.shape), 'total': int(jc.sum(dtype=np.uint64))}
    print('RESULT %%d %%s' %% (i, json.dumps(r)), flush=True)
''' % os.path.dirname(HERE)


CHILD_START_TIMEOUT = 180      # seconds until the child has imported enspara and started its first case
CHILD_CASE_TIMEOUT = int(os.environ.get('C18_CASE_TIMEOUT', '60'))        # seconds for one small case (they take milliseconds)
CHILD_SWEEP_TIMEOUT = 300      # seconds for one 16-thread sweep over a large table
CHILD_MAX_FAILS = 4            # after that many crashes / hangs the remaining cases are not run


def _child_once(cases):
    """run one child over `cases`; returns (results-by-index dict, failure) where failure is None or
    (index of the case that was running | None, description)"""
    import queue
    import tempfile
    import threading
    fd, path = tempfile.mkstemp(prefix='c18_cases_', suffix='.json')
    with os.fdopen(fd, 'w') as f:
        json.dump(cases, f)
    errf = tempfile.TemporaryFile(mode='w+')
    res, started, failure = {}, None, None
    try:
        proc = subprocess.Popen([sys.executable, '-c', CHILD, path], stdout=subprocess.PIPE, stderr=errf, text=True)
    except OSError as e:
        os.unlink(path)
        return res, (None, 'could not start the child: %s' % e)
    q = queue.Queue()

    def reader():
        try:
            for line in proc.stdout:
                q.put(line)
        except Exception:  # noqa
            pass
        q.put(None)
    th = threading.Thread(target=reader, daemon=True)
    th.start()
    try:
        while True:
            if started is None:
                limit = CHILD_START_TIMEOUT
            else:
                limit = CHILD_SWEEP_TIMEOUT if cases[started].get('kind') == 'sweep' else CHILD_CASE_TIMEOUT
            try:
                line = q.get(timeout=limit)
            except queue.Empty:
                failure = (started, 'no answer within %d s (hang)' % limit)
                break
            if line is None:
                break
            if line.startswith('START '):
                started = int(line.split()[1])
            elif line.startswith('RESULT '):
                _, i, payload = line.split(' ', 2)
                try:
                    res[int(i)] = json.loads(payload)
                except ValueError:
                    failure = (int(i), 'unreadable answer')
                    break
    finally:
        try:
            proc.kill()
        except Exception:  # noqa
            pass
        try:
            rc = proc.wait(timeout=30)
        except Exception:  # noqa
            rc = None
        try:
            errf.seek(0)
            err = errf.read()[-300:]
        except Exception:  # noqa
            err = ''
        errf.close()
        try:
            os.unlink(path)
        except OSError:
            pass
    if failure is None and len(res) < len(cases):
        # the child ended (crashed) inside case `started`
        failure = (started, 'child ended with return code %s: %s' % (rc, err.strip()[-200:]))
    return res, failure


def run_in_child(cases):
    """every call of the compiled kernel on a generated stream happens here, in a child process, so that an
    out-of-bounds access (dropped guard, wrong index) is reported instead of killing the check: a child that
    crashes, hangs or answers garbage while case i runs gives {'crash': ...} for case i (a violation for the
    caller) and a fresh child continues after it; after CHILD_MAX_FAILS such failures the remaining cases get
    {'not_run': ...}.  Never raises for anything the code under test does.
    Returns one result per case: {'error': kind} | {'ok': table, 'dtype', 'shape', 'total'} | {'sweep': ...} |
    {'crash': description} | {'not_run': reason}"""
    out = [None] * len(cases)
    start, fails, startup_fails = 0, 0, 0
    while start < len(cases):
        res, failure = _child_once(cases[start:])
        for i, r in res.items():
            out[start + i] = r
        if failure is None:
            break
        idx, what = failure
        if idx is None or out[start + idx] is not None:
            # died before the first case / between two cases: retry once, then give up on the rest
            startup_fails += 1
            nxt = start + (max(res) + 1 if res else 0)
            if startup_fails >= 2:
                for k in range(nxt, len(cases)):
                    if out[k] is None:
                        out[k] = {'not_run': 'child process unusable: %s' % what}
                break
            start = nxt
            continue
        out[start + idx] = {'crash': what}
        fails += CHILD_MAX_FAILS if 'hang' in what else 1      # a hang costs a whole timeout: stop after one
        start = start + idx + 1
        if fails >= CHILD_MAX_FAILS:
            for k in range(start, len(cases)):
                if out[k] is None:
                    out[k] = {'not_run': 'child crashed or hung %d times before this case' % fails}
            break
    for k in range(len(cases)):
        if out[k] is None:
            out[k] = {'not_run': 'no answer'}
    return out


def not_run(ctx, got):
    if got is not None and 'not_run' in got:
        ctx.skip('kernel call not run: ' + got['not_run'][:60])
        return True
    return False


# --------------------------------------------------------------------------------------
# checks

def jc_tags(case):
    tags = ['dtype-x=' + case['X']['dtype'], 'layout-x=' + case['X']['layout'], 'threads=%d' % case['threads'],
            'entry=' + case.get('entry', 'joint_counts')]
    if case.get('Y') is None:
        tags.append('self')
    else:
        tags += ['dtype-y=' + case['Y']['dtype'], 'layout-y=' + case['Y']['layout'],
                 'mixed-dtype' if case['Y']['dtype'] != case['X']['dtype'] else 'same-dtype',
                 'Fa>Fb' if case['X']['F'] > case['Y']['F'] else
                 ('Fa<Fb' if case['X']['F'] < case['Y']['F'] else 'Fa=Fb')]
    if case['X'].get('one_d') or (case.get('Y') or {}).get('one_d'):
        tags.append('1-D')
    tags.append('default-n' if case.get('n_x') is None or (case.get('Y') is not None and case.get('n_y') is None)
                else 'explicit-n')
    if case.get('wide'):
        tags.append('wide-ids')
    return tags


def check_jc_case(ctx, case, got, model):
    """valid stream: real table (computed in the child) == brute force (cell by cell) == model"""
    if not_run(ctx, got):
        return None
    ref = oracle_counts(case)
    flat = [v for r in case['X']['rows'] for v in r]
    ctx.case(case, nontrivial=len(set(flat)) > 1 or case['X']['T'] > 1, tags=jc_tags(case))
    if 'crash' in got:
        ctx.violation('joint counts of a valid stream crashed or hung the process (%s)' % got['crash'], case)
        return None
    if 'error' in got:
        ctx.violation('joint counts of a valid stream raised %s' % got['error'], case)
        return None
    if got['dtype'] != 'uint32':
        ctx.violation('joint-count table dtype is %s, not uint32' % got['dtype'], case)
        return None
    if list(got['shape']) != list(ref.shape):
        ctx.violation('joint-count table shape %s != %s' % (list(got['shape']), list(ref.shape)), case)
        return None
    jc = np.array(got['ok'], dtype=np.uint32).reshape(ref.shape)
    if not np.array_equal(jc.astype(np.int64), ref):
        bad = np.argwhere(jc.astype(np.int64) != ref)[0].tolist()
        ctx.violation('joint-count table differs from the number of frames at cell %s: got %d, expected %d'
                      % (bad, int(jc[tuple(bad)]), int(ref[tuple(bad)])), case)
        return None
    if model is not None:
        if model.get('ok') != jc.tolist():
            ctx.disagreement('Model.Info.jointCounts vs joint_counts', dict(case, model=_short(model)))
    return jc


def _short(m):
    s = json.dumps(m)
    return m if len(s) < 400 else s[:400] + '...'


def check_malformed(ctx, case, got, model):
    if not_run(ctx, got):
        return
    ctx.case(case, nontrivial=True, tags=['malformed', 'why=' + case['why'],
                                          'entry=' + case.get('entry', 'joint_counts'),
                                          'dtype-x=' + case['X']['dtype']])
    if 'crash' in got:
        ctx.violation('malformed stream (%s) crashed or hung the process (%s): out-of-bounds access'
                      % (case['why'], got['crash']), case)
        return
    if 'error' not in got:
        ctx.violation('malformed stream (%s) was accepted: table of shape %s with %s counts'
                      % (case['why'], got.get('shape'), got.get('total')), case)
        return
    if model.get('error') != got['error']:
        ctx.disagreement('Model.Info guard stage vs real code on a malformed stream (%s): model %s, code %s'
                         % (case['why'], _short(model), got['error']), case)


def guarded(ctx, what, replay, fn):
    """run a real call on VALID input: an exception is a violation of the property, not harness trouble"""
    try:
        with warnings.catch_warnings():
            warnings.simplefilter('ignore')
            return True, fn()
    except BaseException as e:  # noqa
        ctx.violation('%s raised %s on valid input: %s' % (what, type(e).__name__, str(e)[:100]), replay)
        return False, None


def mi_real(ctx, jc, replay):
    from enspara.info_theory import mutual_info
    ok, v = guarded(ctx, 'mutual_information', replay, lambda: np.asarray(mutual_info.mutual_information(jc)))
    return v if ok else None


def check_mi_laws(ctx, case, jc, tr, got2, model):
    """mutual_information on a real table: model terms and the laws, on the real output"""
    from enspara.info_theory import entropy
    mi = mi_real(ctx, jc, dict(case, stage='mi'))
    if mi is None:
        return
    Fa, Fb, na, nb = jc.shape
    ctx.tag('mi-table')
    if mi.shape != (Fa, Fb):
        ctx.violation('mutual_information shape %s != (%d, %d)' % (mi.shape, Fa, Fb), dict(case, stage='mi'))
        return
    self_mode = case.get('Y') is None
    disagreed = False
    for x in range(Fa):
        for y in range(Fb):
            v = float(mi[x, y])
            rc = dict(case, stage='mi', cell=[x, y], got=v)
            if not (v >= -1e-12) or math.isnan(v):
                ctx.violation('mutual information is negative: %r' % v, rc)
                return
            ref = mi_oracle(jc[x, y])
            if not close(v, ref):
                ctx.violation('mutual information %r differs from sum P log(P/(PxPy)) = %r' % (v, ref), rc)
                return
            hx = entropy_oracle(jc[x, y].sum(1))
            hy = entropy_oracle(jc[x, y].sum(0))
            if v > min(hx, hy) + TOL:
                ctx.violation('mutual information %r exceeds the smaller marginal entropy %r' % (v, min(hx, hy)), rc)
                return
            if 'ok' in model and not disagreed:
                mv = eval_terms(model['ok'][x][y])
                if not close(v, mv):
                    ctx.disagreement('Model.Info.mutualInformationTerms vs mutual_information: %r vs %r' % (mv, v), rc)
                    disagreed = True      # keep evaluating the property's predicate on the real output
    if 'ok' not in model:
        ctx.disagreement('Model.Info.mutualInformationTerms failed: %s' % _short(model), dict(case, stage='mi'))
    if self_mode:
        ctx.tag('mi-self')
        for x in range(Fa):
            for y in range(Fa):
                if not close(float(mi[x, y]), float(mi[y, x])):
                    ctx.violation('mutual information of a data set against itself is not symmetric: '
                                  'mi[%d,%d]=%r mi[%d,%d]=%r' % (x, y, mi[x, y], y, x, mi[y, x]),
                                  dict(case, stage='mi-symm'))
                    return
            cnt = np.diagonal(jc[x, x]).astype(float)
            ok, H = guarded(ctx, 'shannon_entropy', dict(case, stage='mi-diag'),
                            lambda: float(entropy.shannon_entropy(cnt)) if cnt.sum() > 0 else 0.0)
            if not ok:
                return
            if not close(float(mi[x, x]), H) or not close(H, entropy_oracle(cnt)):
                ctx.violation('diagonal mutual information %r != Shannon entropy %r of feature %d'
                              % (mi[x, x], H, x), dict(case, stage='mi-diag'))
                return
    # relabelling states and reordering frames: the real pipeline was re-run (in the child) on the transformed stream
    if tr is None or not_run(ctx, got2):
        return
    c2, pa, pb = tr['case'], tr['pa'], tr['pb']
    if 'crash' in got2:
        ctx.violation('relabelled / frame-permuted valid stream crashed or hung the process (%s)' % got2['crash'],
                      dict(case, stage='relabel', transformed=c2))
        return
    if 'error' in got2:
        ctx.violation('relabelled / frame-permuted valid stream raised %s' % got2['error'],
                      dict(case, stage='relabel', transformed=c2))
        return
    jc2 = np.array(got2['ok'], dtype=np.uint32).reshape(got2['shape'])
    expect = np.zeros_like(jc)
    for x in range(Fa):
        for y in range(Fb):
            ia = np.array(pa[x])
            ib = np.array(pb[y])
            expect[x, y][np.ix_(ia, ib)] = jc[x, y]
    if jc2.shape != expect.shape or not np.array_equal(expect, jc2):
        ctx.violation('joint counts are not equivariant under relabelling states / reordering frames',
                      dict(case, stage='relabel', transformed=c2))
        return
    mi2 = mi_real(ctx, jc2, dict(case, stage='relabel', transformed=c2))
    if mi2 is None:
        return
    if not np.allclose(mi, mi2, rtol=TOL, atol=TOL):
        ctx.violation('mutual information changed under relabelling states / reordering frames: max diff %r'
                      % float(np.abs(mi - mi2).max()), dict(case, stage='relabel', transformed=c2))
        return
    ctx.tag('mi-relabel+frame-perm')


def make_transform(rng, case, shape):
    """a random relabelling of the states of every feature + a random reordering of the frames"""
    X = case['X']
    Ys = case.get('Y')
    nx, ny = shape[2], shape[3]
    if nx - 1 > np.iinfo(np.dtype(X['dtype'])).max or \
            (Ys is not None and ny - 1 > np.iinfo(np.dtype(Ys['dtype'])).max):
        return None
    perm_t = [int(i) for i in rng.permutation(X['T'])]
    pa = [[int(i) for i in rng.permutation(nx)] for _ in range(X['F'])]
    pb = pa if Ys is None else [[int(i) for i in rng.permutation(ny)] for _ in range(Ys['F'])]
    c2 = json.loads(json.dumps(case))
    c2['n_x'] = nx
    c2['X']['rows'] = [[pa[f][X['rows'][t][f]] for f in range(X['F'])] for t in perm_t]
    if Ys is not None:
        c2['n_y'] = ny
        c2['Y']['rows'] = [[pb[f][Ys['rows'][t][f]] for f in range(Ys['F'])] for t in perm_t]
    return {'case': c2, 'pa': pa, 'pb': pb}


def gen_mi_matrix_case(rng):
    k = int(rng.integers(1, 5))
    Fa, Fb = int(rng.integers(1, 4)), int(rng.integers(1, 4))
    n_x = [int(rng.integers(2, 6)) for _ in range(Fa)]
    n_y = [int(rng.integers(2, 6)) for _ in range(Fb)]
    dta, dtb = str(rng.choice(DTYPES)), str(rng.choice(DTYPES))
    trajs = []
    for _ in range(k):
        T = int(rng.integers(1, 25))
        X = [[int(rng.integers(0, n_x[f])) for f in range(Fa)] for _ in range(T)]
        Y = [[int(rng.integers(0, n_y[f])) for f in range(Fb)] for _ in range(T)]
        if rng.random() < 0.4 and Fa == Fb:       # correlated sides
            Y = [[min(X[t][f], n_y[f] - 1) for f in range(Fb)] for t in range(T)]
        trajs.append({'X': {'rows': X, 'T': T, 'F': Fa, 'dtype': dta, 'layout': str(rng.choice(LAYOUTS))},
                      'Y': {'rows': Y, 'T': T, 'F': Fb, 'dtype': dtb, 'layout': str(rng.choice(LAYOUTS))}})
    scalar = rng.random() < 0.25
    return {'kind': 'mi_matrix', 'trajs': trajs, 'n_x': max(n_x) if scalar else n_x,
            'n_y': max(n_y) if scalar else n_y, 'threads': int(rng.integers(1, 17))}


def check_mi_matrix(ctx, case, model):
    from enspara.info_theory import mutual_info
    Xs = [build_array(t['X']) for t in case['trajs']]
    Ys = [build_array(t['Y']) for t in case['trajs']]
    n_x, n_y = case['n_x'], case['n_y']
    mx = int(np.max(n_x))
    my = int(np.max(n_y))
    ctx.case(case, nontrivial=True, tags=['mi_matrix', 'trajs=%d' % len(Xs),
                                          'n-scalar' if not isinstance(n_x, list) else 'n-vector'])
    try:
        with warnings.catch_warnings():
            warnings.simplefilter('ignore')
            with omp_threads(case['threads']):
                raw = np.asarray(mutual_info.mi_matrix(Xs, Ys, n_x, n_y, normalize=False))
                nrm = np.asarray(mutual_info.mi_matrix(Xs, Ys, n_x, n_y, normalize=True))
                pooled_jc = mutual_info.joint_counts(np.concatenate([np.asarray(x) for x in Xs]),
                                                     np.concatenate([np.asarray(y) for y in Ys]), mx, my)
                pooled = np.asarray(mutual_info.mutual_information(pooled_jc))
    except BaseException as e:  # noqa
        ctx.violation('mi_matrix on valid trajectories raised %s' % type(e).__name__, case)
        return
    Xc = np.concatenate([np.array(t['X']['rows'], dtype=np.int64).reshape(t['X']['T'], t['X']['F'])
                         for t in case['trajs']])
    Yc = np.concatenate([np.array(t['Y']['rows'], dtype=np.int64).reshape(t['Y']['T'], t['Y']['F'])
                         for t in case['trajs']])
    ref_jc = oracle_counts_fast(Xc, Yc, mx, my)
    if not np.array_equal(ref_jc, pooled_jc.astype(np.int64)):
        ctx.violation('joint counts of the concatenated trajectories differ from the frame counts', case)
        return
    Fa, Fb = raw.shape
    nxv = n_x if isinstance(n_x, list) else [n_x] * Fa
    nyv = n_y if isinstance(n_y, list) else [n_y] * Fb
    disagreed = False
    for x in range(Fa):
        for y in range(Fb):
            ref = mi_oracle(ref_jc[x, y])
            rc = dict(case, cell=[x, y])
            if not close(float(raw[x, y]), ref) or not close(float(raw[x, y]), float(pooled[x, y])):
                ctx.violation('mi_matrix entry %r is not the mutual information %r of the pooled counts'
                              % (float(raw[x, y]), ref), rc)
                return
            want = float(raw[x, y]) / math.log(min(nxv[x], nyv[y]))
            if not close(float(nrm[x, y]), want):
                ctx.violation('normalised mi_matrix entry (%d,%d) = %r is not mi / log(min(n_x[i], n_y[j])) = %r'
                              % (x, y, float(nrm[x, y]), want), rc)
                return
            if 'ok' in model and not disagreed:
                mv = eval_terms(model['ok']['terms'][x][y])
                if not close(mv, float(raw[x, y])):
                    ctx.disagreement('Model.Info.miMatrixCounts terms vs mi_matrix: %r vs %r'
                                     % (mv, float(raw[x, y])), rc)
                    disagreed = True
    if 'ok' not in model or model['ok']['jc'] != pooled_jc.tolist():
        ctx.disagreement('Model.Info.miMatrixCounts pooled table vs joint_counts of the concatenation',
                         dict(case, model=_short(model)))


def gen_wmi_case(rng):
    T = int(rng.integers(1, 25))
    F = int(rng.integers(1, 4))
    n = int(rng.integers(2, 5))
    rows = gen_table(rng, T, F, n)
    if F >= 2 and rng.random() < 0.4:
        for r in rows:
            r[1] = r[0]
    mode = str(rng.choice(['uniform', 'uniform-unnormalised', 'random', 'random-with-zeros']))
    if mode == 'uniform':
        w = [1.0 / T] * T
    elif mode == 'uniform-unnormalised':
        w = [float(rng.choice([0.5, 1.0, 3.0]))] * T
    else:
        w = [float(v) for v in rng.random(T)]
        if mode == 'random-with-zeros' and T > 1:
            w[int(rng.integers(0, T))] = 0.0
        if sum(w) == 0:
            w[0] = 1.0
    nfs = None if rng.random() < 0.3 else [n + int(rng.integers(0, 2)) for _ in range(F)]
    return {'kind': 'wmi', 'rows': rows, 'T': T, 'F': F, 'n': n, 'w': w, 'nfs': nfs, 'mode': mode,
            'dtype': str(rng.choice(['int64', 'int32', 'int16', 'int8', 'uint8']))}


def check_wmi(ctx, case, model):
    from enspara.info_theory import mutual_info
    X = np.array(case['rows'], dtype=case['dtype']).reshape(case['T'], case['F'])
    w = np.array(case['w'], dtype=float)
    ctx.case(case, nontrivial=case['T'] > 1, tags=['weighted_mi', 'weights=' + case['mode'],
                                                    'nfs-default' if case['nfs'] is None else 'nfs-given'])
    try:
        with warnings.catch_warnings():
            warnings.simplefilter('ignore')
            raw = np.asarray(mutual_info.weighted_mi(X, w, case['nfs'], normalize=False))
            nrm = None
            states = case['nfs'] if case['nfs'] is not None else [int(X.max()) + 1] * case['F']
            if min(states) >= 2:
                nrm = np.asarray(mutual_info.weighted_mi(X, w, case['nfs'], normalize=True))
    except BaseException as e:  # noqa
        ctx.violation('weighted_mi on a valid weighted sample raised %s: %s' % (type(e).__name__, str(e)[:80]), case)
        return
    F = case['F']
    if raw.shape != (F, F):
        ctx.violation('weighted_mi shape %s' % (raw.shape,), case)
        return
    if 'ok' not in model:
        ctx.disagreement('Model.Info.weightedMi failed: %s' % _short(model), case)
    disagreed = False
    for f in range(F):
        for g in range(F):
            v = float(raw[f, g])
            rc = dict(case, cell=[f, g], got=v)
            if not (v >= -1e-12):
                ctx.violation('weighted mutual information is negative: %r' % v, rc)
                return
            if not close(v, float(raw[g, f])):
                ctx.violation('weighted mutual information is not symmetric', rc)
                return
            if 'ok' in model and not disagreed:
                mv = max(0.0, eval_terms(model['ok']['terms'][f][g]))
                if not close(mv, v):
                    ctx.disagreement('Model.Info.weightedMi terms vs weighted_mi: %r vs %r' % (mv, v), rc)
                    disagreed = True
            if nrm is not None:
                want = v / math.log(min(states[f], states[g]))
                if not close(float(nrm[f, g]), want):
                    ctx.violation('normalised weighted_mi entry %r is not mi / log(min(n_i, n_j)) = %r'
                                  % (float(nrm[f, g]), want), rc)
                    return
    if case['mode'].startswith('uniform'):
        # the weighted estimator under uniform weights = the counts-based estimator
        n = max(states)
        ok, cm = guarded(ctx, 'mutual_information(joint_counts(X))', case,
                         lambda: np.asarray(mutual_info.mutual_information(mutual_info.joint_counts(X, n_x=n))))
        if not ok:
            return
        ctx.tag('weighted-uniform-vs-counts')
        if not np.allclose(cm, raw, rtol=TOL, atol=TOL):
            ctx.violation('weighted_mi under uniform weights differs from the counts-based mutual information: '
                          'max diff %r' % float(np.abs(cm - raw).max()), case)


def gen_ccn_case(rng, idx):
    r, c = int(rng.integers(1, 6)), int(rng.integers(1, 6))
    if idx % 3 == 0 and r == c:
        c = r + 1
    mi = [[float(v) for v in row] for row in rng.random((r, c))]
    nx = [int(rng.integers(2, 9)) for _ in range(r)]
    ny = [int(rng.integers(2, 9)) for _ in range(c)]
    case = {'kind': 'ccn', 'mi': mi, 'rows': r, 'cols': c, 'n_x': nx, 'n_y': ny, 'bad': None,
            'nx_dtype': None if rng.random() < 0.5 else str(rng.choice(DTYPES)),
            'ny_dtype': None if rng.random() < 0.5 else str(rng.choice(DTYPES))}
    u = rng.random()
    if u < 0.15:
        case['n_x'] = int(rng.integers(2, 9))
    elif u < 0.3:
        case['n_y'] = int(rng.integers(2, 9))
    elif u < 0.4:
        case['bad'] = 'length'
        if rng.random() < 0.5:
            case['n_x'] = nx + [3]
        else:
            case['n_y'] = ny[:-1] if c > 1 else ny + [2]
    elif u < 0.5:
        case['bad'] = 'n<2'
        case['nx_dtype'] = case['nx_dtype'] if case['nx_dtype'] in ('int8', 'int16', 'int32', 'int64') else None
        case['ny_dtype'] = case['ny_dtype'] if case['ny_dtype'] in ('int8', 'int16', 'int32', 'int64') else None
        if rng.random() < 0.5:
            case['n_x'] = [int(rng.choice([1, 0, -1]))] + nx[1:]
        else:
            case['n_y'] = int(rng.choice([1, 0]))
    return case


def check_ccn(ctx, case, model):
    from enspara.info_theory import mutual_info
    mi = np.array(case['mi'], dtype=float).reshape(case['rows'], case['cols'])
    before = mi.copy()
    ctx.case(case, nontrivial=True, tags=['ccn', 'ccn-' + (case['bad'] or 'valid'),
                                          'rows!=cols' if case['rows'] != case['cols'] else 'rows=cols'])
    nx, ny = case['n_x'], case['n_y']
    try:
        with warnings.catch_warnings():
            warnings.simplefilter('ignore')
            out = np.asarray(mutual_info.channel_capacity_normalization(
                mi, np.array(nx, dtype=case.get('nx_dtype')) if isinstance(nx, list) else nx,
                np.array(ny, dtype=case.get('ny_dtype')) if isinstance(ny, list) else ny))
        got = {'ok': out}
    except BaseException as e:  # noqa
        got = {'error': ERR_KIND.get(type(e).__name__, type(e).__name__)}
    if case['bad']:
        if 'error' not in got:
            ctx.violation('channel_capacity_normalization accepted malformed state counts (%s)' % case['bad'], case)
        elif model.get('error') != got['error']:
            ctx.disagreement('Model.Info.channelCapacityArgs vs real validator: %s vs %s'
                             % (_short(model), got['error']), case)
        return
    if 'error' in got:
        ctx.violation('channel_capacity_normalization raised %s on valid input' % got['error'], case)
        return
    nxv = nx if isinstance(nx, list) else [nx] * case['rows']
    nyv = ny if isinstance(ny, list) else [ny] * case['cols']
    if out.shape != mi.shape:
        ctx.violation('channel_capacity_normalization changed the shape', case)
        return
    # (the state-count vectors come in every integer dtype: the log must be taken in double precision)
    gdt = np.result_type(np.array(nx, dtype=case.get('nx_dtype')) if isinstance(nx, list) else np.dtype(int),
                         np.array(ny, dtype=case.get('ny_dtype')) if isinstance(ny, list) else np.dtype(int))
    ctx.tag('ccn-grid-dtype=%s' % gdt)
    for i in range(case['rows']):
        for j in range(case['cols']):
            want = before[i, j] / math.log(min(nxv[i], nyv[j]))
            if not close(float(out[i, j]), want):
                ctx.violation('normalised entry (%d,%d) = %r is not mi / log(min(n_x[%d], n_y[%d])) = %r '
                              '(state-count dtype %s)' % (i, j, float(out[i, j]), i, j, want, gdt),
                              dict(case, cell=[i, j]))
                return
    if model.get('ok') != [[min(nxv[i], nyv[j]) for j in range(case['cols'])] for i in range(case['rows'])]:
        ctx.disagreement('Model.Info.ccnGrid vs min(n_x[i], n_y[j])', dict(case, model=_short(model)))


def gen_dist(rng, n, zeros=True):
    p = rng.random(n)
    if zeros and n > 1 and rng.random() < 0.5:
        p[rng.integers(0, n, size=int(rng.integers(1, n)))] = 0.0
    if p.sum() == 0:
        p[0] = 1.0
    p = p / p.sum()
    return [float(v) for v in p]


def gen_kl_case(rng):
    n = int(rng.integers(1, 7))
    P = gen_dist(rng, n)
    u = rng.random()
    if u < 0.2:
        Q, rel = list(P), 'equal'
    elif u < 0.3:
        Q = [float(v) for v in (np.array(P) * (1 - 1e-13) + 1e-13 / n)]
        rel = 'near'
    else:
        Q, rel = gen_dist(rng, n, zeros=rng.random() < 0.3), 'different'
    base = [2, math.e, 10.0, 1.5, 2.0][int(rng.integers(0, 5))]
    bad = None
    v = rng.random()
    if v < 0.06:
        bad = 'negative'
        P = list(P)
        P[0] = -P[0] if P[0] != 0 else -0.25
    elif v < 0.12:
        bad = 'shape'
        Q = Q + [0.0]
    return {'kind': 'kl', 'P': P, 'Q': Q, 'base': base, 'rel': rel, 'bad': bad, 'default_base': bool(rng.random() < 0.3)}


def check_kl(ctx, case, model):
    from enspara.info_theory import entropy
    P, Q = case['P'], case['Q']
    ctx.case(case, nontrivial=len(P) > 1, tags=['kl', 'kl-' + (case['bad'] or case['rel']),
                                                'base=%s' % ('default' if case['default_base'] else
                                                             ('e' if case['base'] == math.e else case['base']))])
    try:
        with warnings.catch_warnings():
            warnings.simplefilter('ignore')
            if case['default_base']:
                d = entropy.kl_divergence(np.array(P), np.array(Q))
            else:
                d = entropy.kl_divergence(np.array(P), np.array(Q), base=case['base'])
        got = {'ok': float(d)}
    except BaseException as e:  # noqa
        got = {'error': ERR_KIND.get(type(e).__name__, type(e).__name__)}
    base = 2 if case['default_base'] else case['base']
    if case['bad']:
        if 'error' not in got:
            ctx.violation('kl_divergence accepted a malformed distribution (%s)' % case['bad'], case)
        elif model.get('error') != got['error']:
            ctx.disagreement('Model.Info.klTerms error branch: %s vs %s' % (_short(model), got['error']), case)
        return
    if 'error' in got:
        ctx.violation('kl_divergence raised %s on probability distributions' % got['error'], case)
        return
    d = got['ok']
    if math.isnan(d) or not (d >= -1e-12):
        ctx.violation('relative entropy is negative / nan: %r' % d, case)
        return
    l1 = sum(abs(a - b) for a, b in zip(P, Q))
    if P == Q and abs(d) > 1e-12:
        ctx.violation('relative entropy of equal distributions is %r, not 0' % d, case)
        return
    if l1 > 1e-3 and not (d > 0):
        ctx.violation('relative entropy of different distributions (L1 distance %r) is %r, not > 0' % (l1, d), case)
        return
    # reference: sum p log(p/q) / log(base)
    if any(p > 0 and q == 0 for p, q in zip(P, Q)):
        ref = math.inf
    else:
        ref = sum(p * math.log(p / q) for p, q in zip(P, Q) if p > 0) / math.log(base)
    if not (d == ref or close(d, ref)):
        ctx.violation('kl_divergence = %r differs from sum p log_base(p/q) = %r' % (d, ref), case)
        return
    if model.get('ok') == 'inf':
        mv = math.inf
    elif 'ok' in model:
        mv = eval_terms(model['ok']) / math.log(base)
    else:
        ctx.disagreement('Model.Info.klTerms failed: %s' % _short(model), case)
        return
    if not (mv == d or close(mv, d)):
        ctx.disagreement('Model.Info.klTerms vs kl_divergence: %r vs %r' % (mv, d), case)


def check_kl_rows(ctx, cases):
    """2-D input: one divergence per row"""
    from enspara.info_theory import entropy
    by_n = {}
    for c in cases:
        if not c['bad'] and len(c['P']) == len(c['Q']):
            by_n.setdefault(len(c['P']), []).append(c)
    for n, cs in by_n.items():
        if len(cs) < 2:
            continue
        P = np.array([c['P'] for c in cs])
        Q = np.array([c['Q'] for c in cs])
        rp = {'kind': 'kl2d', 'P': P.tolist(), 'Q': Q.tolist()}
        ok, res = guarded(ctx, 'kl_divergence (2-D)', rp, lambda: (
            np.asarray(entropy.kl_divergence(P, Q, base=math.e)),
            [float(entropy.kl_divergence(np.array(c['P']), np.array(c['Q']), base=math.e)) for c in cs]))
        if not ok:
            continue
        d, single = res
        ctx.tag('kl-2d')
        if d.shape != (len(cs),) or not all(a == b or close(a, b) for a, b in zip(d.tolist(), single)):
            ctx.violation('kl_divergence on a 2-D stack differs from the row-wise divergences',
                          {'kind': 'kl2d', 'P': P.tolist(), 'Q': Q.tolist()})


def gen_entropy_case(rng):
    n = int(rng.integers(1, 8))
    if rng.random() < 0.5:
        p = [float(v) for v in rng.integers(0, 20, size=n)]
        if sum(p) == 0:
            p[0] = 1.0
        normalize = True
    else:
        p = gen_dist(rng, n)
        normalize = bool(rng.random() < 0.5)
    return {'kind': 'entropy', 'p': p, 'normalize': normalize}


def check_entropy(ctx, case, model):
    from enspara.info_theory import entropy
    p = np.array(case['p'], dtype=float)
    snap = p.tobytes()
    ctx.case(case, nontrivial=len(case['p']) > 1, tags=['shannon_entropy',
                                                         'normalize' if case['normalize'] else 'as-is'])
    ok, H = guarded(ctx, 'shannon_entropy', case, lambda: float(entropy.shannon_entropy(p, normalize=case['normalize'])))
    if not ok:
        return
    q = p / p.sum() if case['normalize'] else p
    ref = float(-sum(x * math.log(x) for x in q if x > 0))
    if p.tobytes() != snap:
        ctx.violation('shannon_entropy modified its argument', case)
        return
    if not close(H, ref):
        ctx.violation('shannon_entropy = %r differs from -sum p log p = %r' % (H, ref), case)
        return
    if H < -1e-12:
        ctx.violation('Shannon entropy of a distribution is negative: %r' % H, case)
        return
    if 'ok' not in model:
        ctx.disagreement('Model.Info.entropyTerms failed: %s' % _short(model), case)
    elif not close(eval_terms(model['ok']), H):
        ctx.disagreement('Model.Info.entropyTerms vs shannon_entropy: %r vs %r' % (eval_terms(model['ok']), H), case)


def gen_sweep(rng, k):
    T = int(rng.choice([200, 700, 2000]))
    return {'kind': 'sweep', 'seed': int(rng.integers(0, 2 ** 31)), 'T': T,
            'Fa': int(rng.integers(8, 41)), 'Fb': int(rng.integers(1, 13)),
            'na': int(rng.integers(2, 7)), 'nb': int(rng.integers(2, 7)),
            'dta': DTYPES[k % 8], 'dtb': DTYPES[k % 8] if rng.random() < 0.6 else str(rng.choice(DTYPES)),
            'layout': str(rng.choice(LAYOUTS))}


def run_sweep(d):
    """(runs in the child) a larger table under every thread count 1..16 (or d['threads']): real kernel vs numpy
    brute force.  Returns {'threads': [...], 'omp': [...], 'bad': None | {'threads': k, 'what': ...}}"""
    from enspara.info_theory import mutual_info
    r2 = np.random.default_rng(d['seed'])
    X64 = r2.integers(0, d['na'], size=(d['T'], d['Fa']))
    Y64 = r2.integers(0, d['nb'], size=(d['T'], d['Fb']))
    ref = oracle_counts_fast(X64, Y64, d['na'], d['nb'])
    lay = d['layout']

    def mk(A, dt):
        A = A.astype(dt)
        if lay == 'F':
            return np.asfortranarray(A)
        if lay == 'strided':
            base = np.full((2 * A.shape[0], 2 * A.shape[1]), np.iinfo(np.dtype(dt)).max, dtype=dt)
            base[::2, 1::2] = A
            return base[::2, 1::2]
        if lay == 'reversed':
            return np.ascontiguousarray(A[::-1, ::-1])[::-1, ::-1]
        return np.ascontiguousarray(A)
    X, Y = mk(X64, d['dta']), mk(Y64, d['dtb'])
    out = {'threads': [], 'omp': [], 'bad': None}
    for th in ([d['threads']] if 'threads' in d else range(1, 17)):
        with warnings.catch_warnings():
            warnings.simplefilter('ignore')
            with omp_threads(th):
                # what libgomp reports under the limit (evidence that the limit is effective)
                out['omp'].append(max([m['num_threads'] for m in _CTL[0].info() if m['user_api'] == 'openmp'] or [0]))
                try:
                    jc = mutual_info.joint_counts(X, Y, d['na'], d['nb'])
                except BaseException as e:  # noqa
                    out['bad'] = {'threads': th, 'what': 'joint_counts raised %s on a valid stream' % type(e).__name__}
                    return out
        out['threads'].append(th)
        if not np.array_equal(jc.astype(np.int64), ref):
            out['bad'] = {'threads': th, 'what': 'joint-count table differs from the number of frames'}
            return out
    return out


def check_sweep(ctx, d, got):
    if not_run(ctx, got):
        return
    ctx.case(d, nontrivial=True, tags=['thread-sweep', 'dtype-x=' + d['dta'], 'layout-x=' + d['layout']])
    if 'crash' in got:
        ctx.violation('joint_counts on a valid stream crashed or hung the process (%s)' % got['crash'], d)
        return
    r = got['sweep']
    for th, omp in zip(r['threads'], r['omp']):
        ctx.tag('threads=%d' % th)
        ctx.evaluations += 1
        if omp != th:
            ctx.skip('libgomp reported %d threads under a limit of %d' % (omp, th))
    if r['bad']:
        ctx.violation('%s (%d threads)' % (r['bad']['what'], r['bad']['threads']), dict(d, threads=r['bad']['threads']))


def sched_requests(ctx, cases):
    """the model under random schedules of the prange: requests for the driver"""
    reqs, keep = [], []
    for c, jc in cases:
        if c.get('Y') is None or c['X']['dtype'] != c['Y']['dtype']:
            continue
        n_steps = c['X']['T'] * c['X']['F'] * c['Y']['F']
        choices = [int(v) for v in ctx.rng.integers(0, max(1, c['X']['F']), size=n_steps)]
        reqs.append({'op': 'C18.bincount', 'a': model_arr(c['X']), 'b': model_arr(c['Y']),
                     'n_a': jc.shape[2], 'n_b': jc.shape[3], 'choices': choices})
        keep.append((c, jc))
    return reqs, keep


def sched_check(ctx, cases):
    """the model run under random schedules of the prange equals the table the real kernel produced (under
    whatever interleaving the OS chose)"""
    reqs, keep = sched_requests(ctx, cases)
    resp = ctx.driver(reqs)
    for (c, jc), r in zip(keep, resp):
        ctx.tag('model-schedule')
        if r.get('ok') != jc.tolist():
            ctx.disagreement('Model.Info.matrixBincount2dSched (random schedule) vs matrix_bincount2d',
                             dict(c, stage='sched'))


# --------------------------------------------------------------------------------------

def jc_pipeline(ctx, cases, n_mi, n_sched):
    """valid streams: kernel calls in the child; tables vs brute force vs model; MI laws on the real tables.
    Returns False when the kernel crashed (then nothing else is run in this process)."""
    resp = ctx.driver([jc_request(c) for c in cases])
    got = run_in_child(cases)
    tables = []
    crashed = False
    for c, g, r in zip(cases, got, resp):
        crashed = crashed or 'crash' in g or 'not_run' in g
        jc = check_jc_case(ctx, c, g, r)
        if jc is not None and not c.get('wide'):
            tables.append((c, jc))
    if crashed:
        return False, tables
    todo = [(c, jc) for c, jc in tables if c.get('entry') != 'kernel'][:n_mi]
    trs = [make_transform(ctx.rng, c, jc.shape) for c, jc in todo]
    got2 = run_in_child([t['case'] for t in trs if t is not None])
    models = ctx.driver([{'op': 'C18.mi', 'jc': jc.tolist(), 'n_a': jc.shape[2], 'n_b': jc.shape[3]}
                         for _, jc in todo])
    it = iter(got2)
    for (c, jc), t, m in zip(todo, trs, models):
        g2 = next(it) if t is not None else None
        check_mi_laws(ctx, c, jc, t, g2, m)
        crashed = crashed or (g2 is not None and ('crash' in g2 or 'not_run' in g2))
    sched_check(ctx, tables[:n_sched])
    return not crashed, tables


def run(ctx):
    import time
    rng = ctx.rng
    t0 = time.time()
    times = {}

    def lap(k):
        nonlocal t0
        times[k] = round(time.time() - t0, 2)
        t0 = time.time()
    # 1. valid streams: table == brute force == model; then the MI laws on the real table
    cases = [gen_jc_case(rng, i) for i in range(ctx.n(260, 8000))]
    cases += [gen_wide_case(rng) for _ in range(ctx.n(40, 400))]
    ok, _ = jc_pipeline(ctx, cases, ctx.n(110, 3000), ctx.n(80, 2000))
    lap('jc+mi-laws+sched')
    if not ok:
        # the compiled kernel crashed / hung on a valid stream (violations recorded): stop here
        ctx.note('stopped_after_crash', True)
        ctx.note('section_seconds', times)
        return
    # 2. malformed streams (child process)
    bad = [gen_malformed(rng, i) for i in range(ctx.n(120, 2400))]
    mresp = ctx.driver([jc_request(c) for c in bad])
    got = run_in_child(bad)
    for c, g, m in zip(bad, got, mresp):
        check_malformed(ctx, c, g, m)
        ok = ok and 'crash' not in g and 'not_run' not in g
    lap('malformed')
    # 3. thread sweep on larger tables (child process)
    sw = [gen_sweep(rng, k) for k in range(ctx.n(16, 200))]
    for d, g in zip(sw, run_in_child(sw)):
        check_sweep(ctx, d, g)
        ok = ok and 'crash' not in g and 'not_run' not in g
    lap('sweep')
    # 3b. the 1-D kernel libinfo.bincount2d (child process)
    b1 = [gen_b1d(rng, i) for i in range(ctx.n(48, 1200))]
    for c, g, m in zip(b1, run_in_child(b1), ctx.driver([b1d_request(c) for c in b1])):
        check_b1d(ctx, c, g, m)
        ok = ok and 'crash' not in g and 'not_run' not in g
    lap('bincount2d-1D')
    if not ok:
        # the compiled kernel accesses memory out of bounds: do not call it in this process
        ctx.note('stopped_after_crash', True)
        ctx.note('section_seconds', times)
        return
    # 4. mi_matrix: pooled counts
    mm = [gen_mi_matrix_case(rng) for _ in range(ctx.n(60, 1500))]
    resp = ctx.driver([mi_matrix_request(c) for c in mm])
    for c, r in zip(mm, resp):
        check_mi_matrix(ctx, c, r)
    lap('mi_matrix')
    # 5. weighted_mi
    wm = [gen_wmi_case(rng) for _ in range(ctx.n(100, 2000))]
    resp = ctx.driver([wmi_request(c) for c in wm])
    for c, r in zip(wm, resp):
        check_wmi(ctx, c, r)
    lap('wmi')
    # 6. channel capacity normalisation
    cc = [gen_ccn_case(rng, i) for i in range(ctx.n(150, 3000))]
    resp = ctx.driver([ccn_request(c) for c in cc])
    for c, r in zip(cc, resp):
        check_ccn(ctx, c, r)
    lap('ccn')
    # 7. relative entropy, Shannon entropy
    kl = [gen_kl_case(rng) for _ in range(ctx.n(250, 6000))]
    resp = ctx.driver([kl_request(c) for c in kl])
    for c, r in zip(kl, resp):
        check_kl(ctx, c, r)
    check_kl_rows(ctx, kl)
    en = [gen_entropy_case(rng) for _ in range(ctx.n(120, 3000))]
    resp = ctx.driver([entropy_request(c) for c in en])
    for c, r in zip(en, resp):
        check_entropy(ctx, c, r)
    lap('kl+entropy')
    ctx.note('section_seconds', times)


def mi_matrix_request(c):
    return {'op': 'C18.mi_matrix', 'trajs': [{'X': model_arr(t['X']), 'Y': model_arr(t['Y'])} for t in c['trajs']],
            'n_x': int(np.max(c['n_x'])), 'n_y': int(np.max(c['n_y']))}


def ccn_request(c):
    return {'op': 'C18.ccn', 'rows': c['rows'], 'cols': c['cols'], 'n_x': c['n_x'], 'n_y': c['n_y']}


def kl_request(c):
    return {'op': 'C18.kl', 'P': [fj(v) for v in c['P']], 'Q': [fj(v) for v in c['Q']]}


def entropy_request(c):
    return {'op': 'C18.entropy', 'p': [fj(v) for v in c['p']], 'normalize': c['normalize']}


def wmi_request(c):
    r = {'op': 'C18.wmi', 'X': {'rows': c['rows'], 'T': c['T'], 'F': c['F']}, 'w': [fj(v) for v in c['w']]}
    if c['nfs'] is not None:
        r['nfs'] = c['nfs']
    return r


def replay(ctx, data):
    kind = data.get('kind')
    drop = ('stage', 'cell', 'got', 'transformed', 'model')
    base = {k: v for k, v in data.items() if k not in drop}
    if kind == 'jc':
        jc_pipeline(ctx, [base], 1, 1)
    elif kind == 'malformed':
        m = ctx.driver([jc_request(base)])[0]
        g = run_in_child([base])[0]
        check_malformed(ctx, base, g, m)
    elif kind == 'sweep':
        check_sweep(ctx, base, run_in_child([base])[0])
    elif kind == 'b1d':
        check_b1d(ctx, base, run_in_child([base])[0], ctx.driver([b1d_request(base)])[0])
    elif kind == 'mi_matrix':
        check_mi_matrix(ctx, base, ctx.driver([mi_matrix_request(base)])[0])
    elif kind == 'wmi':
        check_wmi(ctx, base, ctx.driver([wmi_request(base)])[0])
    elif kind == 'ccn':
        check_ccn(ctx, base, ctx.driver([ccn_request(base)])[0])
    elif kind == 'kl':
        check_kl(ctx, base, ctx.driver([kl_request(base)])[0])
    elif kind == 'kl2d':
        from enspara.info_theory import entropy
        P, Q = np.array(data['P']), np.array(data['Q'])
        ok, res = guarded(ctx, 'kl_divergence (2-D)', data, lambda: (
            np.asarray(entropy.kl_divergence(P, Q, base=math.e)).tolist(),
            [float(entropy.kl_divergence(p_, q_, base=math.e)) for p_, q_ in zip(P, Q)]))
        if ok and not all(a_ == b_ or close(a_, b_) for a_, b_ in zip(*res)):
            ctx.violation('kl_divergence on a 2-D stack differs from the row-wise divergences', data)
    elif kind == 'entropy':
        check_entropy(ctx, base, ctx.driver([entropy_request(base)])[0])
    else:
        raise ValueError('unknown replay kind %r' % kind)
