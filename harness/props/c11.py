"""C11 - ergodic trimming keeps exactly the heaviest strongly connected component."""
import csv
import io
import itertools
import numpy as np

RULE = ('random count digraphs assembled from strongly connected blocks (directed cycle + extra edges, '
        'counts 1..4 so that thresholds 0..3 cut different edges, block multipliers for weight) joined by '
        'one-way links, plus isolated states, sink states (all-zero row), source states, randomly permuted '
        'state ids; scenario families: random / equal-size-different-weight / light-large-vs-heavy-small / '
        'exact weight ties / weight carried by below-threshold or outgoing counts / uniform random sparse / small dense 2..4 states; '
        'exhaustive 1x1 and 2x2 matrices over {0,1,2}; thresholds -1..5 (mostly 0..3); every case is run with '
        'renumber_states True and False on ndarray and csr/csc/coo/lil/dok/dia/bsr matrices; MSM(trim=True) '
        'fits of random assignments; random TrimMapping csv round trips. Non-trivial = at least two SCCs; '
        'distinct by canonical input')
ASSUMPTIONS = [
    'scipy.sparse.csgraph.connected_components(connection="strong") returns the partition into strongly '
    'connected components numbered 0..k-1 (model parameter; checked on every case against the Lean Warshall '
    'closure via validLabeling and against an independent Tarjan in Python)',
    'count sums stay below 2**63 (the model uses unbounded naturals)',
    'scipy sparse containers convert to/from dense without changing values (toarray / constructor from ndarray)',
]
TRUSTED_EXTRA = ['independent Python oracle: iterative Tarjan SCC + breadth-first reachability']

CONTAINERS = ['ndarray', 'csr', 'csc', 'coo', 'lil', 'dok', 'dia', 'bsr']


# --------------------------------------------------------------------------- oracle

def edges_of(C, thr):
    n = len(C)
    return [[j for j in range(n) if C[i][j] >= thr and C[i][j] != 0] for i in range(n)]


def tarjan(adj):
    """iterative Tarjan; returns list of sorted components"""
    n = len(adj)
    index = [None] * n
    low = [0] * n
    on = [False] * n
    st = []
    comps = []
    counter = 0
    for root in range(n):
        if index[root] is not None:
            continue
        work = [(root, 0)]
        while work:
            v, pi = work.pop()
            if pi == 0:
                index[v] = low[v] = counter
                counter += 1
                st.append(v)
                on[v] = True
            recurse = False
            for k in range(pi, len(adj[v])):
                w = adj[v][k]
                if index[w] is None:
                    work.append((v, k + 1))
                    work.append((w, 0))
                    recurse = True
                    break
                elif on[w]:
                    low[v] = min(low[v], index[w])
            if recurse:
                continue
            if low[v] == index[v]:
                comp = []
                while True:
                    w = st.pop()
                    on[w] = False
                    comp.append(w)
                    if w == v:
                        break
                comps.append(sorted(comp))
            if work:
                u = work[-1][0]
                low[u] = min(low[u], low[v])
    return comps


def bfs_reach(adj):
    n = len(adj)
    R = [[False] * n for _ in range(n)]
    for s in range(n):
        seen = {s}
        todo = [s]
        while todo:
            v = todo.pop()
            for w in adj[v]:
                if w not in seen:
                    seen.add(w)
                    todo.append(w)
        for t in seen:
            R[s][t] = True
    return R


def oracle(C, thr):
    adj = edges_of(C, thr)
    comps = tarjan(adj)
    rows = [sum(r) for r in C]
    w = [sum(rows[i] for i in c) for c in comps]
    mx = max(w) if w else None
    heaviest = [c for c, x in zip(comps, w) if x == mx]
    return {'adj': adj, 'comps': comps, 'weights': w, 'heaviest': heaviest}


# --------------------------------------------------------------------------- real code

def make_container(C, kind, dtype):
    import scipy.sparse as sp
    A = np.array(C, dtype=dtype).reshape(len(C), len(C))
    if kind == 'ndarray':
        return A
    return getattr(sp, kind + '_matrix')(A)


def snapshot(M):
    import scipy.sparse as sp
    if sp.issparse(M):
        parts = [np.asarray(M.toarray()).tobytes(), str(M.shape), str(M.dtype), type(M).__name__]
        for attr in ('data', 'indices', 'indptr', 'row', 'col', 'offsets'):
            if hasattr(M, attr) and not isinstance(M, (sp.dok_matrix, sp.lil_matrix)):
                parts.append(np.asarray(getattr(M, attr)).tobytes())
        return tuple(parts)
    return (M.tobytes(), str(M.shape), str(M.dtype))


def canon_mapping(m):
    return {'to_original': [[int(k), int(v)] for k, v in m.to_original.items()],
            'to_mapped': [[int(k), int(v)] for k, v in m.to_mapped.items()]}


def call_trim(M, thr, renumber, use_default_thr=False):
    """returns canonical output of the real trim_disconnected"""
    import scipy.sparse as sp
    from enspara.msm.transition_matrices import trim_disconnected
    try:
        if use_default_thr:
            mapping, T = trim_disconnected(M, renumber_states=renumber)
        else:
            mapping, T = trim_disconnected(M, threshold=thr, renumber_states=renumber)
    except Exception as e:  # noqa
        return {'error': type(e).__name__, 'msg': str(e)[:200]}
    out = canon_mapping(mapping)
    out['type'] = type(T).__name__
    out['same_type'] = type(T) is type(M)
    dense = T.toarray() if sp.issparse(T) else np.asarray(T)
    out['shape'] = [int(x) for x in dense.shape]
    out['matrix'] = [[int(x) for x in row] for row in dense.tolist()]
    out['_mapping_obj'] = mapping
    return out


def predicate(C, thr, renumber, out, orc):
    """the property's words evaluated on one real output; returns list of (key, message)"""
    bad = []
    n = len(C)
    to_orig = out['to_original']
    to_map = out['to_mapped']
    kept = sorted(o for _, o in to_orig)
    # kept set is an SCC of maximal weight
    if kept not in orc['comps']:
        bad.append('kept states %s are not a strongly connected component (SCCs %s)' % (kept, orc['comps']))
    elif kept not in orc['heaviest']:
        bad.append('kept SCC %s is not of maximal weight (weights %s for %s)' % (kept, orc['weights'], orc['comps']))
    k = len(kept)
    M = out['matrix']
    if len(set(kept)) != k:
        bad.append('mapping is not one-to-one: %s' % to_orig)
        return bad
    if renumber:
        # order preserving bijection new -> original onto kept
        if sorted(t for t, _ in to_orig) != list(range(k)):
            bad.append('new ids are not 0..k-1: %s' % to_orig)
            return bad
        d = dict((t, o) for t, o in to_orig)
        if [d[t] for t in range(k)] != kept:
            bad.append('mapping new->original is not order preserving: %s' % to_orig)
        if out['shape'] != [k, k]:
            bad.append('renumbered matrix shape %s != (%d,%d)' % (out['shape'], k, k))
            return bad
        for a in range(k):
            for b in range(k):
                if M[a][b] != C[d[a]][d[b]]:
                    bad.append('renumbered entry [%d,%d]=%d != original [%d,%d]=%d'
                               % (a, b, M[a][b], d[a], d[b], C[d[a]][d[b]]))
                    return bad
        sub_nodes = list(range(k))
    else:
        if any(t != o for t, o in to_orig):
            bad.append('in-place mapping is not the identity on kept states: %s' % to_orig)
        if out['shape'] != [n, n]:
            bad.append('in-place matrix shape %s != (%d,%d)' % (out['shape'], n, n))
            return bad
        ks = set(kept)
        for i in range(n):
            for j in range(n):
                exp = C[i][j] if (i in ks and j in ks) else 0
                if M[i][j] != exp:
                    bad.append('in-place entry [%d,%d]=%d, expected %d (%s)' %
                               (i, j, M[i][j], exp, 'kept pair' if exp or (i in ks and j in ks) else 'removed state'))
                    return bad
        sub_nodes = kept
    # to_mapped is the inverse of to_original
    if sorted([o, t] for t, o in to_orig) != sorted(to_map):
        bad.append('to_mapped %s is not the inverse of to_original %s' % (to_map, to_orig))
    # trimmed matrix strongly connected w.r.t. its own thresholded edges
    adjT = edges_of(M, thr)
    compsT = tarjan(adjT)
    if k >= 1:
        if sorted(sub_nodes) not in compsT:
            bad.append('trimmed matrix is not strongly connected on the kept states (its SCCs: %s)' % compsT)
    return bad


# --------------------------------------------------------------------------- one case

def check_case(ctx, case, model_scc, model_trim):
    C, thr, dtype = case['counts'], case['thr'], case.get('dtype', 'int64')
    n = len(C)
    orc = oracle(C, thr)
    ncomp = len(orc['comps'])
    tie = len(orc['heaviest']) > 1
    tags = ['n=%d' % n if n <= 3 else ('n=4..8' if n <= 8 else 'n>8'), 'thr=%d' % thr,
            'family=' + case.get('family', '?'),
            'tie' if tie else 'unique-heaviest',
            'sccs=%d' % ncomp if ncomp <= 3 else 'sccs>3']
    # heaviest is not the largest / not the first?
    if ncomp > 1 and not tie:
        h = orc['heaviest'][0]
        if any(len(c) > len(h) for c in orc['comps']):
            tags.append('heaviest-is-not-largest')
        if min(min(c) for c in orc['comps']) not in h:
            tags.append('heaviest-does-not-contain-state-0')
        weak = tarjan([sorted(set(a) | set(j for j in range(n) if i in orc['adj'][j]))
                       for i, a in enumerate(orc['adj'])])
        if len(weak) < ncomp:
            tags.append('one-way-links(weak!=strong)')
    if case.get('_tie_relabelled'):
        tags.append('tie-broken-differently-from-first-label')
    ctx.case({'counts': C, 'thr': thr, 'dtype': dtype}, nontrivial=ncomp >= 2, tags=tags)

    outs = {}
    for kind in CONTAINERS:
        for renumber in (True, False):
            M = make_container(C, kind, dtype)
            before = snapshot(M)
            out = call_trim(M, thr, renumber)
            after = snapshot(M)
            rep = dict(case, container=kind, renumber=renumber)
            if before != after:
                ctx.violation('trim_disconnected modified the caller\'s matrix (%s, renumber=%s)' % (kind, renumber), rep)
                return
            if 'error' in out:
                ctx.violation('trim_disconnected raised %s: %s (%s, renumber=%s)' %
                              (out['error'], out['msg'], kind, renumber), rep)
                return
            if not out['same_type']:
                ctx.violation('container type changed: %s in, %s out (renumber=%s)' % (kind, out['type'], renumber), rep)
                return
            bad = predicate(C, thr, renumber, out, orc)
            if bad:
                ctx.violation('%s (%s, renumber=%s)' % (bad[0], kind, renumber), dict(rep, all_failures=bad[:5]))
                return
            outs[(kind, renumber)] = out
    # dense and sparse agree
    for renumber in (True, False):
        ref = outs[('ndarray', renumber)]
        for kind in CONTAINERS[1:]:
            o = outs[(kind, renumber)]
            for f in ('to_original', 'to_mapped', 'shape', 'matrix'):
                if o[f] != ref[f]:
                    ctx.violation('dense and %s results differ in %s (renumber=%s)' % (kind, f, renumber),
                                  dict(case, container=kind, renumber=renumber))
                    return
    # renumbered and in-place describe the same model
    r1, r2 = outs[('ndarray', True)], outs[('ndarray', False)]
    kept1 = [o for _, o in sorted(r1['to_original'])]
    kept2 = sorted(o for _, o in r2['to_original'])
    if kept1 != kept2:
        ctx.violation('renumbered and in-place variants keep different states: %s vs %s' % (kept1, kept2), case)
        return
    sub = [[r2['matrix'][i][j] for j in kept1] for i in kept1]
    if sub != r1['matrix']:
        ctx.violation('renumbered matrix is not the in-place matrix restricted to the kept states', case)
        return
    # default threshold is 1
    if thr == 1:
        o = call_trim(make_container(C, 'ndarray', dtype), None, True, use_default_thr=True)
        if any(o.get(f) != r1[f] for f in ('to_original', 'matrix')):
            ctx.tag('default-threshold-differs-from-1')
            ctx.violation('trim_disconnected(counts) differs from threshold=1', dict(case, default_threshold=True))
            return
    # csv round trip of the real mapping
    for renumber in (True, False):
        m = outs[('ndarray', renumber)]['_mapping_obj']
        from enspara.msm.transition_matrices import TrimMapping
        buf = io.StringIO()
        m.write(buf)
        text = buf.getvalue()
        m2 = TrimMapping.read(io.StringIO(text))
        if not (m2 == m) or canon_mapping(m2)['to_original'] != canon_mapping(m)['to_original']:
            ctx.violation('TrimMapping.read(write(m)) != m (renumber=%s)' % renumber, dict(case, renumber=renumber))
            return
        rows = list(csv.reader(io.StringIO(text)))
        mt = model_trim[renumber]
        if 'ok' in mt and mt['ok'].get('csv') != rows:
            ctx.disagreement('TrimMapping.write rows differ from the model',
                             dict(case, renumber=renumber, impl=rows, model=mt['ok'].get('csv')))

    # ---- model vs implementation
    if 'ok' not in model_scc:
        ctx.disagreement('model scc op failed', dict(case, model=model_scc))
        return
    ms = model_scc['ok']
    if ms['reach'] != bfs_reach(orc['adj']):
        ctx.disagreement('Lean Warshall closure differs from breadth-first reachability', dict(case, model=ms['reach']))
        return
    if sorted(map(tuple, ms['heaviest'])) != sorted(map(tuple, orc['heaviest'])):
        ctx.disagreement('model heaviest SCCs differ from the Tarjan oracle',
                         dict(case, model=ms['heaviest'], oracle=orc['heaviest']))
        return
    for renumber in (True, False):
        mt = model_trim[renumber]
        ref = outs[('ndarray', renumber)]
        if 'ok' not in mt:
            ctx.disagreement('model raised %s, implementation returned' % mt.get('error'), dict(case, renumber=renumber))
            return
        mo = mt['ok']
        if not mo['valid']:
            ctx.disagreement('scipy labelling is not the SCC partition of the model closure '
                             '(model hypothesis validLabeling false)', dict(case, renumber=renumber, labels=case.get('_labels')))
            return
        if not mo['in_heaviest'] or not mo['reread_equal']:
            ctx.disagreement('model self-check failed (in_heaviest/reread_equal)', dict(case, renumber=renumber))
            return
        for f, g in (('to_original', 'to_original'), ('to_mapped', 'to_mapped'), ('matrix', 'matrix')):
            if mo[f] != ref[g]:
                ctx.disagreement('model and implementation differ in %s (renumber=%s)' % (f, renumber),
                                 dict(case, renumber=renumber, model=mo[f], impl=ref[g]))
                return
        if [mo['shape'], mo['shape']] != ref['shape']:
            ctx.disagreement('model and implementation differ in shape', dict(case, renumber=renumber))
            return


def scipy_labels(C, thr):
    """the labelling the code obtains (same call as in trim_disconnected)"""
    from scipy.sparse.csgraph import connected_components
    A = np.array(C, dtype=np.int64).reshape(len(C), len(C))
    T = np.array(A, copy=True)
    T[A < thr] = 0
    nsub, labels = connected_components(T, connection='strong', directed=True)
    return int(nsub), [int(x) for x in labels]


def model_requests(case):
    """scipy's numbering is a parameter of the model.  With a unique heaviest SCC the numbering scipy
    produced is used as is.  When several SCCs tie for the maximal weight the property accepts any of
    them, so the tie-break is taken from the implementation: the label of the component the real code
    kept is swapped with the smallest label among the tied ones (still a valid numbering) and the model
    must then reproduce the implementation's output for that choice."""
    C, thr = case['counts'], case['thr']
    nsub, labels = scipy_labels(C, thr)
    orc = oracle(C, thr)
    if len(orc['heaviest']) > 1:
        out = call_trim(make_container(C, 'ndarray', 'int64'), thr, True)
        kept = sorted(o for _, o in out.get('to_original', []))
        if kept in orc['heaviest']:
            tied = sorted(labels[c[0]] for c in orc['heaviest'])
            lk, l0 = labels[kept[0]], tied[0]
            if lk != l0:
                case['_tie_relabelled'] = True
                labels = [l0 if x == lk else (lk if x == l0 else x) for x in labels]
    case['_labels'] = labels
    reqs = [{'op': 'C11.scc', 'counts': C, 'thr': thr}]
    for renumber in (True, False):
        reqs.append({'op': 'C11.trim', 'counts': C, 'thr': thr, 'labels': labels, 'nsub': nsub,
                     'renumber': renumber})
    return reqs


def run_cases(ctx, cases):
    reqs = []
    for c in cases:
        reqs += model_requests(c)
    resp = ctx.driver(reqs)
    for i, c in enumerate(cases):
        check_case(ctx, c, resp[3 * i], {True: resp[3 * i + 1], False: resp[3 * i + 2]})


# --------------------------------------------------------------------------- generators

def gen_structured(rng, family, big=False):
    hi_comp = 7 if big else 4
    blocks = []      # list of (size, multiplier, self_heavy)
    if family == 'equal-size':
        s = int(rng.integers(1, 4))
        k = int(rng.integers(2, hi_comp + 1))
        mults = rng.permutation([1, 2, 3, 5, 7, 11, 13][:k])
        blocks = [(s, int(m), 0) for m in mults]
    elif family == 'light-large-vs-heavy-small':
        blocks = [(int(rng.integers(3, 6)), 1, 0), (int(rng.integers(1, 3)), int(rng.integers(8, 30)), 0)]
        if rng.random() < 0.5:
            blocks.append((int(rng.integers(1, 4)), 1, 0))
        order = rng.permutation(len(blocks))
        blocks = [blocks[i] for i in order]
    elif family == 'tie':
        s = int(rng.integers(1, 4))
        m = int(rng.integers(1, 4))
        blocks = [(s, m, 0), (s, m, 0)]
        if rng.random() < 0.5:
            blocks.append((int(rng.integers(1, 3)), 1, 0))
    elif family == 'below-threshold-weight':
        # a block whose weight comes from self counts / many small counts that are below the threshold
        blocks = [(int(rng.integers(1, 4)), 1, int(rng.integers(5, 40))), (int(rng.integers(2, 5)), int(rng.integers(1, 4)), 0)]
        if rng.random() < 0.5:
            blocks.reverse()
    else:
        k = int(rng.integers(1, hi_comp + 1))
        blocks = [(int(rng.integers(1, 5)), int(rng.choice([1, 1, 2, 3, 10])), 0) for _ in range(k)]
    n_iso = int(rng.integers(0, 3))
    n_sink = int(rng.integers(0, 3))
    n_src = int(rng.integers(0, 2))
    n = sum(b[0] for b in blocks) + n_iso + n_sink + n_src
    perm = [int(x) for x in rng.permutation(n)]
    C = [[0] * n for _ in range(n)]
    pos = 0
    members = []
    for size, mult, selfw in blocks:
        st = perm[pos:pos + size]
        pos += size
        members.append(st)
        exact = (family == 'tie')
        if size == 1:
            C[st[0]][st[0]] = (2 if exact else int(rng.integers(0, 5))) * mult
        else:
            for a in range(size):
                u, v = st[a], st[(a + 1) % size]
                C[u][v] = (2 if exact else int(rng.integers(1, 5))) * mult
            if not exact:
                for u in st:
                    for v in st:
                        if u != v and C[u][v] == 0 and rng.random() < 0.25:
                            C[u][v] = int(rng.integers(1, 5)) * mult
        if selfw:
            # weight that is invisible to the thresholded graph: self counts and a fan of 1-counts
            C[st[0]][st[0]] += selfw
    if family != 'tie':
        # one-way links between blocks (never back: keeps the blocks separate components at thr<=1)
        for a in range(len(members)):
            for b in range(a + 1, len(members)):
                if rng.random() < 0.5:
                    u = members[a][int(rng.integers(0, len(members[a])))]
                    v = members[b][int(rng.integers(0, len(members[b])))]
                    if rng.random() < 0.5:
                        u, v = v, u
                        # reversed direction for this pair only; still one-way
                    if C[v][u] == 0:
                        C[u][v] = int(rng.choice([1, 2, 3, 4, 25]))
    iso = perm[pos:pos + n_iso]
    pos += n_iso
    for s in iso:
        if rng.random() < 0.5:
            C[s][s] = int(rng.choice([1, 3, 60]))      # heavy isolated state
    sinks = perm[pos:pos + n_sink]
    pos += n_sink
    others = [s for m in members for s in m]
    for s in sinks:
        if others:
            for _ in range(int(rng.integers(1, 3))):
                u = others[int(rng.integers(0, len(others)))]
                C[u][s] = int(rng.integers(1, 5))
    srcs = perm[pos:pos + n_src]
    for s in srcs:
        if others:
            for _ in range(int(rng.integers(1, 3))):
                v = others[int(rng.integers(0, len(others)))]
                C[s][v] = int(rng.choice([1, 2, 4, 30]))
    thr = int(rng.choice([0, 1, 2, 3, 0, 1, 2, 3, 0, 1, 2, 3, -1, 5]))
    return {'counts': C, 'thr': thr, 'dtype': str(rng.choice(['int64', 'int64', 'int32'])), 'family': family}


def gen_uniform(rng, big=False):
    n = int(rng.integers(1, 13 if big else 8))
    dens = float(rng.choice([0.1, 0.2, 0.35, 0.6]))
    C = [[int(rng.integers(1, 5)) if rng.random() < dens else 0 for _ in range(n)] for _ in range(n)]
    return {'counts': C, 'thr': int(rng.integers(0, 4)), 'dtype': 'int64', 'family': 'uniform'}


def gen_small(rng):
    n = int(rng.integers(2, 5))
    C = [[int(rng.choice([0, 0, 1, 2, 3])) for _ in range(n)] for _ in range(n)]
    return {'counts': C, 'thr': int(rng.integers(0, 4)), 'dtype': 'int64', 'family': 'small-dense'}


FAMILIES = ['random', 'random', 'equal-size', 'light-large-vs-heavy-small', 'tie', 'below-threshold-weight']


def small_exhaustive():
    cases = []
    for v in range(0, 3):
        for thr in (0, 1, 2):
            cases.append({'counts': [[v]], 'thr': thr, 'dtype': 'int64', 'family': 'exhaustive-1x1'})
    for vals in itertools.product(range(3), repeat=4):
        for thr in (0, 1, 2):
            cases.append({'counts': [[vals[0], vals[1]], [vals[2], vals[3]]], 'thr': thr, 'dtype': 'int64',
                          'family': 'exhaustive-2x2'})
    return cases


# --------------------------------------------------------------------------- MSM.fit

def check_msm(ctx, case):
    import logging
    logging.getLogger('enspara').setLevel(logging.ERROR)
    for name in ('enspara.msm.msm', 'enspara.msm.transition_matrices'):
        logging.getLogger(name).setLevel(logging.ERROR)
    from enspara.msm import MSM, builders
    from enspara.msm.transition_matrices import assigns_to_counts, trim_disconnected
    rows, lag, method = case['assigns'], case['lag'], case['method']
    a = -np.ones((len(rows), max(len(r) for r in rows)), dtype=int)
    for i, r in enumerate(rows):
        a[i, :len(r)] = r
    ctx.tag('msm-fit-' + method)
    counts = assigns_to_counts(a, lag_time=lag, max_n_states=case['n_states'])
    m0, t0 = trim_disconnected(counts, threshold=1, renumber_states=True)
    msm = MSM(lag_time=lag, method=getattr(builders, method), trim=True, max_n_states=case['n_states'])
    err = None
    try:
        msm.fit(a)
    except Exception as e:  # noqa
        err = type(e).__name__
    if not hasattr(msm, 'mapping_'):
        ctx.skip('MSM.fit raised %s before the mapping was stored' % err)
        return
    if err:
        ctx.skip('MSM.fit: builder raised %s after trimming (mapping still compared)' % err)
    got, exp = canon_mapping(msm.mapping_), canon_mapping(m0)
    C = np.asarray(counts.toarray()).tolist()
    ctx.case(dict(case, kind='msm'), nontrivial=True, tags=['msm'])
    if got != exp or not (msm.mapping_ == m0):
        ctx.violation('MSM(trim=True).fit(...).mapping_ differs from trim_disconnected(counts)',
                      dict(case, kind='msm', got=got, expected=exp))
        return
    orc = oracle(C, 1)
    t0d = np.asarray(t0.toarray() if hasattr(t0, 'toarray') else t0)
    out = dict(got, shape=list(t0d.shape), matrix=t0d.astype(int).tolist())
    bad = predicate(C, 1, True, out, orc)
    if bad:
        ctx.violation('MSM mapping_: ' + bad[0], dict(case, kind='msm'))
        return
    if type(t0) is not type(counts):
        ctx.violation('trim_disconnected changed the container of the MSM counts: %s -> %s'
                      % (type(counts).__name__, type(t0).__name__), dict(case, kind='msm'))
        return
    if err is None:
        tc = msm.tcounts_
        tc = np.asarray(tc.toarray() if hasattr(tc, 'toarray') else tc)
        if tc.shape != (len(got['to_original']),) * 2:
            ctx.violation('MSM tcounts_ shape %s does not match the %d kept states'
                          % (tc.shape, len(got['to_original'])), dict(case, kind='msm'))


def gen_msm(rng):
    n_states = int(rng.integers(2, 7))
    rows = []
    # trajectories confined to (possibly overlapping) subsets of states -> several components, one-way hops
    for _ in range(int(rng.integers(1, 5))):
        k = int(rng.integers(1, n_states + 1))
        sub = rng.choice(n_states, size=k, replace=False)
        L = int(rng.integers(2, 14))
        rows.append([int(x) for x in rng.choice(sub, size=L)])
    lag = int(rng.integers(1, 3))
    if all(len(r) <= lag for r in rows):
        rows.append([0] * (lag + 2))
    return {'assigns': rows, 'lag': lag, 'n_states': n_states,
            'method': str(rng.choice(['normalize', 'transpose']))}


# --------------------------------------------------------------------------- TrimMapping dict / csv

def check_mappings(ctx, cases):
    from enspara.msm.transition_matrices import TrimMapping
    reqs = []
    for c in cases:
        if c['kind'] == 'mapping':
            reqs.append({'op': 'C11.mapping', 'pairs': c['pairs']})
        else:
            reqs.append({'op': 'C11.csv_read', 'rows': c['rows']})
    resp = ctx.driver(reqs)
    for c, r in zip(cases, resp):
        if c['kind'] == 'mapping':
            m = TrimMapping(iter([tuple(p) for p in c['pairs']]))
            inj = len(set(p[0] for p in c['pairs'])) == len(c['pairs']) == len(set(p[1] for p in c['pairs']))
            ctx.case(c, nontrivial=len(c['pairs']) > 1, tags=['mapping-injective' if inj else 'mapping-with-duplicates'])
            buf = io.StringIO()
            m.write(buf)
            rows = list(csv.reader(io.StringIO(buf.getvalue())))
            m2 = TrimMapping.read(io.StringIO(buf.getvalue()))
            if inj:
                if not (m2 == m):
                    ctx.violation('TrimMapping.read(write(m)) != m for a one-to-one mapping', c)
                    continue
            got = canon_mapping(m)
            mo = r.get('ok', {})
            if mo.get('to_original') != got['to_original'] or mo.get('to_mapped') != got['to_mapped'] \
                    or mo.get('csv') != rows:
                ctx.disagreement('TrimMapping dictionaries / csv rows differ from the model', dict(c, model=r, impl=got, rows=rows))
            elif inj and not mo.get('reread_equal'):
                # exact equality needs sorted input; only permutation is promised in general
                srt = c['pairs'] == sorted(c['pairs'])
                if srt:
                    ctx.disagreement('model read(write(m)) != m on sorted one-to-one pairs', c)
        else:
            text = ''.join(','.join(row) + '\r\n' for row in c['rows'])
            ctx.case(c, nontrivial=True, tags=['csv-read-' + c['expect']])
            try:
                m = TrimMapping.read(io.StringIO(text))
                got = {'ok': canon_mapping(m)}
            except AssertionError:
                got = {'error': 'assertion'}
            except StopIteration:
                got = {'error': 'stop-iteration'}
            except ValueError:
                got = {'error': 'value-error'}
            if got != r:
                ctx.disagreement('TrimMapping.read differs from the model', dict(c, model=r, impl=got))


def gen_mapping(rng):
    k = int(rng.integers(0, 7))
    if rng.random() < 0.7:
        orig = [int(x) for x in rng.choice(12, size=k, replace=False)]
        new = [int(x) for x in rng.permutation(k)] if rng.random() < 0.5 else list(range(k))
        if rng.random() < 0.5:
            orig = sorted(orig)
        pairs = [[o, t] for o, t in zip(orig, new)]
    else:
        pairs = [[int(rng.integers(0, 5)), int(rng.integers(0, 4))] for _ in range(k)]
    return {'kind': 'mapping', 'pairs': pairs}


def gen_csv(rng):
    k = int(rng.integers(0, 5))
    orig = [int(x) for x in rng.choice(30, size=k, replace=False)]
    rows = [['original', 'mapped']] + [[str(o), str(t)] for t, o in enumerate(orig)]
    u = rng.random()
    expect = 'ok'
    if u < 0.15:
        rows[0] = [['mapped', 'original'], ['original'], ['Original', 'mapped'], ['original', 'mapped', 'x']][int(rng.integers(0, 4))]
        expect = 'assertion'
    elif u < 0.25:
        rows = []
        expect = 'stop-iteration'
    elif u < 0.4 and k > 0:
        rows[int(rng.integers(1, k + 1))][int(rng.integers(0, 2))] = str(rng.choice(['x', 'a1', '1.5', '']))
        expect = 'value-error'
    return {'kind': 'csv', 'rows': rows, 'expect': expect}


# --------------------------------------------------------------------------- entry points

def run(ctx):
    rng = ctx.rng
    # empty matrix: the only error branch
    from enspara.msm.transition_matrices import trim_disconnected
    r = ctx.driver([{'op': 'C11.trim', 'counts': [], 'thr': 1, 'labels': [], 'nsub': 0, 'renumber': True}])[0]
    try:
        trim_disconnected(np.zeros((0, 0), dtype=int))
        impl = 'ok'
    except ValueError:
        impl = 'value-error'
    except Exception as e:  # noqa
        impl = type(e).__name__
    ctx.tag('empty-matrix')
    if r.get('error') != impl:
        ctx.disagreement('0x0 matrix: model %s, implementation %s' % (r, impl), {'kind': 'empty'})

    cases = small_exhaustive()
    nrand = ctx.n(1200, 8000)
    for i in range(nrand):
        if i % 7 == 5:
            cases.append(gen_small(rng))
        elif i % 7 == 6:
            cases.append(gen_uniform(rng, big=ctx.thorough and i % 2 == 0))
        else:
            cases.append(gen_structured(rng, FAMILIES[i % len(FAMILIES)], big=ctx.thorough and i % 5 == 0))
    run_cases(ctx, cases)

    for _ in range(ctx.n(60, 800)):
        check_msm(ctx, gen_msm(rng))

    mc = [gen_mapping(rng) for _ in range(ctx.n(150, 2000))] + [gen_csv(rng) for _ in range(ctx.n(100, 1000))]
    check_mappings(ctx, mc)
    ctx.note('containers', CONTAINERS)


def replay(ctx, data):
    kind = data.get('kind')
    if kind == 'msm':
        check_msm(ctx, {k: data[k] for k in ('assigns', 'lag', 'n_states', 'method')})
    elif kind in ('mapping', 'csv'):
        check_mappings(ctx, [{k: v for k, v in data.items() if k in ('kind', 'pairs', 'rows', 'expect')}])
    elif kind == 'empty':
        return
    else:
        c = {'counts': data['counts'], 'thr': data['thr'], 'dtype': data.get('dtype', 'int64'),
             'family': data.get('family', 'replay')}
        run_cases(ctx, [c])
