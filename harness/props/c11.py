"""C11 - ergodic trimming keeps exactly the heaviest strongly connected component."""
import csv
import io
import itertools
import numpy as np

RULE = ('random count digraphs assembled from strongly connected blocks (directed cycle + extra edges, '
        'counts 1..4 so that thresholds 0..3 cut different edges, block multipliers for weight) joined by '
        'one-way links, plus isolated states, sink states (all-zero row), source states, randomly permuted '
        'state ids; scenario families: random / equal-size-different-weight / light-large-vs-heavy-small / '
        'exact weight ties / weight carried by below-threshold or outgoing counts / uniform random sparse / '
        'small dense 2..4 states; exhaustive 1x1 and 2x2 matrices over {0,1,2}; thresholds -1..5 (mostly 0..3). '
        'Audit families: count dtypes int8..uint64/float32/float64, thresholds passed as int/float/np.int32, '
        'non-integer thresholds k+0.5 and counts in multiples of 1/2 (cases store exact integer numerators and a '
        'scale), positional vs keyword arguments; degenerate graphs (zero matrix, diagonal only, everything below '
        'the threshold, pendant chains, stars, self-counts only); weights differing by 1 at 2^40..2^60 and uint8 '
        'counts whose row sums exceed 255; 256..320 states with >255 components / kept ids >255 / >256 kept states '
        '(model skipped, oracle only). Every case: renumber_states True and False on ndarray and '
        'csr/csc/coo/lil/dok/dia/bsr matrices; a share also on np.matrix and the seven sparse *_array classes, and '
        'with sparse inputs holding explicit zeros and un-summed duplicate entries (coo, non-canonical csr/csc; thresholds 2..4 that only the summed value reaches); the SAME object is '
        'trimmed twice (after scribbling on the first mapping), results are fed back in, earlier results are '
        're-read after later calls. MSM(trim=True) fits of random assignments (padded / RaggedArray, int8..int64 '
        'and unsigned dtypes, explicit / inferred state count, counts >127, >255 states, fitted twice); random '
        'TrimMapping dict and csv round trips. Non-trivial = at least two SCCs; distinct by canonical input')
ASSUMPTIONS = [
    'scipy.sparse.csgraph.connected_components(connection="strong") returns the partition into strongly '
    'connected components numbered 0..k-1 (model parameter; checked on every case against the Lean Warshall '
    'closure via validLabeling and against an independent Tarjan in Python)',
    'count sums stay below 2**63 (the model uses unbounded naturals); more than 40 states: Lean model not run (tag model-skipped-large-n), predicate by the Python oracle only',
    'bool matrices, negative counts, more than 65535 states (dense n x n copy made by the code itself) are outside the generators',
    'scipy sparse containers convert to/from dense without changing values (toarray / constructor from ndarray)',
]
TRUSTED_EXTRA = ['independent Python oracle: iterative Tarjan SCC + breadth-first reachability']


# --------------------------------------------------------------------------- oracle

def edges_of(C, thr):
    n = len(C)
    return [[j for j in range(n) if C[i][j] >= thr and C[i][j] != 0] for i in range(n)]


def tarjan(adj):
    """iterative Tarjan; returns list of sorted components"""
    n = len(adj)
    index = [None] * n
    low = [0] * n
    on = [False] * n
    st = []
    comps = []
    counter = 0
    for root in range(n):
        if index[root] is not None:
            continue
        work = [(root, 0)]
        while work:
            v, pi = work.pop()
            if pi == 0:
                index[v] = low[v] = counter
                counter += 1
                st.append(v)
                on[v] = True
            recurse = False
            for k in range(pi, len(adj[v])):
                w = adj[v][k]
                if index[w] is None:
                    work.append((v, k + 1))
                    work.append((w, 0))
                    recurse = True
                    break
                elif on[w]:
                    low[v] = min(low[v], index[w])
            if recurse:
                continue
            if low[v] == index[v]:
                comp = []
                while True:
                    w = st.pop()
                    on[w] = False
                    comp.append(w)
                    if w == v:
                        break
                comps.append(sorted(comp))
            if work:
                u = work[-1][0]
                low[u] = min(low[u], low[v])
    return comps


def bfs_reach(adj):
    n = len(adj)
    R = [[False] * n for _ in range(n)]
    for s in range(n):
        seen = {s}
        todo = [s]
        while todo:
            v = todo.pop()
            for w in adj[v]:
                if w not in seen:
                    seen.add(w)
                    todo.append(w)
        for t in seen:
            R[s][t] = True
    return R


def oracle(C, thr):
    adj = edges_of(C, thr)
    comps = tarjan(adj)
    rows = [sum(r) for r in C]
    w = [sum(rows[i] for i in c) for c in comps]
    mx = max(w) if w else None
    heaviest = [c for c, x in zip(comps, w) if x == mx]
    return {'adj': adj, 'comps': comps, 'weights': w, 'heaviest': heaviest}


# --------------------------------------------------------------------------- real code
# A case stores integer NUMERATORS: the real count is counts[i][j] / scale and the real threshold is
# thr / scale (scale 1 or 2, so every value is exact in binary floating point).  Edges, components and
# the argmax of the weights are invariant under the common factor, so oracle and Lean model work on
# the numerators; the matrices returned by the real code are multiplied by scale before comparing.

BASE_CONTAINERS = ['ndarray', 'csr', 'csc', 'coo', 'lil', 'dok', 'dia', 'bsr']
EXTRA_CONTAINERS = ['matrix', 'csr_array', 'csc_array', 'coo_array', 'lil_array', 'dok_array', 'dia_array', 'bsr_array']
CONTAINERS = BASE_CONTAINERS


def containers_of(case):
    return BASE_CONTAINERS + (EXTRA_CONTAINERS if case.get('extra_containers') else [])


def actual_array(case):
    C, scale, dtype = case['counts'], case.get('scale', 1), case.get('dtype', 'int64')
    n = len(C)
    if scale == 1:
        return np.array(C, dtype=dtype).reshape(n, n)
    if np.dtype(dtype).kind == 'f':
        return (np.array(C, dtype=np.float64).reshape(n, n) / scale).astype(dtype)
    assert all(x % scale == 0 for r in C for x in r), 'integer dtype needs numerators divisible by scale'
    return np.array([[x // scale for x in r] for r in C], dtype=dtype).reshape(n, n)


def actual_thr(case):
    thr, scale, kind = case['thr'], case.get('scale', 1), case.get('thr_kind', 'int')
    if scale != 1 and thr % scale:
        return thr / scale
    v = thr // scale
    if kind == 'float':
        return float(v)
    if kind == 'npint':
        return np.int32(v)
    return v


def make_container(case, kind):
    import scipy.sparse as sp
    A = actual_array(case)
    if kind == 'ndarray':
        return A
    if kind == 'matrix':
        return np.matrix(A)
    fmt, cls = (kind[:-6], '_array') if kind.endswith('_array') else (kind, '_matrix')
    if case.get('explicit_zeros'):
        # coo with stored zeros and split (duplicate) entries, then converted; what survives the
        # conversion depends on the format, the dense value never changes
        n = A.shape[0]
        rows, cols, data = [], [], []
        for i in range(n):
            for j in range(n):
                v = A[i, j]
                if v == 0:
                    if (i + 2 * j) % 3 == 0:
                        rows.append(i)
                        cols.append(j)
                        data.append(0)
                elif v >= 2 and (i + j) % 3 != 2:
                    # un-summed duplicates: two halves, or (like assigns_to_counts output) unit entries
                    parts = [v - v // 2, v // 2] if ((i + j) % 3 == 0 or v > 8 or v != int(v)) else [1] * int(v)
                    rows += [i] * len(parts)
                    cols += [j] * len(parts)
                    data += parts
                else:
                    rows.append(i)
                    cols.append(j)
                    data.append(v)
        data, rows, cols = np.array(data, dtype=A.dtype), np.array(rows, dtype=int), np.array(cols, dtype=int)
        if fmt in ('csr', 'csc'):
            # NON-canonical compressed storage: duplicates left un-summed, minor indices unsorted, zeros stored
            major, minor = (rows, cols) if fmt == 'csr' else (cols, rows)
            order = np.argsort(major, kind='stable')[::-1]
            order = order[np.argsort(major[order], kind='stable')]      # grouped by major, minor order reversed
            indptr = np.concatenate([[0], np.cumsum(np.bincount(major, minlength=n))])
            M = getattr(sp, fmt + cls)((data[order], minor[order], indptr), shape=A.shape)
            assert (M.toarray() == A).all()
            return M
        coo = getattr(sp, 'coo' + cls)((data, (rows, cols)), shape=A.shape)
        return coo if fmt == 'coo' else coo.asformat(fmt)
    return getattr(sp, fmt + cls)(A)


def snapshot(M):
    import scipy.sparse as sp
    if sp.issparse(M):
        parts = [np.asarray(M.toarray()).tobytes(), str(M.shape), str(M.dtype), type(M).__name__]
        if M.format not in ('dok', 'lil'):
            for attr in ('data', 'indices', 'indptr', 'row', 'col', 'coords', 'offsets'):
                if hasattr(M, attr):
                    v = getattr(M, attr)
                    parts.append(b''.join(np.asarray(x).tobytes() for x in v) if isinstance(v, tuple) else np.asarray(v).tobytes())
        return tuple(parts)
    return (np.asarray(M).tobytes(), str(M.shape), str(M.dtype), type(M).__name__)


def canon_mapping(m):
    return {'to_original': [[int(k), int(v)] for k, v in m.to_original.items()],
            'to_mapped': [[int(k), int(v)] for k, v in m.to_mapped.items()]}


def _num(x, scale):
    v = x * scale
    if isinstance(v, float) and v.is_integer():
        return int(v)
    return v


def call_trim(M, thr, renumber, scale=1, mode='kw'):
    """canonical output of the real trim_disconnected (matrix entries as numerators)"""
    import scipy.sparse as sp
    from enspara.msm.transition_matrices import trim_disconnected
    try:
        if mode == 'default':
            mapping, T = trim_disconnected(M, renumber_states=renumber)
        elif mode == 'pos':
            mapping, T = trim_disconnected(M, thr, renumber)
        else:
            mapping, T = trim_disconnected(M, threshold=thr, renumber_states=renumber)
    except Exception as e:  # noqa
        return {'error': type(e).__name__, 'msg': str(e)[:200]}
    out = canon_mapping(mapping)
    out['type'] = type(T).__name__
    out['same_type'] = type(T) is type(M)
    dense = T.toarray() if sp.issparse(T) else np.asarray(T)
    out['shape'] = [int(x) for x in dense.shape]
    out['matrix'] = [[_num(x, scale) for x in row] for row in dense.tolist()]
    out['_mapping_obj'] = mapping
    out['_T'] = T
    return out


def predicate(C, thr, renumber, out, orc):
    """the property's words evaluated on one real output; returns list of messages"""
    bad = []
    n = len(C)
    big = n > 40

    def show(x):
        return ('<%d items>' % len(x)) if big and hasattr(x, '__len__') else str(x)
    to_orig = out['to_original']
    to_map = out['to_mapped']
    kept = sorted(o for _, o in to_orig)
    # kept set is an SCC of maximal weight
    if kept not in orc['comps']:
        bad.append('kept states %s are not a strongly connected component (SCCs %s)' % (show(kept), show(orc['comps'])))
    elif kept not in orc['heaviest']:
        bad.append('kept SCC %s is not of maximal weight (weights %s for %s; heaviest %s)'
                   % (show(kept), show(orc['weights']), show(orc['comps']), show(orc['heaviest'])))
    k = len(kept)
    M = out['matrix']
    if len(set(kept)) != k:
        bad.append('mapping is not one-to-one: %s' % show(to_orig))
        return bad
    if renumber:
        # order preserving bijection new -> original onto kept
        if sorted(t for t, _ in to_orig) != list(range(k)):
            bad.append('new ids are not 0..k-1: %s' % show(to_orig))
            return bad
        d = dict((t, o) for t, o in to_orig)
        if [d[t] for t in range(k)] != kept:
            bad.append('mapping new->original is not order preserving: %s' % show(to_orig))
        if out['shape'] != [k, k]:
            bad.append('renumbered matrix shape %s != (%d,%d)' % (out['shape'], k, k))
            return bad
        for a in range(k):
            for b in range(k):
                if M[a][b] != C[d[a]][d[b]]:
                    bad.append('renumbered entry [%d,%d]=%s != original [%d,%d]=%s (numerators)'
                               % (a, b, M[a][b], d[a], d[b], C[d[a]][d[b]]))
                    return bad
        sub_nodes = list(range(k))
    else:
        if any(t != o for t, o in to_orig):
            bad.append('in-place mapping is not the identity on kept states: %s' % show(to_orig))
        if out['shape'] != [n, n]:
            bad.append('in-place matrix shape %s != (%d,%d)' % (out['shape'], n, n))
            return bad
        ks = set(kept)
        for i in range(n):
            for j in range(n):
                exp = C[i][j] if (i in ks and j in ks) else 0
                if M[i][j] != exp:
                    bad.append('in-place entry [%d,%d]=%s, expected %s (%s)' %
                               (i, j, M[i][j], exp, 'kept pair' if (i in ks and j in ks) else 'removed state'))
                    return bad
        sub_nodes = kept
    # to_mapped is the inverse of to_original
    if sorted([o, t] for t, o in to_orig) != sorted(to_map):
        bad.append('to_mapped %s is not the inverse of to_original %s' % (show(to_map), show(to_orig)))
    # trimmed matrix strongly connected w.r.t. its own thresholded edges
    adjT = edges_of(M, thr)
    compsT = tarjan(adjT)
    if k >= 1:
        if sorted(sub_nodes) not in compsT:
            bad.append('trimmed matrix is not strongly connected on the kept states (its SCCs: %s)' % show(compsT))
    return bad


# --------------------------------------------------------------------------- one case

CASE_KEYS = ('counts', 'thr', 'scale', 'dtype', 'thr_kind', 'call', 'explicit_zeros', 'extra_containers', 'family',
             'model_skipped')


def check_case(ctx, case, model_scc, model_trim):
    C, thr, dtype = case['counts'], case['thr'], case.get('dtype', 'int64')
    scale, mode = case.get('scale', 1), case.get('call', 'kw')
    n = len(C)
    orc = oracle(C, thr)
    ncomp = len(orc['comps'])
    tie = len(orc['heaviest']) > 1
    athr = actual_thr(case)
    tags = ['n=%d' % n if n <= 3 else ('n=4..8' if n <= 8 else ('n=9..40' if n <= 40 else 'n>255' if n > 255 else 'n=41..255')),
            'thr=%g' % (thr / scale), 'dtype=' + dtype,
            'family=' + case.get('family', '?'),
            'tie' if tie else 'unique-heaviest',
            'sccs=%d' % ncomp if ncomp <= 3 else ('sccs>255' if ncomp > 255 else 'sccs>3')]
    if isinstance(athr, float):
        tags.append('threshold-non-integer' if not float(athr).is_integer() else 'threshold-passed-as-float')
    if isinstance(athr, np.integer):
        tags.append('threshold-passed-as-np.int32')
    if scale != 1 and np.dtype(dtype).kind == 'f' and any(x % scale for r in C for x in r):
        tags.append('non-integer-counts')
    if mode == 'pos':
        tags.append('positional-arguments')
    if case.get('explicit_zeros'):
        tags.append('sparse-explicit-zeros+duplicates(coo-unsummed,noncanonical-csr/csc)')
        if thr / scale >= 2:
            tags.append('duplicates-with-threshold>=2')
    if case.get('extra_containers'):
        tags.append('np.matrix+sparse-arrays')
    if ncomp == n and n > 1:
        tags.append('all-states-isolated')
    if all(x == 0 for r in C for x in r):
        tags.append('zero-matrix')
    elif n > 1 and not any(orc['adj'][i][:] and orc['adj'][i] != [i] for i in range(n)):
        tags.append('everything-below-threshold-or-diagonal')
    # heaviest is not the largest / not the first?
    if ncomp > 1 and not tie:
        h = orc['heaviest'][0]
        if any(len(c) > len(h) for c in orc['comps']):
            tags.append('heaviest-is-not-largest')
        if min(min(c) for c in orc['comps']) not in h:
            tags.append('heaviest-does-not-contain-state-0')
        if n <= 40:
            weak = tarjan([sorted(set(a) | set(j for j in range(n) if i in orc['adj'][j]))
                           for i, a in enumerate(orc['adj'])])
            if len(weak) < ncomp:
                tags.append('one-way-links(weak!=strong)')
        if max(h) > 255:
            tags.append('kept-state-id>255')
        if len(h) > 256:
            tags.append('kept-count>256')
        if case.get('_heavy_label', 0) > 255:
            tags.append('heaviest-scipy-label>255')
    if model_scc is None:
        tags.append('model-skipped-' + str(case.get('model_skipped', 'large-n')))
    pub = {k: case[k] for k in CASE_KEYS if k in case}
    ctx.case(pub if n <= 40 else dict(pub, counts='<%dx%d, sha %s>' % (n, n, hash(str(C)) & 0xffffffff)),
             nontrivial=ncomp >= 2, tags=tags)

    outs = {}
    kinds = containers_of(case)
    for kind in kinds:
        for renumber in (True, False):
            M = make_container(case, kind)
            before = snapshot(M)
            out = call_trim(M, athr, renumber, scale, mode)
            after = snapshot(M)
            rep = dict(pub, container=kind, renumber=renumber)
            if before != after:
                ctx.violation('trim_disconnected modified the caller\'s matrix (%s, renumber=%s)' % (kind, renumber), rep)
                return
            if 'error' in out:
                ctx.violation('trim_disconnected raised %s: %s (%s, renumber=%s)' %
                              (out['error'], out['msg'], kind, renumber), rep)
                return
            if not out['same_type']:
                ctx.violation('container type changed: %s in, %s out (renumber=%s)' % (kind, out['type'], renumber), rep)
                return
            bad = predicate(C, thr, renumber, out, orc)
            if bad:
                ctx.violation('%s (%s, %s, renumber=%s)' % (bad[0], kind, dtype, renumber), dict(rep, all_failures=bad[:5]))
                return
            outs[(kind, renumber)] = out
    # dense and sparse agree
    for renumber in (True, False):
        ref = outs[('ndarray', renumber)]
        for kind in kinds[1:]:
            o = outs[(kind, renumber)]
            for f in ('to_original', 'to_mapped', 'shape', 'matrix'):
                if o[f] != ref[f]:
                    ctx.violation('dense and %s results differ in %s (renumber=%s)' % (kind, f, renumber),
                                  dict(pub, container=kind, renumber=renumber))
                    return
    # renumbered and in-place describe the same model
    r1, r2 = outs[('ndarray', True)], outs[('ndarray', False)]
    kept1 = [o for _, o in sorted(r1['to_original'])]
    kept2 = sorted(o for _, o in r2['to_original'])
    if kept1 != kept2:
        ctx.violation('renumbered and in-place variants keep different states', pub)
        return
    sub = [[r2['matrix'][i][j] for j in kept1] for i in kept1]
    if sub != r1['matrix']:
        ctx.violation('renumbered matrix is not the in-place matrix restricted to the kept states', pub)
        return
    # default threshold is 1
    if thr == scale:
        o = call_trim(make_container(case, 'ndarray'), None, True, scale, mode='default')
        if any(o.get(f) != r1[f] for f in ('to_original', 'matrix')):
            ctx.violation('trim_disconnected(counts) differs from threshold=1', dict(pub, default_threshold=True))
            return
    # ---- call history / object reuse: the SAME matrix object trimmed again (after the caller scribbled on the
    # first mapping), and the returned matrix fed back in
    for kind in ('ndarray', 'csr') + (('coo', 'lil', 'matrix', 'csr_array') if case.get('extra_containers') else ()):
        for renumber in (True, False):
            M = make_container(case, kind)
            before = snapshot(M)
            o1 = call_trim(M, athr, renumber, scale, mode)
            if 'error' in o1:
                continue
            o1['_mapping_obj'].to_original[10 ** 6] = 10 ** 6
            o2 = call_trim(M, athr, renumber, scale, mode)
            ref = outs[(kind, renumber)]
            rep = dict(pub, container=kind, renumber=renumber, reuse='same-object-twice')
            if snapshot(M) != before:
                ctx.violation('matrix object changed after being trimmed twice (%s)' % kind, rep)
                return
            if any(o2.get(f) != ref[f] for f in ('to_original', 'to_mapped', 'shape', 'matrix', 'type')):
                ctx.violation('second trim of the same %s object differs from the first (renumber=%s)' % (kind, renumber), rep)
                return
            # feeding the result back: a strongly connected matrix is its own trimming
            T = o1['_T']
            tb = snapshot(T)
            k = len(ref['to_original'])
            inner = sum(sum(r) for r in r1['matrix'])
            if renumber or inner > 0:
                o3 = call_trim(T, athr, renumber, scale, mode)
                rep = dict(pub, container=kind, renumber=renumber, reuse='result-fed-back')
                exp_map = [[a, a] for a in range(k)] if renumber else ref['to_original']
                if snapshot(T) != tb:
                    ctx.violation('trimming a returned matrix modified it (%s)' % kind, rep)
                    return
                if o3.get('to_original') != exp_map or o3.get('matrix') != ref['matrix'] or o3.get('type') != ref['type']:
                    ctx.violation('trimming the trimmed matrix again changed it (%s, renumber=%s): %s'
                                  % (kind, renumber, o3.get('error', '')), rep)
                    return
    ctx.tag('reuse-same-object-twice+result-fed-back')
    # mappings / matrices handed out earlier must not have been touched by the later calls
    for (kind, renumber), o in outs.items():
        now = canon_mapping(o['_mapping_obj'])
        import scipy.sparse as sp
        T = o['_T']
        dn = T.toarray() if sp.issparse(T) else np.asarray(T)
        if now['to_original'] != o['to_original'] or now['to_mapped'] != o['to_mapped'] \
                or [[_num(x, scale) for x in row] for row in dn.tolist()] != o['matrix']:
            ctx.violation('a result returned earlier (%s, renumber=%s) changed after later calls' % (kind, renumber),
                          dict(pub, container=kind, renumber=renumber, reuse='earlier-result-aliased'))
            return
    # csv round trip of the real mapping
    from enspara.msm.transition_matrices import TrimMapping
    for renumber in (True, False):
        m = outs[('ndarray', renumber)]['_mapping_obj']
        buf = io.StringIO()
        m.write(buf)
        text = buf.getvalue()
        buf2 = io.StringIO()
        m.write(buf2)
        m2 = TrimMapping.read(io.StringIO(text))
        if not (m2 == m) or canon_mapping(m2)['to_original'] != canon_mapping(m)['to_original'] or buf2.getvalue() != text:
            ctx.violation('TrimMapping.read(write(m)) != m (renumber=%s)' % renumber, dict(pub, renumber=renumber))
            return
        rows = list(csv.reader(io.StringIO(text)))
        if model_trim is not None:
            mt = model_trim[renumber]
            if 'ok' in mt and mt['ok'].get('to_original') == canon_mapping(m)['to_original'] and mt['ok'].get('csv') != rows:
                ctx.disagreement('TrimMapping.write rows differ from the model',
                                 dict(pub, renumber=renumber, impl=rows, model=mt['ok'].get('csv')))

    # ---- model vs implementation
    if model_scc is None:
        return
    if 'ok' not in model_scc:
        ctx.disagreement('model scc op failed', dict(pub, model=model_scc))
        return
    ms = model_scc['ok']
    if ms['reach'] != bfs_reach(orc['adj']):
        ctx.disagreement('Lean Warshall closure differs from breadth-first reachability', dict(pub, model=ms['reach']))
        return
    if sorted(map(tuple, ms['heaviest'])) != sorted(map(tuple, orc['heaviest'])):
        ctx.disagreement('model heaviest SCCs differ from the Tarjan oracle',
                         dict(pub, model=ms['heaviest'], oracle=orc['heaviest']))
        return
    for renumber in (True, False):
        mt = model_trim[renumber]
        ref = outs[('ndarray', renumber)]
        if 'ok' not in mt:
            ctx.disagreement('model raised %s, implementation returned' % mt.get('error'), dict(pub, renumber=renumber))
            return
        mo = mt['ok']
        if not mo['valid']:
            ctx.disagreement('scipy labelling is not the SCC partition of the model closure '
                             '(model hypothesis validLabeling false)', dict(pub, renumber=renumber, labels=case.get('_labels')))
            return
        if not mo['in_heaviest'] or not mo['reread_equal']:
            ctx.disagreement('model self-check failed (in_heaviest/reread_equal)', dict(pub, renumber=renumber))
            return
        for f in ('to_original', 'to_mapped', 'matrix'):
            if mo[f] != ref[f]:
                ctx.disagreement('model and implementation differ in %s (renumber=%s)%s' % (
                                 f, renumber, '; weights tie: the implementation did not pick the FIRST maximal scipy label'
                                 if tie and sorted(o for _, o in ref['to_original']) in orc['heaviest'] else ''),
                                 dict(pub, renumber=renumber, model=mo[f], impl=ref[f]))
                return
        if [mo['shape'], mo['shape']] != ref['shape']:
            ctx.disagreement('model and implementation differ in shape', dict(pub, renumber=renumber))
            return


def scipy_labels(C, thr):
    """the labelling the code obtains (same call as in trim_disconnected), on the numerators"""
    from scipy.sparse.csgraph import connected_components
    n = len(C)
    T = np.array([[1 if (x >= thr and x != 0) else 0 for x in r] for r in C], dtype=np.int64).reshape(n, n)
    nsub, labels = connected_components(T, connection='strong', directed=True)
    return int(nsub), [int(x) for x in labels]


def model_requests(case):
    """scipy's numbering is a parameter of the model and is passed UNCHANGED (connected_components is
    deterministic and depends only on the sparsity pattern, which is the same for the numerators as for the
    thresholded counts the code hands over).  So also under weight ties the model's first-maximum choice
    (theorem keep_label_first_max) must coincide with the implementation's pick; a different pick that is still a
    heaviest SCC satisfies the property's predicate (no violation) but is reported as a model/implementation
    disagreement (correspondence broken)."""
    C, thr = case['counts'], case['thr']
    if case.get('model_skipped') or len(C) > 40:
        case.setdefault('model_skipped', 'large-n')
        if len(C) > 255:
            nsub, labels = scipy_labels(C, thr)
            h = oracle(C, thr)['heaviest']
            case['_heavy_label'] = labels[h[0][0]]
        return []
    nsub, labels = scipy_labels(C, thr)
    case['_labels'] = labels
    reqs = [{'op': 'C11.scc', 'counts': C, 'thr': thr}]
    for renumber in (True, False):
        reqs.append({'op': 'C11.trim', 'counts': C, 'thr': thr, 'labels': labels, 'nsub': nsub,
                     'renumber': renumber})
    return reqs


def run_cases(ctx, cases):
    reqs, where = [], []
    for c in cases:
        r = model_requests(c)
        where.append(len(reqs) if r else None)
        reqs += r
    resp = ctx.driver(reqs)
    for c, w in zip(cases, where):
        if w is None:
            check_case(ctx, c, None, None)
        else:
            check_case(ctx, c, resp[w], {True: resp[w + 1], False: resp[w + 2]})


# --------------------------------------------------------------------------- generators

def gen_structured(rng, family, big=False):
    hi_comp = 7 if big else 4
    blocks = []      # list of (size, multiplier, self_heavy)
    if family == 'equal-size':
        s = int(rng.integers(1, 4))
        k = int(rng.integers(2, hi_comp + 1))
        mults = rng.permutation([1, 2, 3, 5, 7, 11, 13][:k])
        blocks = [(s, int(m), 0) for m in mults]
    elif family == 'light-large-vs-heavy-small':
        blocks = [(int(rng.integers(3, 6)), 1, 0), (int(rng.integers(1, 3)), int(rng.integers(8, 30)), 0)]
        if rng.random() < 0.5:
            blocks.append((int(rng.integers(1, 4)), 1, 0))
        order = rng.permutation(len(blocks))
        blocks = [blocks[i] for i in order]
    elif family == 'tie':
        s = int(rng.integers(1, 4))
        m = int(rng.integers(1, 4))
        blocks = [(s, m, 0), (s, m, 0)]
        if rng.random() < 0.5:
            blocks.append((int(rng.integers(1, 3)), 1, 0))
    elif family == 'below-threshold-weight':
        # a block whose weight comes from self counts / many small counts that are below the threshold
        blocks = [(int(rng.integers(1, 4)), 1, int(rng.integers(5, 40))), (int(rng.integers(2, 5)), int(rng.integers(1, 4)), 0)]
        if rng.random() < 0.5:
            blocks.reverse()
    else:
        k = int(rng.integers(1, hi_comp + 1))
        blocks = [(int(rng.integers(1, 5)), int(rng.choice([1, 1, 2, 3, 10])), 0) for _ in range(k)]
    n_iso = int(rng.integers(0, 3))
    n_sink = int(rng.integers(0, 3))
    n_src = int(rng.integers(0, 2))
    n = sum(b[0] for b in blocks) + n_iso + n_sink + n_src
    perm = [int(x) for x in rng.permutation(n)]
    C = [[0] * n for _ in range(n)]
    pos = 0
    members = []
    for size, mult, selfw in blocks:
        st = perm[pos:pos + size]
        pos += size
        members.append(st)
        exact = (family == 'tie')
        if size == 1:
            C[st[0]][st[0]] = (2 if exact else int(rng.integers(0, 5))) * mult
        else:
            for a in range(size):
                u, v = st[a], st[(a + 1) % size]
                C[u][v] = (2 if exact else int(rng.integers(1, 5))) * mult
            if not exact:
                for u in st:
                    for v in st:
                        if u != v and C[u][v] == 0 and rng.random() < 0.25:
                            C[u][v] = int(rng.integers(1, 5)) * mult
        if selfw:
            # weight that is invisible to the thresholded graph: self counts and a fan of 1-counts
            C[st[0]][st[0]] += selfw
    if family != 'tie':
        # one-way links between blocks (never back: keeps the blocks separate components at thr<=1)
        for a in range(len(members)):
            for b in range(a + 1, len(members)):
                if rng.random() < 0.5:
                    u = members[a][int(rng.integers(0, len(members[a])))]
                    v = members[b][int(rng.integers(0, len(members[b])))]
                    if rng.random() < 0.5:
                        u, v = v, u
                        # reversed direction for this pair only; still one-way
                    if C[v][u] == 0:
                        C[u][v] = int(rng.choice([1, 2, 3, 4, 25]))
    iso = perm[pos:pos + n_iso]
    pos += n_iso
    for s in iso:
        if rng.random() < 0.5:
            C[s][s] = int(rng.choice([1, 3, 60]))      # heavy isolated state
    sinks = perm[pos:pos + n_sink]
    pos += n_sink
    others = [s for m in members for s in m]
    for s in sinks:
        if others:
            for _ in range(int(rng.integers(1, 3))):
                u = others[int(rng.integers(0, len(others)))]
                C[u][s] = int(rng.integers(1, 5))
    srcs = perm[pos:pos + n_src]
    for s in srcs:
        if others:
            for _ in range(int(rng.integers(1, 3))):
                v = others[int(rng.integers(0, len(others)))]
                C[s][v] = int(rng.choice([1, 2, 4, 30]))
    thr = int(rng.choice([0, 1, 2, 3, 0, 1, 2, 3, 0, 1, 2, 3, -1, 5]))
    return {'counts': C, 'thr': thr, 'dtype': str(rng.choice(['int64', 'int64', 'int32'])), 'family': family}


def gen_uniform(rng, big=False):
    n = int(rng.integers(1, 13 if big else 8))
    dens = float(rng.choice([0.1, 0.2, 0.35, 0.6]))
    C = [[int(rng.integers(1, 5)) if rng.random() < dens else 0 for _ in range(n)] for _ in range(n)]
    return {'counts': C, 'thr': int(rng.integers(0, 4)), 'dtype': 'int64', 'family': 'uniform'}


def gen_small(rng):
    n = int(rng.integers(2, 5))
    C = [[int(rng.choice([0, 0, 1, 2, 3])) for _ in range(n)] for _ in range(n)]
    return {'counts': C, 'thr': int(rng.integers(0, 4)), 'dtype': 'int64', 'family': 'small-dense'}


INT_DTYPES = ['int8', 'int16', 'int32', 'uint8', 'uint16', 'uint32', 'uint64', 'float32', 'float64']


def vary(rng, case, how):
    """dtype / threshold-type / call-style / container variants of a structured case (class 2 and 6 of the audit)"""
    c = dict(case)
    if how == 'dtype':
        c['dtype'] = str(rng.choice(INT_DTYPES))
        c['thr_kind'] = str(rng.choice(['int', 'float', 'npint']))
        if c['thr'] < 0:
            c['thr_kind'] = 'int'
        c['call'] = str(rng.choice(['kw', 'pos']))
    elif how == 'half-threshold':
        # integer counts (any dtype), threshold k + 0.5
        c['scale'] = 2
        c['counts'] = [[2 * x for x in r] for r in case['counts']]
        c['thr'] = int(rng.choice([1, 3, 5, 7]))
        c['dtype'] = str(rng.choice(['int64', 'int32', 'uint8', 'float64', 'float32']))
    elif how == 'half-counts':
        # counts that are multiples of 1/2 (e.g. after a symmetrising builder), float containers
        c['scale'] = 2
        c['thr'] = int(rng.integers(0, 8))
        c['dtype'] = str(rng.choice(['float64', 'float32']))
    c['explicit_zeros'] = bool(rng.random() < 0.4)
    c['extra_containers'] = bool(rng.random() < 0.5)
    c['family'] = case['family'] + '/' + how
    return c


def gen_large(rng, variant, heavy=False):
    """more than 255 / 256 states, components and kept states (narrow label or index dtypes)"""
    n = int(rng.choice([270, 300])) if variant == 'big-component' else (int(rng.choice([258, 300, 320])) if variant == 'many-singletons' else int(rng.choice([256, 257, 300])))
    C = [[0] * n for _ in range(n)]
    thr = int(rng.choice([1, 2]))
    if variant == 'many-singletons':
        # every state its own component (self count 1), one heavy 2-cycle; placed where scipy numbers it > 255
        for i in range(n):
            C[i][i] = 1
        best = None
        for (a, b) in [(n - 2, n - 1), (0, 1), (n // 2, n - 1), (0, n - 1)]:
            D = [r[:] for r in C]
            D[a][b] = 3
            D[b][a] = 4
            _, labels = scipy_labels(D, thr)
            if best is None or labels[a] > best[0]:
                best = (labels[a], D)
        C = best[1]
    elif variant == 'big-component':
        # one cycle through more than 256 states (new ids > 255), light; a heavy small rival; singletons
        perm = [int(x) for x in rng.permutation(n)]
        k = int(rng.integers(257, n - 6))
        cyc = perm[:k]
        for a in range(k):
            C[cyc[a]][cyc[(a + 1) % k]] = int(rng.integers(2, 5))
        u, v = perm[k], perm[k + 1]
        C[u][v] = C[v][u] = (4 * k if heavy else 3)
        for s_ in perm[k + 2:]:
            C[cyc[0]][s_] = 1          # one-way into sinks
    else:
        # ~n/2 two-cycles of increasing weight in shuffled positions: heaviest has a high id and a high label
        perm = [int(x) for x in rng.permutation(n)]
        order = [int(x) for x in rng.permutation(n // 2)]
        for idx, q in enumerate(order):
            u, v = perm[2 * q], perm[2 * q + 1]
            C[u][v] = 2 + idx
            C[v][u] = 2
            if idx + 1 < len(order) and rng.random() < 0.3:
                C[u][perm[2 * order[idx + 1]]] = 1     # one-way link (below thr 2)
    return {'counts': C, 'thr': thr, 'dtype': str(rng.choice(['int64', 'int32', 'uint16'])),
            'family': 'large-n/' + variant, 'model_skipped': 'large-n'}


def gen_near_tie(rng):
    """component weights that differ by 1 at the scale 2**40..2**60 (exact in int64, not in float)"""
    W = 2 ** int(rng.integers(40, 61)) + int(rng.integers(0, 1000))
    perm = [int(x) for x in rng.permutation(6)]
    C = [[0] * 6 for _ in range(6)]
    a, b, c, d, e, f = perm
    deltas = [int(x) for x in rng.permutation([0, 1, 2])]
    C[a][b], C[b][a] = W + deltas[0], 2
    C[c][d], C[d][c] = W + deltas[1] - 3, 5
    C[e][e] = W + deltas[2] + 2
    C[f][e] = 1
    return {'counts': C, 'thr': int(rng.choice([0, 1, 2, 3])), 'dtype': str(rng.choice(['int64', 'uint64'])),
            'family': 'near-tie-2^40..2^60'}


def gen_uint8_sums(rng):
    n = int(rng.integers(3, 6))
    C = [[int(rng.choice([0, 0, 100, 200, 255])) for _ in range(n)] for _ in range(n)]
    return {'counts': C, 'thr': int(rng.choice([1, 101, 201])), 'dtype': str(rng.choice(['uint8', 'uint8', 'uint16'])),
            'family': 'narrow-dtype-row-sums>255', 'extra_containers': bool(rng.random() < 0.3)}


def gen_degenerate(rng):
    n = int(rng.integers(1, 8))
    kind = str(rng.choice(['zero', 'diagonal', 'below-threshold', 'pendant-chain', 'star', 'self-only+one-pair']))
    C = [[0] * n for _ in range(n)]
    thr = int(rng.integers(0, 4))
    if kind == 'diagonal':
        for i in range(n):
            C[i][i] = int(rng.integers(0, 4))
    elif kind == 'below-threshold':
        thr = 3
        C = [[int(rng.integers(0, 3)) for _ in range(n)] for _ in range(n)]
    elif kind == 'pendant-chain':
        for i in range(n - 1):
            C[i][i + 1] = int(rng.integers(1, 4))
            C[i + 1][i] = int(rng.integers(1, 4))
    elif kind == 'star':
        for i in range(1, n):
            C[0][i] = int(rng.integers(1, 4))
            if rng.random() < 0.6:
                C[i][0] = int(rng.integers(1, 4))
    elif kind == 'self-only+one-pair':
        for i in range(n):
            C[i][i] = int(rng.integers(1, 9))
        if n >= 2:
            C[0][1] = C[1][0] = 1
    return {'counts': C, 'thr': thr, 'dtype': str(rng.choice(['int64', 'int32', 'float64'])),
            'family': 'degenerate/' + kind, 'extra_containers': bool(rng.random() < 0.3),
            'explicit_zeros': bool(rng.random() < 0.3)}


FAMILIES = ['random', 'random', 'equal-size', 'light-large-vs-heavy-small', 'tie', 'below-threshold-weight']


def small_exhaustive():
    cases = []
    for v in range(0, 3):
        for thr in (0, 1, 2):
            cases.append({'counts': [[v]], 'thr': thr, 'dtype': 'int64', 'family': 'exhaustive-1x1'})
    for vals in itertools.product(range(3), repeat=4):
        for thr in (0, 1, 2):
            cases.append({'counts': [[vals[0], vals[1]], [vals[2], vals[3]]], 'thr': thr, 'dtype': 'int64',
                          'family': 'exhaustive-2x2'})
    return cases


# --------------------------------------------------------------------------- MSM.fit

def ref_counts(rows, lag, n):
    """the lagged pair count in the property's own words (sliding window)"""
    C = [[0] * n for _ in range(n)]
    for r in rows:
        for t in range(len(r) - lag):
            C[r[t]][r[t + lag]] += 1
    return C


def build_assigns(case):
    from enspara import ra
    rows, form, dt = case['assigns'], case.get('form', 'padded'), case.get('adtype', 'int64')
    if form == 'ragged':
        return ra.RaggedArray([np.array(r, dtype=dt) for r in rows])
    a = -np.ones((len(rows), max(len(r) for r in rows)), dtype=dt)
    for i, r in enumerate(rows):
        a[i, :len(r)] = r
    return a


def check_msm(ctx, case):
    import logging
    logging.getLogger('enspara').setLevel(logging.ERROR)
    for name in ('enspara.msm.msm', 'enspara.msm.transition_matrices'):
        logging.getLogger(name).setLevel(logging.ERROR)
    from enspara.msm import MSM, builders
    from enspara.msm.transition_matrices import assigns_to_counts, trim_disconnected
    rows, lag, method = case['assigns'], case['lag'], case['method']
    form, adt = case.get('form', 'padded'), case.get('adtype', 'int64')
    n_true = case['n_states'] if case['n_states'] is not None else max(max(r) for r in rows) + 1
    a = build_assigns(case)
    a_before = np.asarray(a._data if form == 'ragged' else a).tobytes()
    tags = ['msm', 'msm-fit-' + method, 'msm-assigns=%s/%s' % (form, adt),
            'msm-n_states=' + ('explicit' if case['n_states'] is not None else 'inferred')]
    if n_true > 255:
        tags.append('msm-states>255')
    if max(len(r) for r in rows) >= 300:
        tags.append('msm-counts>127')
    counts = assigns_to_counts(a, lag_time=lag, max_n_states=case['n_states'])
    C = ref_counts(rows, lag, n_true)
    if np.asarray(counts.toarray()).tolist() != C:
        ctx.skip('assigns_to_counts differs from the reference pair count (C03 matter) for %s/%s' % (form, adt))
        return
    m0, t0 = trim_disconnected(counts, threshold=1, renumber_states=True)
    msm = MSM(lag_time=lag, method=getattr(builders, method), trim=True, max_n_states=case['n_states'])
    err = None
    try:
        msm.fit(a)
    except Exception as e:  # noqa
        err = type(e).__name__
    if not hasattr(msm, 'mapping_'):
        ctx.skip('MSM.fit raised %s before the mapping was stored' % err)
        return
    if err:
        ctx.skip('MSM.fit: builder raised %s after trimming (mapping still compared)' % err)
    got, exp = canon_mapping(msm.mapping_), canon_mapping(m0)
    pub = dict(case, kind='msm')
    ctx.case(pub if n_true <= 40 else dict(pub, assigns='<%d rows>' % len(rows)), nontrivial=True, tags=tags)
    if got != exp or not (msm.mapping_ == m0):
        ctx.violation('MSM(trim=True).fit(...).mapping_ differs from trim_disconnected(counts)',
                      dict(pub, got=got, expected=exp))
        return
    orc = oracle(C, 1)
    t0d = np.asarray(t0.toarray() if hasattr(t0, 'toarray') else t0)
    out = dict(got, shape=list(t0d.shape), matrix=t0d.astype(int).tolist())
    bad = predicate(C, 1, True, out, orc)
    if bad:
        ctx.violation('MSM mapping_: ' + bad[0], pub)
        return
    if type(t0) is not type(counts):
        ctx.violation('trim_disconnected changed the container of the MSM counts: %s -> %s'
                      % (type(counts).__name__, type(t0).__name__), pub)
        return
    if err is None:
        tc = msm.tcounts_
        tc = np.asarray(tc.toarray() if hasattr(tc, 'toarray') else tc)
        if tc.shape != (len(got['to_original']),) * 2:
            ctx.violation('MSM tcounts_ shape %s does not match the %d kept states'
                          % (tc.shape, len(got['to_original'])), pub)
            return
    # call history: the same estimator fitted again on the same assignment object, after the caller
    # scribbled on the first mapping
    msm.mapping_.to_original[10 ** 6] = 10 ** 6
    try:
        msm.fit(a)
    except Exception:  # noqa
        pass
    if canon_mapping(msm.mapping_) != exp:
        ctx.violation('second MSM.fit on the same objects reports a different mapping', dict(pub, reuse='fit-twice'))
        return
    if np.asarray(a._data if form == 'ragged' else a).tobytes() != a_before:
        ctx.violation('MSM.fit modified the assignments', dict(pub, reuse='fit-twice'))


def gen_msm(rng, large=False):
    n_states = int(rng.integers(2, 7)) if not large else int(rng.choice([260, 300]))
    rows = []
    if large:
        # every state visited, most of them only in passing (one-way), a heavy recurrent block at high ids
        order = [int(x) for x in rng.permutation(n_states)]
        rows.append(order)
        blk = [int(x) for x in rng.choice(np.arange(256, n_states), size=3, replace=False)]
        rows.append([blk[i % 3] for i in range(40)])
        lo = [int(x) for x in rng.choice(np.arange(0, 200), size=2, replace=False)]
        rows.append([lo[i % 2] for i in range(12)])
    else:
        # trajectories confined to (possibly overlapping) subsets of states -> several components, one-way hops
        for _ in range(int(rng.integers(1, 5))):
            k = int(rng.integers(1, n_states + 1))
            sub = rng.choice(n_states, size=k, replace=False)
            L = int(rng.integers(2, 14))
            rows.append([int(x) for x in rng.choice(sub, size=L)])
    lag = int(rng.integers(1, 3))
    if all(len(r) <= lag for r in rows):
        rows.append([0] * (lag + 2))
    long_ = (not large) and rng.random() < 0.3
    if long_:
        # counts above 127 / 255 between two or three states
        sub = [int(x) for x in rng.choice(n_states, size=min(n_states, int(rng.integers(2, 4))), replace=False)]
        rows.append([sub[i % len(sub)] for i in range(int(rng.integers(300, 700)))])
    form = str(rng.choice(['padded', 'ragged']))
    adt = str(rng.choice(['int64', 'int32', 'int16', 'int8'] if form == 'padded' else
                         ['int64', 'int32', 'int16', 'int8', 'uint8', 'uint16', 'uint32']))
    if long_:
        adt = str(rng.choice(['int8', 'int16'] if form == 'padded' else ['int8', 'uint8', 'int16']))
    if large and adt in ('int8', 'uint8'):
        adt = 'int16'
    explicit = bool(rng.random() < 0.6)
    return {'assigns': rows, 'lag': lag, 'n_states': n_states if explicit else None,
            'method': str(rng.choice(['normalize', 'transpose'])), 'form': form, 'adtype': adt}


# --------------------------------------------------------------------------- TrimMapping dict / csv

def check_mappings(ctx, cases):
    from enspara.msm.transition_matrices import TrimMapping
    reqs = []
    for c in cases:
        if c['kind'] == 'mapping':
            reqs.append({'op': 'C11.mapping', 'pairs': c['pairs']})
        else:
            reqs.append({'op': 'C11.csv_read', 'rows': c['rows']})
    resp = ctx.driver(reqs)
    for c, r in zip(cases, resp):
        if c['kind'] == 'mapping':
            m = TrimMapping(iter([tuple(p) for p in c['pairs']]))
            inj = len(set(p[0] for p in c['pairs'])) == len(c['pairs']) == len(set(p[1] for p in c['pairs']))
            ctx.case(c, nontrivial=len(c['pairs']) > 1, tags=['mapping-injective' if inj else 'mapping-with-duplicates'])
            buf = io.StringIO()
            m.write(buf)
            rows = list(csv.reader(io.StringIO(buf.getvalue())))
            m2 = TrimMapping.read(io.StringIO(buf.getvalue()))
            if inj:
                if not (m2 == m):
                    ctx.violation('TrimMapping.read(write(m)) != m for a one-to-one mapping', c)
                    continue
            got = canon_mapping(m)
            mo = r.get('ok', {})
            if mo.get('to_original') != got['to_original'] or mo.get('to_mapped') != got['to_mapped'] \
                    or mo.get('csv') != rows:
                ctx.disagreement('TrimMapping dictionaries / csv rows differ from the model', dict(c, model=r, impl=got, rows=rows))
            elif inj and not mo.get('reread_equal'):
                # exact equality needs sorted input; only permutation is promised in general
                srt = c['pairs'] == sorted(c['pairs'])
                if srt:
                    ctx.disagreement('model read(write(m)) != m on sorted one-to-one pairs', c)
        else:
            text = ''.join(','.join(row) + '\r\n' for row in c['rows'])
            ctx.case(c, nontrivial=True, tags=['csv-read-' + c['expect']])
            try:
                m = TrimMapping.read(io.StringIO(text))
                got = {'ok': canon_mapping(m)}
            except AssertionError:
                got = {'error': 'assertion'}
            except StopIteration:
                got = {'error': 'stop-iteration'}
            except ValueError:
                got = {'error': 'value-error'}
            if got != r:
                ctx.disagreement('TrimMapping.read differs from the model', dict(c, model=r, impl=got))


def gen_mapping(rng):
    k = int(rng.integers(0, 7))
    if rng.random() < 0.7:
        orig = [int(x) for x in rng.choice(12, size=k, replace=False)]
        new = [int(x) for x in rng.permutation(k)] if rng.random() < 0.5 else list(range(k))
        if rng.random() < 0.5:
            orig = sorted(orig)
        pairs = [[o, t] for o, t in zip(orig, new)]
    else:
        pairs = [[int(rng.integers(0, 5)), int(rng.integers(0, 4))] for _ in range(k)]
    return {'kind': 'mapping', 'pairs': pairs}


def gen_csv(rng):
    k = int(rng.integers(0, 5))
    orig = [int(x) for x in rng.choice(30, size=k, replace=False)]
    rows = [['original', 'mapped']] + [[str(o), str(t)] for t, o in enumerate(orig)]
    u = rng.random()
    expect = 'ok'
    if u < 0.15:
        rows[0] = [['mapped', 'original'], ['original'], ['Original', 'mapped'], ['original', 'mapped', 'x']][int(rng.integers(0, 4))]
        expect = 'assertion'
    elif u < 0.25:
        rows = []
        expect = 'stop-iteration'
    elif u < 0.4 and k > 0:
        rows[int(rng.integers(1, k + 1))][int(rng.integers(0, 2))] = str(rng.choice(['x', 'a1', '1.5', '']))
        expect = 'value-error'
    return {'kind': 'csv', 'rows': rows, 'expect': expect}


# --------------------------------------------------------------------------- entry points

def run(ctx):
    import warnings
    warnings.filterwarnings('ignore', message='.*DIA matrix.*')
    warnings.filterwarnings('ignore', category=RuntimeWarning, module='.*builders.*')
    rng = ctx.rng
    # empty matrix: the only error branch
    from enspara.msm.transition_matrices import trim_disconnected
    r = ctx.driver([{'op': 'C11.trim', 'counts': [], 'thr': 1, 'labels': [], 'nsub': 0, 'renumber': True}])[0]
    try:
        trim_disconnected(np.zeros((0, 0), dtype=int))
        impl = 'ok'
    except ValueError:
        impl = 'value-error'
    except Exception as e:  # noqa
        impl = type(e).__name__
    ctx.tag('empty-matrix')
    if r.get('error') != impl:
        ctx.disagreement('0x0 matrix: model %s, implementation %s' % (r, impl), {'kind': 'empty'})

    cases = small_exhaustive()
    nrand = ctx.n(900, 7000)
    for i in range(nrand):
        if i % 7 == 5:
            c = gen_small(rng)
        elif i % 7 == 6:
            c = gen_uniform(rng, big=ctx.thorough and i % 2 == 0)
        else:
            c = gen_structured(rng, FAMILIES[i % len(FAMILIES)], big=ctx.thorough and i % 5 == 0)
        if i % 4 == 1:
            c = vary(rng, c, str(rng.choice(['dtype', 'dtype', 'half-threshold', 'half-counts'])))
        elif i % 4 == 3:
            c['extra_containers'] = bool(i % 8 == 3)
            c['explicit_zeros'] = bool(i % 8 == 7)
            c['call'] = 'pos' if i % 16 == 3 else 'kw'
        cases.append(c)
    for i in range(ctx.n(24, 240)):
        # un-summed duplicate entries (as in assigns_to_counts output) with thresholds that only the SUM reaches
        c = gen_structured(rng, FAMILIES[i % len(FAMILIES)]) if i % 3 else gen_uniform(rng)
        vals = sorted({x for r in c['counts'] for x in r if x >= 2})
        # a threshold that some stored sums reach exactly while every stored part stays below it
        c['thr'] = int(rng.choice(vals)) if vals and rng.random() < 0.7 else int(rng.choice([2, 3, 4]))
        c['explicit_zeros'] = True
        c['family'] += '/duplicates'
        cases.append(c)
    for i in range(ctx.n(40, 400)):
        cases.append(gen_degenerate(rng))
    for i in range(ctx.n(30, 300)):
        cases.append(gen_near_tie(rng) if i % 2 == 0 else gen_uint8_sums(rng))
    for i in range(ctx.n(6, 36)):
        cases.append(gen_large(rng, ['many-singletons', 'big-component', 'many-pairs'][i % 3], heavy=bool((i // 3) % 2)))
    run_cases(ctx, cases)

    for i in range(ctx.n(90, 900)):
        check_msm(ctx, gen_msm(rng))
    for i in range(ctx.n(2, 12)):
        check_msm(ctx, gen_msm(rng, large=True))

    mc = [gen_mapping(rng) for _ in range(ctx.n(150, 2000))] + [gen_csv(rng) for _ in range(ctx.n(100, 1000))]
    check_mappings(ctx, mc)
    ctx.note('containers', BASE_CONTAINERS + EXTRA_CONTAINERS)


def replay(ctx, data):
    kind = data.get('kind')
    if kind == 'msm':
        check_msm(ctx, {k: data[k] for k in ('assigns', 'lag', 'n_states', 'method', 'form', 'adtype') if k in data})
    elif kind in ('mapping', 'csv'):
        check_mappings(ctx, [{k: v for k, v in data.items() if k in ('kind', 'pairs', 'rows', 'expect')}])
    elif kind == 'empty':
        return
    else:
        c = {k: data[k] for k in CASE_KEYS if k in data}
        c.setdefault('family', 'replay')
        run_cases(ctx, [c])
